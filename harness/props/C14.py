"""C14 — rechunking yields the requested chunks with unchanged values.

Correspondence (model vs implementation, every run):
  rp.resolve           vs  x.rechunk(spec).chunks per axis for the explicit kinds (None / -1 / int / tuple)
  rp.get_chunks/balance vs _get_chunks / _balance_chunksizes
  rp.intersect_chunks  vs  intersect_chunks and vs the task graph of _compute_rechunk / TasksRechunk._layer
                           (for every new block the ordered list of (old block, slices), nested shape)
  rp.rechunk_chain     vs  executing the real _compute_rechunk graphs of a chain of 1-d stages
Search (oracle: NumPy values + the documented resolution of the spec followed by normalize_chunks):
  every spec kind (int, tuple of ints, tuple of tuples, dict incl. negative axes, -1, None per axis, 'auto', byte
  strings, block_size_limit=, balance=True) on random arrays under several graph shapes (rechunk absorbed by the
  source — NumPy sources, chunked stores, and stores of ENCODED samples read through a decoding getitem= (4- / 2-argument,
  with lock / asarray / fancy / inline_array), directly and below elemwise / transpose / a slice —, TasksRechunk, pushed through elemwise / transpose / concatenate / expand_dims, composed with slices,
  rechunk of rechunk), unknown sizes (allowed along unchanged axes, ValueError along changed ones), and rechunk at
  random positions of random programs.
  Call histories: the same rechunk (same array layout, spec, kwargs) repeated under a SEQUENCE of configurations in one
  process (array.chunk-size, array.chunk-size-tolerance, array.rechunk.threshold; fresh or the same array object; every
  order incl. A,B,A): .chunks == normalize_chunks under the configuration IN EFFECT at the call == the same call with
  block_size_limit= the limit in force; brute-force byte budget per block; the layout settled at the call survives a later
  configuration (advertised == optimized == produced blocks, values == NumPy); the layout of the last step == the layout the
  same call gives as the first call of a NEW interpreter (history independence, whatever a memo is keyed on).
  Huge lazy arrays (axes 2**53 … 2**62, da.zeros metadata only): explicit spec kinds against a brute-force integer walk.
Failure signatures: rechunk:chunks, rechunk:chunks:optimize[-drops-balance|-size1-zero-width], rechunk:values, rechunk:raises, rechunk:raises:zero-width,
  rechunk:unknown-values, rechunk:unknown-not-refused, rechunk:unknown-raises, program:values, program:chunks, program:raises,
  rechunk:nested:*, rechunk:dict-none:*, rechunk:history:* (each :chunks / :optimize / :values / :raises),
  rechunk:config:chunks / :explicit-limit / :differs-from-fresh-process / :budget / :late-chunks / :optimize / :values / :raises, rechunk:huge:chunks / :optimize / :raises.
Extra classes: nested rechunks (balance at either level, above elemwise/transpose/...), dict specs with an explicit None on a
  multi-chunk axis (negative keys, above elemwise, unknown sizes), history (same array, same resolved spec, with and without
  balance, both alive); for each: advertised .chunks == documented == optimized .chunks == shapes of the produced blocks.
"""
from __future__ import annotations

import itertools
import math
import warnings

import numpy as np

from harness import gen, programs
from harness.core import err_name, f_list, f_ll

EXC = (AssertionError, IndexError, ValueError, TypeError, ZeroDivisionError, OverflowError, KeyError, NotImplementedError)


def call(fn, fmt):
    try:
        return fmt(fn())
    except EXC as e:
        return err_name(e)


# ------------------------------------------------------------------ spec handling

def enc_spec(spec):
    """JSON-able encoding of a rechunk spec."""
    if isinstance(spec, dict):
        return {"dict": [[int(k), enc_spec(v)] for k, v in spec.items()]}
    if isinstance(spec, tuple):
        return {"tuple": [enc_spec(v) for v in spec]}
    if spec is None:
        return None
    if isinstance(spec, str):
        return spec
    if isinstance(spec, float) and math.isnan(spec):
        return "nan"
    return int(spec)


def dec_spec(e):
    if e == "nan":
        return float("nan")
    if isinstance(e, dict) and "dict" in e:
        return {int(k): dec_spec(v) for k, v in e["dict"]}
    if isinstance(e, dict) and "tuple" in e:
        return tuple(dec_spec(v) for v in e["tuple"])
    return e


def expected_chunks(xchunks, shape, dtype, spec, block_size_limit):
    """What the documentation says: None / missing dict axes keep x's chunks, the rest is
    normalize_chunks against x's shape (limit = block_size_limit, previous_chunks = x.chunks)."""
    from dask_array._core_utils import normalize_chunks

    nd = len(shape)
    ch = spec
    if isinstance(ch, dict):
        d = {(k + nd if k < 0 else k): v for k, v in ch.items()}
        ch = tuple(d[i] if d.get(i) is not None else xchunks[i] for i in range(nd))
    if isinstance(ch, (tuple, list)):
        ch = tuple(c if c is not None else xc for c, xc in zip(ch, xchunks))
    return normalize_chunks(ch, shape, limit=block_size_limit, dtype=dtype, previous_chunks=xchunks)


def rand_axis_spec(rng, n, allow_str=True):
    r = rng.random()
    if r < 0.25:
        return rng.randint(1, max(1, n + 1))
    if r < 0.4:
        return -1
    if r < 0.55:
        return None
    if r < 0.8:
        return tuple(gen.rand_chunks(rng, n, zeros=0.15))
    if allow_str and r < 0.9:
        return "auto"
    if allow_str:
        return rng.choice(["8B", "16B", "64B", "100B"])
    return rng.randint(1, max(1, n))


def rand_spec(rng, shape):
    """(kind, spec, kwargs)"""
    nd = len(shape)
    kind = rng.choice(["int", "tuple_int", "tuple_tuple", "dict", "minus1", "mixed", "auto", "bytes", "limit", "balance"])
    kw = {}
    if kind == "int":
        spec = rng.randint(1, max(shape) + 1)
    elif kind == "tuple_int":
        spec = tuple(rng.choice([rng.randint(1, max(1, n + 1)), -1, None]) for n in shape)
    elif kind == "tuple_tuple":
        spec = tuple(tuple(gen.rand_chunks(rng, n, zeros=0.15)) for n in shape)
    elif kind == "dict":
        axes = [a for a in range(nd) if rng.random() < 0.6] or [rng.randrange(nd)]
        spec = {(a - nd if rng.random() < 0.3 else a): rand_axis_spec(rng, shape[a]) for a in axes}
    elif kind == "minus1":
        spec = -1
    elif kind == "mixed":
        spec = tuple(rand_axis_spec(rng, n) for n in shape)
    elif kind == "auto":
        spec = "auto"
        if rng.random() < 0.7:
            kw["block_size_limit"] = rng.choice([8, 16, 64, 200, 1000])
    elif kind == "bytes":
        spec = rng.choice(["8B", "16B", "64B", "128B", "1kiB"])
    elif kind == "limit":
        spec = tuple(rng.choice(["auto", -1, None, rng.randint(1, max(1, n))]) for n in shape)
        kw["block_size_limit"] = rng.choice([8, 16, 64, 200, 1000])
    else:
        spec = tuple(rng.randint(1, max(1, n)) for n in shape) if rng.random() < 0.7 else rng.randint(1, max(shape))
        kw["balance"] = True
    return kind, spec, kw


WRAPS = ("io", "blk", "elem", "tr", "cat", "exp", "slice", "slice-nocull", "slice-nocull", "rr", "store", "store-slice",
         "coded", "coded-elem", "coded-tr", "coded-slice")
CODE_OFFSET = 1000


class _CodedStore:
    """An array-like whose samples are stored ENCODED (offset + sign flip, int64); `from_array(..., getitem=_decode)` decodes on
    read, the way a packed on-disk variable is decoded.  A rechunk absorbed by such a read must keep reading through the getter."""

    def __init__(self, a, chunks=None):
        self._raw = CODE_OFFSET - a.astype("int64")
        self.shape = a.shape
        self.dtype = a.dtype
        self.ndim = a.ndim
        if chunks is not None:
            self.chunks = tuple(chunks)

    def __getitem__(self, idx):
        return self._raw[idx]


def _decode(a, index, asarray=True, lock=None):
    if lock:
        lock.acquire()
    try:
        block = np.asarray(a[index])
    finally:
        if lock:
            lock.release()
    return (CODE_OFFSET - block).astype(a.dtype)


def _decode2(a, index):
    return (CODE_OFFSET - np.asarray(a[index])).astype(a.dtype)


class _Store:
    """A chunked store (zarr/h5py-like): `.chunks` is the native storage grid, reads go through __getitem__."""

    def __init__(self, a, chunks):
        self._a = a
        self.shape = a.shape
        self.dtype = a.dtype
        self.ndim = a.ndim
        self.chunks = tuple(chunks)

    def __getitem__(self, idx):
        return self._a[idx]


def build(case):
    """Returns (dask array before the rechunk, numpy reference)."""
    import dask_array as da

    shape = tuple(case["shape"])
    n = int(np.prod(shape)) if shape else 1
    data = (np.arange(n, dtype=np.int64) * 7 % 113).astype(case.get("dtype", "int64")).reshape(shape)
    w = case["wrap"]
    if w in ("store", "store-slice"):
        x = da.from_array(_Store(data, case["storage"]), chunks=tuple(tuple(c) for c in case["chunks"]))
        if w == "store":
            return x, data
        idx = tuple(slice(a, b) for a, b in case["index"])
        return x[idx], data[idx]
    if w.startswith("coded"):
        opts = dict(case.get("read", {}))
        kw = {"getitem": _decode2 if opts.pop("two_arg", False) else _decode}
        kw.update(opts)
        x = da.from_array(_CodedStore(data, case.get("storage")), chunks=tuple(tuple(c) for c in case["chunks"]), **kw)
        if w == "coded":
            return x, data
        if w == "coded-elem":
            return x * 2 + 1, data * 2 + 1
        if w == "coded-tr":
            axes = tuple(case["axes"])
            return da.transpose(x, axes), np.transpose(data, axes)
        idx = tuple(slice(a, b) for a, b in case["index"])
        return x[idx], data[idx]
    x = da.from_array(data, chunks=tuple(tuple(c) for c in case["chunks"]))
    if w == "io":
        return x, data
    if w == "blk":
        return x.map_blocks(lambda b: b), data
    if w == "elem":
        return x * 2 + 1, data * 2 + 1
    if w == "tr":
        axes = tuple(case["axes"])
        return da.transpose(x, axes), np.transpose(data, axes)
    if w == "cat":
        ax = case["axis"]
        other = da.from_array(data + 1000, chunks=tuple(tuple(c) for c in case["chunks2"]))
        return da.concatenate([x, other], axis=ax), np.concatenate([data, data + 1000], axis=ax)
    if w == "exp":
        return da.expand_dims(x, case["axis"]), np.expand_dims(data, case["axis"])
    if w == "slice":
        idx = tuple(slice(a, b) for a, b in case["index"])
        return x.map_blocks(lambda b: b)[idx], data[idx]
    if w == "slice-nocull":
        # an off-grid slice that culls no block stays above the elemwise producer: the rechunk composes with it
        idx = tuple(slice(a, b) for a, b in case["index"])
        return (x + 0)[idx], (data + 0)[idx]
    if w == "rr":
        return x.map_blocks(lambda b: b).rechunk(tuple(tuple(c) for c in case["chunks2"])), data
    raise KeyError(w)


def rand_case(rng, maxdim, zeros=0.0):
    rank = rng.choice([1, 2, 2, 3])
    shape = [rng.randint(1, maxdim) for _ in range(rank)]
    case = {
        "kind": "spec", "shape": shape, "chunks": [list(gen.rand_chunks(rng, s, zeros=zeros)) for s in shape],
        "dtype": rng.choice(["int64", "int64", "int32", "int8", "float64"]), "wrap": rng.choice(WRAPS),
    }
    w = case["wrap"]
    if w.startswith("coded"):
        # the read options next to getitem= that a rebuilt source node has to carry too
        read = {}
        if rng.random() < 0.3:
            read["two_arg"] = True
        if rng.random() < 0.3:
            read["lock"] = True
        if rng.random() < 0.4:
            read["asarray"] = rng.random() < 0.5
        if rng.random() < 0.3:
            read["fancy"] = False
        if rng.random() < 0.3:
            read["inline_array"] = True
        case["read"] = read
        case["chunks"] = [list(gen.rand_chunks(rng, s)) for s in shape]
        if rng.random() < 0.3:
            case["storage"] = [rng.randint(1, max(1, s)) for s in shape]
    if w in ("tr", "coded-tr"):
        if rank < 2:
            case["wrap"] = "blk" if w == "tr" else "coded"
        else:
            ax = list(range(rank))
            rng.shuffle(ax)
            case["axes"] = ax
    elif w == "cat":
        case["axis"] = rng.randrange(rank)
        case["chunks2"] = [list(gen.rand_chunks(rng, s, zeros=zeros)) for s in shape]
    elif w == "exp":
        case["axis"] = rng.randint(0, rank)
    if w in ("store", "store-slice"):
        case["storage"] = [rng.randint(1, max(1, s)) for s in shape]
        case["chunks"] = [list(c) for c in (gen.rand_chunks(rng, s) for s in shape)]
    if w in ("slice", "store-slice", "coded-slice"):
        idx = []
        for s in shape:
            a = rng.randint(0, max(0, s - 1))
            b = rng.randint(a + 1, s)
            idx.append([a, b])
        case["index"] = idx
    elif w == "slice-nocull":
        case["chunks"] = [list(gen.rand_chunks(rng, s_)) for s_ in shape]
        idx = []
        for s_, c in zip(shape, case["chunks"]):
            a = rng.randint(0, c[0] - 1)
            b_ = rng.randint(max(a + 1, s_ - c[-1] + 1), s_)
            idx.append([a, b_])
        case["index"] = idx
    elif w == "rr":
        case["chunks2"] = [list(gen.rand_chunks(rng, s, zeros=zeros)) for s in shape]
    return case


def check_spec_case(ctx, case):
    """x.rechunk(spec): chunks = documented expectation, values = NumPy."""
    import dask

    spec = dec_spec(case["spec"])
    kw = dict(case.get("kw", {}))
    cfg = case.get("config", {})
    has_zero = any(c == 0 for dim in case["chunks"] + case.get("chunks2", []) for c in dim)
    with warnings.catch_warnings():
        warnings.simplefilter("ignore")
        with dask.config.set(cfg):
            try:
                b, ref = build(case)
            except EXC as e:
                ctx.notes["build_errors"] = ctx.notes.get("build_errors", 0) + 1
                return
            if isinstance(spec, tuple) and len(spec) != b.ndim:
                return
            if isinstance(spec, dict) and any(not (-b.ndim <= k < b.ndim) for k in spec):
                return
            try:
                want = expected_chunks(b.chunks, b.shape, b.dtype, spec, kw.get("block_size_limit"))
            except Exception:
                ctx.notes["spec_rejected_by_normalize_chunks"] = ctx.notes.get("spec_rejected_by_normalize_chunks", 0) + 1
                return
            try:
                y = b.rechunk(spec, **kw)
                got = y.chunks
                val = y.compute()
                opt_chunks = y.optimize().chunks
            except EXC as e:
                sig = "rechunk:raises:zero-width" if has_zero and isinstance(e, (AssertionError, IndexError, ZeroDivisionError)) else "rechunk:raises"
                ctx.fail(sig, dict(case, error=repr(e)), "x.rechunk(spec) raises for an accepted spec")
                return
    ctx.count(("spec", case["wrap"], case.get("speckind"), len(case["shape"]), has_zero, bool(kw.get("balance"))))
    if kw.get("balance"):
        ok_chunks = tuple(sum(c) for c in got) == tuple(b.shape) and all(len(c) >= 1 for c in got)
        case = dict(case, normalized=[list(c) for c in want])
    else:
        ok_chunks = tuple(got) == tuple(want)
    if not ok_chunks:
        ctx.fail("rechunk:chunks", dict(case, got=[list(c) for c in got], want=[list(c) for c in want]),
                 "x.rechunk(spec).chunks differs from normalizing the spec against x's shape and chunks")
    elif tuple(opt_chunks) != tuple(got) and tuple(b.optimize().chunks) != tuple(b.chunks):
        # the array BEFORE the rechunk already changes its chunks under optimize() (seen: elemwise lowering of a
        # zero-width chunk on a size-1 axis): not attributable to the rechunk, outside C14 (C03/C17)
        ctx.notes["base_chunks_drift_under_optimize"] = ctx.notes.get("base_chunks_drift_under_optimize", 0) + 1
    elif tuple(opt_chunks) != tuple(got):
        if kw.get("balance"):
            sig = "rechunk:chunks:optimize-drops-balance"
        elif any(n == 1 and 0 in c for n, c in zip(b.shape, got)):
            sig = "rechunk:chunks:optimize-size1-zero-width"
        else:
            sig = "rechunk:chunks:optimize"
        ctx.fail(sig, dict(case, got=[list(c) for c in opt_chunks], want=[list(c) for c in got], where="after optimize()"),
                 "the optimized expression has other chunks than x.rechunk(spec).chunks advertises")
    if val.shape != ref.shape or not np.array_equal(val, ref):
        ctx.fail("rechunk:values", dict(case, got=np.asarray(val).tolist(), want=ref.tolist()), "x.rechunk(spec) computes other values than x")
    return got, want, kw


def check_unknown_case(ctx, case):
    """Unknown sizes: allowed along unchanged axes (values = NumPy), ValueError along changed axes."""
    import dask_array as da

    shape = tuple(case["shape"])
    n = int(np.prod(shape))
    data = (np.arange(n, dtype=np.int64) * 7 % 113).reshape(shape)
    x = da.from_array(data, chunks=tuple(tuple(c) for c in case["chunks"]))
    mask = np.array(case["mask"], dtype=bool)
    m = da.from_array(mask, chunks=(tuple(case["chunks"][0]),))
    u = x[m]
    ref = data[mask]
    spec = dec_spec(case["spec"])
    with warnings.catch_warnings():
        warnings.simplefilter("ignore")
        try:
            y = u.rechunk(spec)
            chunks = y.chunks
            val = y.compute()
        except ValueError:
            ctx.count(("unknown", "refused", case["changes_unknown"]))
            if not case["changes_unknown"]:
                ctx.fail("rechunk:unknown-raises", case, "rechunk along known axes of an array with unknown sizes on another axis raises")
            return
        except EXC as e:
            ctx.fail("rechunk:unknown-raises", dict(case, error=repr(e)), "rechunk with unknown sizes raises something other than ValueError")
            return
    ctx.count(("unknown", "accepted", case["changes_unknown"]))
    if case["changes_unknown"]:
        ctx.fail("rechunk:unknown-not-refused", dict(case, chunks=repr(chunks)), "rechunk along an axis of unknown sizes was not refused")
        return
    ok = all(math.isnan(c) for c in chunks[0]) and len(chunks[0]) == len(case["chunks"][0])
    want_known = expected_known_axes(case, spec)
    if not ok or tuple(chunks[1:]) != want_known:
        ctx.fail("rechunk:chunks", dict(case, got=repr(chunks), want=repr(want_known)), "chunks after rechunk with unknown sizes")
    if val.shape != ref.shape or not np.array_equal(val, ref):
        ctx.fail("rechunk:unknown-values", dict(case, got=val.tolist(), want=ref.tolist()), "values change under rechunk with unknown sizes")


def expected_known_axes(case, spec):
    from dask_array._core_utils import normalize_chunks

    shape = tuple(case["shape"])
    nd = len(shape)
    d = {}
    if isinstance(spec, dict):
        d = {(k + nd if k < 0 else k): v for k, v in spec.items()}
    else:
        d = {i: v for i, v in enumerate(spec)}
    out = []
    for ax in range(1, nd):
        v = d.get(ax)
        if v is None:
            out.append(tuple(case["chunks"][ax]))
        else:
            out.append(normalize_chunks((v,), (shape[ax],), dtype=np.int64)[0])
    return tuple(out)


# ------------------------------------------------- nested rechunks, explicit None, history

def documented_chunks(xchunks, shape, dtype, spec, kw):
    """The documented layout of x.rechunk(spec, **kw): resolution + normalize_chunks, then (balance=True) each
    axis through _balance_chunksizes (that helper is tied to the Lean model by the rp.balance correspondence)."""
    from dask_array import _rechunk as R

    want = expected_chunks(xchunks, shape, dtype, spec, kw.get("block_size_limit"))
    if kw.get("balance"):
        with warnings.catch_warnings():
            warnings.simplefilter("ignore")
            want = tuple(tuple(int(v) for v in R._balance_chunksizes(c)) for c in want)
    return tuple(tuple(c) for c in want)


def block_chunks(y):
    """Chunks as the PRODUCED blocks define them (graph executed, one shape per key)."""
    import dask
    from dask.core import flatten

    keys = list(flatten(y.__dask_keys__()))
    res = dask.get(dict(y.__dask_graph__()), keys)
    shapes = {k[1:]: np.asarray(r).shape for k, r in zip(keys, res)}
    nd = y.ndim
    nb = [max(i[d] for i in shapes) + 1 for d in range(nd)] if nd else []
    out = []
    for d in range(nd):
        out.append(tuple(shapes[tuple(i if e == d else 0 for e in range(nd))][d] for i in range(nb[d])))
    for idx, shp in shapes.items():
        if tuple(out[d][idx[d]] for d in range(nd)) != tuple(shp):
            return None
    return tuple(out)


def verify_layout(ctx, sig, case, y, want, ref, what):
    """advertised .chunks == documented == optimized .chunks == per-block shapes; values == NumPy."""
    try:
        got = tuple(tuple(c) for c in y.chunks)
        opt = tuple(tuple(c) for c in y.optimize().chunks)
        blk = block_chunks(y)
        val = y.compute()
    except EXC as e:
        ctx.fail(sig + ":raises", dict(case, error=repr(e), which=what), "a rechunk that the documentation accepts raises")
        return False
    same = lambda a, b_: len(a) == len(b_) and all(
        len(p) == len(q) and all(u == v or (isinstance(u, float) and isinstance(v, float) and math.isnan(u) and math.isnan(v))
                                 for u, v in zip(p, q)) for p, q in zip(a, b_))
    if want is not None and not same(got, want):
        ctx.fail(sig + ":chunks", dict(case, which=what, got=repr(got), want=repr(want)), "advertised .chunks differ from the documented layout")
        return False
    known = not any(isinstance(c, float) and math.isnan(c) for dim in got for c in dim)
    if not same(opt, got) or (known and blk is not None and blk != got) or (known and blk is None):
        ctx.fail(sig + ":optimize", dict(case, which=what, advertised=repr(got), optimized=repr(opt), blocks=repr(blk)),
                 "advertised .chunks, optimized .chunks and the shapes of the produced blocks disagree")
        return False
    if ref is not None and (np.asarray(val).shape != ref.shape or not np.array_equal(val, ref)):
        ctx.fail(sig + ":values", dict(case, which=what, got=np.asarray(val).tolist(), want=ref.tolist()), "values change")
        return False
    return True


def check_nested_case(ctx, case):
    """x.rechunk(a, **kwa).rechunk(b, **kwb): each level has its own documented layout."""
    with warnings.catch_warnings():
        warnings.simplefilter("ignore")
        try:
            b, ref = build(case)
        except EXC:
            return
        sa, sb = dec_spec(case["spec_a"]), dec_spec(case["spec_b"])
        kwa, kwb = dict(case["kw_a"]), dict(case["kw_b"])
        try:
            want1 = documented_chunks(b.chunks, b.shape, b.dtype, sa, kwa)
            want2 = documented_chunks(want1, b.shape, b.dtype, sb, kwb)
        except Exception:
            return
        try:
            y1 = b.rechunk(sa, **kwa)
            y2 = y1.rechunk(sb, **kwb)
        except EXC as e:
            ctx.fail("rechunk:nested:raises", dict(case, error=repr(e)), "nested rechunk raises")
            return
        ctx.count(("nested", case["wrap"], bool(kwa.get("balance")), bool(kwb.get("balance")), want1 != tuple(map(tuple, b.chunks)), want2 != want1))
        if verify_layout(ctx, "rechunk:nested", case, y2, want2, ref, "outer"):
            verify_layout(ctx, "rechunk:nested", case, y1, want1, ref, "inner (still alive)")


def check_dictnone_case(ctx, case):
    """A dict spec with an explicit None keeps that axis' current chunks."""
    import dask_array as da

    with warnings.catch_warnings():
        warnings.simplefilter("ignore")
        spec = dec_spec(case["spec"])
        if case.get("mask") is not None:
            shape = tuple(case["shape"])
            data = (np.arange(int(np.prod(shape)), dtype=np.int64) * 7 % 113).reshape(shape)
            x = da.from_array(data, chunks=tuple(tuple(c) for c in case["chunks"]))
            mask = np.array(case["mask"], dtype=bool)
            b = x[da.from_array(mask, chunks=(tuple(case["chunks"][0]),))]
            if case["wrap"] == "elem":
                b, ref = b * 2 + 1, data[mask] * 2 + 1
            else:
                ref = data[mask]
        else:
            try:
                b, ref = build(case)
            except EXC:
                return
        nd = b.ndim
        keep = [(k + nd if k < 0 else k) for k, v in spec.items() if v is None]
        try:
            y = b.rechunk(spec)
        except EXC as e:
            ctx.fail("rechunk:dict-none:raises", dict(case, error=repr(e)), "a dict spec with an explicit None raises")
            return
        ctx.count(("dict-none", case["wrap"], case.get("mask") is not None, any(k < 0 for k in spec), len(keep)))
        want = list(b.chunks)
        for k, v in spec.items():
            ax = k + nd if k < 0 else k
            if v is not None:
                from dask_array._core_utils import normalize_chunks

                want[ax] = normalize_chunks((v,), (b.shape[ax],), dtype=b.dtype)[0]
        verify_layout(ctx, "rechunk:dict-none", case, y, tuple(tuple(c) for c in want), ref, "dict with None")


def check_history_case(ctx, case):
    """Two rechunks of the SAME array to the same resolved spec, with and without balance, both alive."""
    with warnings.catch_warnings():
        warnings.simplefilter("ignore")
        try:
            b, ref = build(case)
        except EXC:
            return
        spec = dec_spec(case["spec"])
        try:
            want_plain = documented_chunks(b.chunks, b.shape, b.dtype, spec, {})
            want_bal = documented_chunks(b.chunks, b.shape, b.dtype, spec, {"balance": True})
        except Exception:
            return
        try:
            if case["balance_first"]:
                yb = b.rechunk(spec, balance=True)
                yp = b.rechunk(spec)
            else:
                yp = b.rechunk(spec)
                yb = b.rechunk(spec, balance=True)
        except EXC as e:
            ctx.fail("rechunk:history:raises", dict(case, error=repr(e)), "rechunk raises")
            return
        ctx.count(("history", case["wrap"], case["balance_first"], want_plain != want_bal))
        if verify_layout(ctx, "rechunk:history", case, yp, want_plain, ref, "second/first call without balance"):
            verify_layout(ctx, "rechunk:history", case, yb, want_bal, ref, "call with balance=True")


def effective_balance_spec(rng, shape):
    """int per axis with n % k != 0 where possible (so that balancing changes the layout)."""
    return tuple(rng.choice([k for k in range(2, n) if n % k] or [max(1, n)]) if n > 2 else -1 for n in shape)


def search_extra(ctx):
    rng = ctx.rng
    wraps = ("io", "blk", "elem", "tr", "exp", "cat", "coded", "coded-elem")

    def base(maxdim):
        case = rand_case(rng, maxdim)
        for _ in range(20):
            if case["wrap"] in wraps:
                return case
            case = rand_case(rng, maxdim)
        case["wrap"] = "blk"
        return case

    # (1) nested rechunks
    for i in range(ctx.scale(130, 2500)):
        case = base(rng.choice([7, 10, 12, 13]))
        try:
            b, _ = build(case)
        except EXC:
            continue
        mode = rng.choice(["bal-inner", "bal-outer", "both", "none"])
        sa = effective_balance_spec(rng, b.shape) if mode in ("bal-inner", "both") else rand_spec(rng, b.shape)[1]
        if mode in ("bal-outer", "both"):
            sb = effective_balance_spec(rng, b.shape)
        else:
            sb = tuple(tuple(gen.rand_chunks(rng, n)) for n in b.shape) if rng.random() < 0.6 else rng.randint(1, max(b.shape))
        case.update(kind="nested", spec_a=enc_spec(sa), kw_a={"balance": True} if mode in ("bal-inner", "both") else {},
                    spec_b=enc_spec(sb), kw_b={"balance": True} if mode in ("bal-outer", "both") else {})
        check_nested_case(ctx, case)
        if i % 60 == 0:
            ctx.sample({"case": case})
    # (2) dict specs with an explicit None on a multi-chunk axis
    for i in range(ctx.scale(90, 1500)):
        unknown = rng.random() < 0.3
        if unknown:
            rank = rng.choice([2, 3])
            shape = [rng.randint(2, 8) for _ in range(rank)]
            chunks = [list(gen.rand_chunks(rng, s)) for s in shape]
            while len(chunks[0]) < 2:
                chunks[0] = list(gen.rand_chunks(rng, shape[0]))
            case = {"kind": "dictnone", "shape": shape, "chunks": chunks, "mask": [rng.random() < 0.6 for _ in range(shape[0])],
                    "wrap": rng.choice(["blk", "elem"])}
            nd, keep_ax, cur = rank, 0, shape
        else:
            case = base(rng.choice([6, 9, 12]))
            case["kind"] = "dictnone"
            try:
                b, _ = build(case)
            except EXC:
                continue
            multi = [a for a in range(b.ndim) if len(b.chunks[a]) > 1]
            if not multi or b.ndim < 2:
                continue
            nd, keep_ax, cur = b.ndim, rng.choice(multi), b.shape
        spec = {}
        for a in range(nd):
            key = a - nd if rng.random() < 0.4 else a
            if a == keep_ax:
                spec[key] = None
            elif rng.random() < 0.8:
                spec[key] = rng.choice([rng.randint(1, max(1, cur[a])), -1, tuple(gen.rand_chunks(rng, cur[a])), None])
        if all(v is None for v in spec.values()) and len(spec) == nd:
            continue
        case["spec"] = enc_spec(spec)
        check_dictnone_case(ctx, case)
        if i % 45 == 0:
            ctx.sample({"case": case})
    # (3) history: same array, same resolved spec, with and without balance, both alive
    for i in range(ctx.scale(70, 1200)):
        case = base(rng.choice([7, 10, 13]))
        try:
            b, _ = build(case)
        except EXC:
            continue
        case.update(kind="history", spec=enc_spec(effective_balance_spec(rng, b.shape)), balance_first=rng.random() < 0.5)
        check_history_case(ctx, case)
        if i % 35 == 0:
            ctx.sample({"case": case})


# ------------------------------------------------- call histories (configuration sequences)

CFG_SIZE, CFG_TOL, CFG_THR = "array.chunk-size", "array.chunk-size-tolerance", "array.rechunk.threshold"


def _parse_bytes(v):
    from dask.utils import parse_bytes

    return parse_bytes(v) if isinstance(v, str) else int(v)


def resolve_axes(spec, xchunks):
    """Per-axis view of a rechunk spec (documentation: scalar -> every axis; dict -> listed axes, negative keys count
    from the end, missing / None keep x's chunks; tuple -> per axis, None keeps)."""
    nd = len(xchunks)
    if isinstance(spec, dict):
        d = {(k + nd if k < 0 else k): v for k, v in spec.items()}
        ax = [d.get(i) for i in range(nd)]
    elif isinstance(spec, (tuple, list)):
        ax = list(spec)
    else:
        ax = [spec] * nd
    return [tuple(xc) if a is None else a for a, xc in zip(ax, xchunks)]


def fresh_rechunk_chunks(items):
    """Runs in a NEW interpreter (harness.props_ext.fresh_process): for each case the rechunk under its LAST
    configuration only, as the first rechunk of that array layout / spec in the process."""
    import dask

    seen, out = set(), []
    for case in items:
        key = repr([case[k] for k in ("shape", "chunks", "dtype", "wrap", "spec", "kw")])
        if key in seen:
            out.append(None)
            continue
        seen.add(key)
        try:
            with warnings.catch_warnings():
                warnings.simplefilter("ignore")
                with dask.config.set(case["configs"][-1]):
                    b, _ = build(case)
                    out.append([list(c) for c in b.rechunk(dec_spec(case["spec"]), **case.get("kw", {})).chunks])
        except Exception as e:  # noqa: BLE001
            out.append("err " + type(e).__name__)
    return out


def compare_with_fresh(ctx, items):
    """items: [(case, chunks of the LAST step as seen in this process)]"""
    from harness.props_ext.fresh_process import run_fresh

    if not items:
        return
    fresh = run_fresh("C14", "fresh_rechunk_chunks", [c for c, _ in items])
    n = 0
    for (case, got), f in zip(items, fresh):
        if f is None or isinstance(f, str):
            continue
        n += 1
        here = [list(c) for c in got]
        if here != f:
            ctx.fail("rechunk:config:differs-from-fresh-process", dict(case, step=len(case["configs"]) - 1, fresh_check=True, got=repr(here), want=repr(f)),
                     "x.rechunk(spec).chunks after other configurations were used in this process differs from what the same call "
                     "(same array layout, spec, configuration) gives as the first call of a new interpreter")
    ctx.notes["cfgseq_compared_with_fresh_interpreter"] = ctx.notes.get("cfgseq_compared_with_fresh_interpreter", 0) + n


def check_cfgseq_case(ctx, case, collect=None):
    """The same rechunk under each configuration of case["configs"] in turn.  case["reuse"]: the same array object
    for every step (else a fresh, equal one).  Every oracle is evaluated under the configuration in effect at the call."""
    import dask
    from fractions import Fraction

    spec = dec_spec(case["spec"])
    kw = dict(case.get("kw", {}))
    layouts = []
    b0 = None
    pending = None  # (step, y, got, ref) of the previous step: re-examined under the NEXT configuration
    sig = "rechunk:config"

    def late(i, y, got, ref, where):
        here = dict(case, step=i, examined=where)
        try:
            now = tuple(tuple(c) for c in y.chunks)
            opt = tuple(tuple(c) for c in y.optimize().chunks)
            blk = block_chunks(y)
            val = y.compute()
        except EXC as e:
            ctx.fail(sig + ":raises", dict(here, error=repr(e)), "a rechunk that the documentation accepts raises")
            return False
        if now != got:
            ctx.fail(sig + ":late-chunks", dict(here, at_call=repr(got), later=repr(now)), "y.chunks changes after the call when the configuration changes")
            return False
        if opt != got or blk != got:
            ctx.fail(sig + ":optimize", dict(here, advertised=repr(got), optimized=repr(opt), blocks=repr(blk)),
                     "advertised .chunks, optimized .chunks and the shapes of the produced blocks disagree")
            return False
        if np.asarray(val).shape != ref.shape or not np.array_equal(val, ref):
            ctx.fail(sig + ":values", dict(here, got=np.asarray(val).tolist(), want=ref.tolist()), "values change")
            return False
        return True

    with warnings.catch_warnings():
        warnings.simplefilter("ignore")
        for i, cfg in enumerate(case["configs"]):
            here = dict(case, step=i)
            with dask.config.set(cfg):
                if pending is not None:
                    if not late(*pending, "under the next configuration"):
                        return
                    pending = None
                try:
                    b, ref = build(case) if (b0 is None or not case.get("reuse")) else b0
                except EXC:
                    return
                if b0 is None:
                    b0 = (b, ref)
                    if isinstance(spec, tuple) and len(spec) != b.ndim:
                        return
                    if isinstance(spec, dict) and any(not (-b.ndim <= k < b.ndim) for k in spec):
                        return
                try:
                    want = documented_chunks(b.chunks, b.shape, b.dtype, spec, kw)
                except Exception:
                    return
                try:
                    y = b.rechunk(spec, **kw)
                    got = tuple(tuple(c) for c in y.chunks)
                except EXC as e:
                    ctx.fail(sig + ":raises", dict(here, error=repr(e)), "x.rechunk(spec) raises for an accepted spec")
                    return
                layouts.append(got)
                if got != want:
                    ctx.fail(sig + ":chunks", dict(here, got=repr(got), want=repr(want), config_in_effect=cfg),
                             "x.rechunk(spec).chunks differs from normalizing the spec under the configuration in effect at the call")
                    return
                axes = resolve_axes(spec, b.chunks)
                autos = [isinstance(a, str) for a in axes]
                if any(autos):
                    lim = kw.get("block_size_limit")
                    for a in axes:
                        if isinstance(a, str) and a != "auto":
                            lim = _parse_bytes(a)
                    if lim is None:
                        lim = _parse_bytes(dask.config.get(CFG_SIZE))
                    tol = dask.config.get(CFG_TOL)
                    # (b) the same request with the limit in force passed explicitly, defaults set to a decoy
                    try:
                        with dask.config.set({CFG_SIZE: "3B"}):
                            b2, _ = build(case)
                            ref_chunks = tuple(tuple(c) for c in b2.rechunk(spec, **dict(kw, block_size_limit=lim)).chunks)
                    except EXC as e:
                        ctx.fail(sig + ":raises", dict(here, error=repr(e), which="explicit block_size_limit"), "x.rechunk(spec, block_size_limit=) raises")
                        return
                    if ref_chunks != got:
                        ctx.fail(sig + ":explicit-limit", dict(here, got=repr(got), want=repr(ref_chunks), limit_in_force=lim),
                                 "x.rechunk(spec) under a configured array.chunk-size differs from x.rechunk(spec, block_size_limit=that value)")
                        return
                    # (c) brute-force byte budget per block (itemsize x the largest block), as normalize_chunks documents it:
                    # within tolerance x limit unless the non-auto axes alone are over the limit
                    if not kw.get("balance") and not any(0 in xc for a, xc in zip(autos, b.chunks) if a):
                        itemsize = b.dtype.itemsize
                        fixed = itemsize * math.prod(max(c) for c, a in zip(got, autos) if not a)
                        block = max(itemsize * math.prod(c[j] for c, j in zip(got, idx)) for idx in itertools.product(*(range(len(c)) for c in got)))
                        if fixed <= lim and Fraction(block) > Fraction(tol) * lim:
                            ctx.fail(sig + ":budget", dict(here, got=repr(got), block_bytes=block, limit_in_force=lim, tolerance=tol),
                                     "a block of x.rechunk(spec) is larger than tolerance x the byte limit in force at the call")
                            return
                if case.get("late"):
                    pending = (i, y, got, ref)
                elif not late(i, y, got, ref, "under the configuration of the call"):
                    return
        if pending is not None:
            with dask.config.set({CFG_SIZE: "5B", CFG_THR: 1}):
                if not late(*pending, "under an unrelated configuration"):
                    return
    if collect is not None and len(case["configs"]) > 1:
        collect.append((case, layouts[-1]))
    ctx.count(("cfgseq", case["wrap"], case.get("speckind"), len(case["shape"]), min(len(set(layouts)), 3), case.get("vary"),
               bool(case.get("reuse")), bool(case.get("late")), bool(kw.get("balance")), "block_size_limit" in kw))


def rand_auto_spec(rng, shape):
    """(kind, spec, kwargs) with at least one axis left to 'auto' / a byte string, in every presentation."""
    nd = len(shape)
    kind = rng.choice(["auto", "auto", "tuple-auto", "tuple-auto", "dict-auto", "dict-auto", "bytes", "limit-kw", "balance-auto"])
    kw = {}
    other = lambda n: rng.choice([-1, None, rng.randint(1, max(1, n)), tuple(gen.rand_chunks(rng, n))])
    if kind in ("auto", "limit-kw", "balance-auto"):
        spec = "auto" if rng.random() < 0.5 else tuple("auto" if rng.random() < 0.6 else other(n) for n in shape)
        if isinstance(spec, tuple) and "auto" not in spec:
            spec = ("auto",) + spec[1:]
    elif kind == "tuple-auto":
        spec = [other(n) for n in shape]
        spec[rng.randrange(nd)] = "auto"
        spec = tuple(spec)
    elif kind == "dict-auto":
        axes = [a for a in range(nd) if rng.random() < 0.5]
        spec = {(a - nd if rng.random() < 0.3 else a): other(shape[a]) for a in axes}
        a = rng.randrange(nd)
        spec.pop(a, None), spec.pop(a - nd, None)
        spec[a - nd if rng.random() < 0.3 else a] = "auto"
    else:
        spec = None
    return kind, spec, kw


def search_cfgseq(ctx):
    rng = ctx.rng
    collect = []
    for i in range(ctx.scale(260, 2500)):
        case = rand_case(rng, rng.choice([6, 12, 24]))
        if case["wrap"] in ("store", "store-slice"):
            case["wrap"] = "io"
        try:
            b, _ = build(case)
        except EXC:
            continue
        nbytes = max(1, b.dtype.itemsize * math.prod(b.shape))
        sizes = sorted({b.dtype.itemsize, max(1, nbytes // 64), max(1, nbytes // 16), max(1, nbytes // 4), max(1, nbytes // 2), nbytes, 4 * nbytes, 2**27})
        kind, spec, kw = rand_auto_spec(rng, b.shape)
        if kind == "bytes":
            v = rng.choice(sizes)
            spec = f"{v}B" if rng.random() < 0.5 else tuple(rng.choice([f"{v}B", f"{v}B", -1, None]) for _ in b.shape)
            if isinstance(spec, tuple) and not any(isinstance(a, str) for a in spec):
                spec = f"{v}B"
        elif kind == "limit-kw":
            kw["block_size_limit"] = rng.choice(sizes)
        elif kind == "balance-auto":
            kw["balance"] = True
        if rng.random() < 0.12:  # control group: explicit kinds must not react to the configuration at all
            kind, spec, kw = rand_spec(rng, b.shape)
            kind = "ctl-" + kind
        vary = rng.choice(["size", "size", "size", "tolerance", "size+tolerance", "threshold", "all"])
        # limits that matter for this array: between one element and the whole array (beyond, every layout is the same)
        inner = [v for v in sizes if v <= nbytes] + [nbytes]
        base = {CFG_SIZE: rng.choice(inner)}
        seq = []
        nseq = rng.choice([2, 2, 3, 3, 4])
        tols = rng.sample([1.0, 1.1, 1.25, 1.5, 2.0, 4.0, 8.0], nseq)
        if vary == "tolerance":  # the tolerance decides between merging and splitting the old chunks when the limit is mid-range
            base[CFG_SIZE] = max(b.dtype.itemsize, nbytes // rng.choice([2, 3, 4, 6, 8, 12, 16]))
        pool = rng.sample(sizes, min(nseq, len(sizes))) if rng.random() < 0.7 else [rng.choice(sizes) for _ in range(nseq)]
        for j in range(nseq):
            cfg = dict(base)
            if vary in ("size", "size+tolerance", "all"):
                v = pool[j % len(pool)]
                cfg[CFG_SIZE] = v if rng.random() < 0.6 else f"{v}B"
            if vary in ("tolerance", "size+tolerance", "all"):
                cfg[CFG_TOL] = tols[j % len(tols)]
            if vary in ("threshold", "all"):
                cfg[CFG_THR] = rng.choice([1, 2, 4, 16, 1000])
            seq.append(cfg)
        if vary == "size" and rng.random() < 0.5:
            seq.sort(key=lambda c: _parse_bytes(c[CFG_SIZE]), reverse=rng.random() < 0.5)  # generous -> tight / tight -> generous
        if rng.random() < 0.5:
            seq.append(dict(seq[0]))  # A, B, ..., A
        case.update(kind="cfgseq", speckind=kind, spec=enc_spec(spec), kw=kw, configs=seq, vary=vary,
                    reuse=rng.random() < 0.4, late=rng.random() < 0.4)
        check_cfgseq_case(ctx, case, collect)
        if i % 40 == 0:
            ctx.sample({"case": case})
    compare_with_fresh(ctx, collect)


# ------------------------------------------------------------------ huge lazy arrays

def _walk(n, c):
    """Brute-force integer walk along an axis: take c, take c, ... (the number of blocks is small by construction)."""
    if n == 0:
        return (0,)
    out, left = [], n
    while left > 0:
        out.append(min(c, left))
        left -= out[-1]
    return tuple(out)


def check_huge_case(ctx, case):
    """x = da.zeros(huge shape, chunks=...) (metadata only), optionally under elemwise / transpose; explicit spec kinds:
    y.chunks == brute-force walk == y.optimize().chunks.  Nothing is computed."""
    import dask_array as da

    shape = tuple(case["shape"])
    spec = dec_spec(case["spec"])
    with warnings.catch_warnings():
        warnings.simplefilter("ignore")
        try:
            x = da.zeros(shape, chunks=tuple(tuple(c) for c in case["chunks"]), dtype="int8")
            if case["wrap"] == "elem":
                x = x + 1
            elif case["wrap"] == "tr":
                x = x.T
                shape = shape[::-1]
        except EXC:
            return
        xchunks = tuple(tuple(c) for c in x.chunks)
        want = []
        for a, n, xc in zip(resolve_axes(spec, xchunks), shape, xchunks):
            want.append((n,) if isinstance(a, int) and a == -1 else _walk(n, a) if isinstance(a, int) else tuple(a))
        want = tuple(want)
        try:
            y = x.rechunk(spec)
            got = tuple(tuple(c) for c in y.chunks)
            opt = tuple(tuple(c) for c in y.optimize().chunks)
        except EXC as e:
            ctx.fail("rechunk:huge:raises", dict(case, error=repr(e)), "x.rechunk(spec) on a lazy array with a huge axis raises for an accepted spec")
            return
    ctx.count(("huge", case["wrap"], type(spec).__name__, len(shape), got == xchunks))
    if got != want:
        ctx.fail("rechunk:huge:chunks", dict(case, got=repr(got), want=repr(want)),
                 "x.rechunk(spec).chunks on a huge lazy axis differs from the brute-force walk (c, c, ..., smaller last block)")
    elif opt != got:
        ctx.fail("rechunk:huge:optimize", dict(case, advertised=repr(got), optimized=repr(opt)), "optimized .chunks differ from the advertised ones")


def search_huge(ctx):
    rng = ctx.rng

    def axis():
        while True:
            ce = rng.randint(47, 60)
            c = rng.choice([2**ce, 2**ce, 2**ce + 1, 2**ce - 1, 3 * 2**(ce - 1), rng.randint(2**ce, 2**(ce + 1))])
            k = rng.choice([1, 2, 3, 5, 8, 16, 17, 33])
            n = k * c + rng.choice([-2, -1, 0, 1, 1, 2, rng.randint(0, c - 1)])
            if 2**53 <= n < 2**62:
                return n, c

    def part(n, parts):
        cuts = sorted(rng.randint(1, n - 1) for _ in range(parts - 1))
        return [v for v in (b - a for a, b in zip([0] + cuts, cuts + [n])) if v > 0]

    for i in range(ctx.scale(400, 6000)):
        rank = rng.choice([1, 2, 2])
        hpos = rng.randrange(rank)
        shape, chunks, spec = [], [], []
        for d in range(rank):
            if d == hpos:
                n, c = axis()
                chunks.append(part(n, rng.randint(1, 6)) if rng.random() < 0.6 else list(_walk(n, c * rng.choice([1, 2, 3]))))
                spec.append(rng.choice([c, c, c, -1, None, tuple(part(n, rng.randint(1, 6))), _walk(n, c)]))
            else:
                n = rng.randint(1, 6)
                chunks.append(list(gen.rand_chunks(rng, n)))
                spec.append(rng.choice([rng.randint(1, n), -1, None, tuple(gen.rand_chunks(rng, n))]))
            shape.append(n)
        wrap = rng.choice(["zeros", "zeros", "elem", "tr"])
        if wrap == "tr":
            spec = spec[::-1]
        form = rng.random()
        if form < 0.35:
            sp = {(d - rank if rng.random() < 0.3 else d): v for d, v in enumerate(spec) if v is not None or rng.random() < 0.5}
            if not sp:
                sp = tuple(spec)
        elif form < 0.45 and rank == 1 and isinstance(spec[0], int):
            sp = spec[0]
        else:
            sp = tuple(spec)
        case = {"kind": "huge", "shape": shape, "chunks": chunks, "wrap": wrap, "spec": enc_spec(sp)}
        check_huge_case(ctx, case)
        if i % 100 == 0:
            ctx.sample({"case": case})


# ------------------------------------------------------------------------ correspondence

def f_spec_tok(v):
    if v is None:
        return "K"
    if v == -1:
        return "F"
    if isinstance(v, tuple):
        return "E" + f_list(v)
    return f"S{int(v)}"


def corr_resolve(ctx):
    import dask_array as da

    rng = ctx.rng
    pairs = []
    for _ in range(ctx.scale(1200, 20000)):
        n = rng.choice([0, 1, 2, 5, 9, 24, 100])
        old = gen.rand_chunks(rng, n, zeros=0.2)
        v = rand_axis_spec(rng, n, allow_str=False)
        if isinstance(v, int) and v == 0:
            continue
        x = da.zeros((n, 2), chunks=(old, (2,)), dtype="int8")
        form = rng.choice(["tuple", "dict", "dictneg"])
        spec = (v, None) if form == "tuple" else ({0: v} if form == "dict" else {-2: v})
        if v is None and form != "tuple":
            spec = {0: None}
        pairs.append((f"rp.resolve {f_list(old)} {f_spec_tok(v)}", call(lambda: x.rechunk(spec).chunks[0], lambda r: "ok " + f_list(r))))
    ctx.correspond("Rechunk.chunks(explicit kinds)", pairs)


def corr_balance(ctx, R):
    rng = ctx.rng
    pairs = []
    for n in range(1, ctx.scale(7, 9)):
        for c in gen.compositions(n):
            pairs.append((f"rp.balance {f_list(c)}", _bal(R, c)))
    for _ in range(ctx.scale(1500, 20000)):
        n = rng.choice([3, 10, 24, 100, 1000, 10**5])
        c = gen.rand_chunks(rng, n, zeros=0.1, maxparts=20)
        pairs.append((f"rp.balance {f_list(c)}", _bal(R, c)))
        k = rng.randint(1, n + 2)
        pairs.append((f"rp.get_chunks {n} {k}", call(lambda: R._get_chunks(n, k), lambda r: "ok " + f_list(r))))
    ctx.correspond("_balance_chunksizes+_get_chunks", pairs)


def _bal(R, c):
    with warnings.catch_warnings():
        warnings.simplefilter("ignore")
        return call(lambda: R._balance_chunksizes(tuple(c)), lambda r: "ok " + f_list(r))


def f_pieces_nd(blocks):
    """[[ [(idx,s,e) per axis] per contribution ] per new block]"""
    if not blocks:
        return "~"
    return "|".join(
        ("-" if not blk else ";".join(("_" if not con else ",".join(f"{i}@{s}:{e}" for i, s, e in con)) for con in blk))
        for blk in blocks
    )


def graph_pieces(R, old, new):
    """The crosswalk as the TASK GRAPH of _compute_rechunk encodes it."""
    from dask._task_spec import Alias, List, Task, TaskRef

    _, _, g = R._compute_rechunk("src", old, new, 0, "rechunk-merge-t")
    nd = len(old)

    def flat(a):
        if isinstance(a, List):
            for q in a.args:
                yield from flat(q)
        else:
            yield a

    def shape_of(a):
        s = []
        while isinstance(a, List):
            s.append(len(a.args))
            a = a.args[0]
        return s

    def contrib(key):
        if key[0] == "src":
            co = key[1:]
            return [(co[d], 0, old[d][co[d]]) for d in range(nd)]
        t = g[key]
        ref, slices = t.args
        co = ref.key[1:]
        assert ref.key[0] == "src" and key[1:-1] == co
        return [(co[d], slices[d].start, slices[d].stop) for d in range(nd)]

    blocks = []
    shapes = []
    for idx in itertools.product(*(range(len(c)) for c in new)):
        v = g[("rechunk-merge-t",) + idx]
        if isinstance(v, Alias):
            tgt = v.target
            tgt = tgt.key if isinstance(tgt, TaskRef) else tgt
            blocks.append([contrib(tgt)])
            shapes.append([1] * nd)
        else:
            refs = [r.key if isinstance(r, TaskRef) else r for r in flat(v.args[0])]
            blocks.append([contrib(k) for k in refs])
            shapes.append(shape_of(v.args[0]))
    return blocks, shapes, g


def corr_layer(ctx, R):
    rng = ctx.rng
    pairs = []
    pairs_ic = []
    N = ctx.scale(600, 8000)
    for _ in range(N):
        rank = rng.choice([1, 2, 2, 3])
        shape = [rng.randint(1, 9) for _ in range(rank)]
        z = rng.choice([0, 0, 0.4])
        old = tuple(tuple(gen.rand_chunks(rng, s, zeros=z)) for s in shape)
        new = tuple(tuple(gen.rand_chunks(rng, s, zeros=z)) for s in shape)
        req = f"rp.intersect_chunks {f_ll(old)} {f_ll(new)}"
        # intersect_chunks itself
        pairs_ic.append((req, call(lambda: [[[(i, s.start, s.stop) for i, s in con] for con in blk] for blk in R.intersect_chunks(old, new)],
                                   lambda r: "ok " + f_pieces_nd(r))))
        # the graph
        try:
            blocks, shapes, g = graph_pieces(R, old, new)
            impl = "ok " + f_pieces_nd(blocks)
            # nested concatenate3 argument: one list level per axis, as long as that axis's piece list
            per_axis = [R.old_to_new((o,), (n,))[0] for o, n in zip(old, new)]
            for (idx, shp) in zip(itertools.product(*(range(len(c)) for c in new)), shapes):
                want = [len(per_axis[d][idx[d]]) for d in range(rank)]
                if shp != want and shp != [1] * rank:
                    ctx.fail("layer:nesting", {"kind": "layer", "old": old, "new": new, "block": idx, "got": shp, "want": want},
                             "concatenate3 argument nesting does not follow the per-axis piece lists")
        except EXC as e:
            impl = err_name(e)
        pairs.append((req, impl))
    ctx.correspond("intersect_chunks", pairs_ic)
    ctx.correspond("_compute_rechunk(graph)", pairs)

    # 1-d chains executed on the real graphs vs the model's data reading
    pairs = []
    from dask._task_spec import convert_legacy_graph  # noqa: F401
    import dask

    for _ in range(ctx.scale(300, 4000)):
        n = rng.randint(1, 14)
        z = rng.choice([0, 0, 0.4])
        old = tuple(gen.rand_chunks(rng, n, zeros=z))
        chain = [tuple(gen.rand_chunks(rng, n, zeros=z)) for _ in range(rng.randint(1, 3))]
        pairs.append((f"rp.rechunk_chain {f_list(old)} {f_ll(chain)}", call(lambda: exec_chain(R, n, old, chain), lambda r: "ok " + f_ll(r))))
    ctx.correspond("_compute_rechunk(executed chain)", pairs)


def exec_chain(R, n, old, chain):
    import dask

    data = np.arange(n)
    starts = np.cumsum((0,) + tuple(old))
    dsk = {("s0", i): data[starts[i]: starts[i + 1]] for i in range(len(old))}
    name, cur = "s0", (tuple(old),)
    for k, c in enumerate(chain):
        mname = f"rechunk-merge-c{k}"
        nm, cur2, layer = R._compute_rechunk(name, cur, (tuple(c),), 0, mname)
        dsk.update(layer)
        name, cur = nm, cur2
    keys = [(name, i) for i in range(len(cur[0]))]
    out = dask.get(dsk, keys)
    return [list(map(int, np.asarray(b).ravel())) for b in out]


# --------------------------------------------------------------------------- programs

PROG_OPS = ("unary", "binary_new", "transpose", "getitem", "rechunk", "rechunk", "rechunk", "concatenate", "expand_dims", "binary")


def check_program(ctx, prog):
    with warnings.catch_warnings():
        warnings.simplefilter("ignore")
        try:
            ref = programs.run_np(prog)
        except Exception:
            return
        try:
            env = programs.run_da(prog)
        except EXC as e:
            ctx.fail("program:raises", {"kind": "program", "prog": prog, "error": repr(e), "where": "build"}, "building a program with rechunks raises")
            return
        names = [st["out"] for st in prog if st["op"] == "rechunk"] + [prog[-1]["out"]]
        for nm in dict.fromkeys(names):
            y = env[nm]
            st = next(s for s in prog if s["out"] == nm)
            try:
                val = y.compute()
                oc = y.optimize().chunks
            except EXC as e:
                ctx.fail("program:raises", {"kind": "program", "prog": prog, "error": repr(e), "var": nm}, "computing a program with rechunks raises")
                return
            ctx.count(("program", st["op"], len(prog), y.ndim))
            r = ref[nm]
            if val.shape != r.shape or not np.array_equal(val, r):
                ctx.fail("program:values", {"kind": "program", "prog": prog, "var": nm, "got": np.asarray(val).tolist(), "want": r.tolist()},
                         "a program with rechunks computes other values than NumPy")
                return
            # layout claims are checked on the rechunked variables only (the advertised-vs-optimized layout of other
            # ops is property C03's)
            if tuple(sum(c) for c in y.chunks) != tuple(r.shape) or (
                st["op"] == "rechunk" and (tuple(oc) != tuple(y.chunks) or tuple(map(tuple, y.chunks)) != tuple(tuple(c) for c in st["chunks"]))
            ):
                ctx.fail("program:chunks", {"kind": "program", "prog": prog, "var": nm, "chunks": [list(c) for c in y.chunks],
                                            "optimized_chunks": [list(c) for c in oc]},
                         "chunks of a rechunked variable are not the requested layout / change under optimize()")
                return


# --------------------------------------------------------------------------------- run

ZERO_WIDTH_REGRESSION = {
    "kind": "spec", "shape": [300], "chunks": [[1] * 300], "dtype": "int64", "wrap": "maskzero", "spec": -1, "kw": {},
}


def zero_width_probe(ctx):
    """m = x[x % 3 != 0]; m.compute_chunk_sizes(); m.rechunk(-1)   (fixed by bb7113a)."""
    import dask_array as da

    x = da.from_array(np.arange(300), chunks=1)
    m = x[x % 3 != 0]
    m.compute_chunk_sizes()
    try:
        y = m.rechunk(-1)
        ok = y.chunks == ((200,),) and np.array_equal(y.compute(), np.arange(300)[np.arange(300) % 3 != 0])
    except EXC as e:
        ctx.fail("rechunk:raises:zero-width", dict(ZERO_WIDTH_REGRESSION, error=repr(e)), "rechunk of an array with zero-width chunks raises")
        return
    ctx.count(("zero-width-probe",))
    if not ok:
        ctx.fail("rechunk:values", dict(ZERO_WIDTH_REGRESSION), "rechunk of an array with zero-width chunks changes values/chunks")


def search(ctx):
    rng = ctx.rng
    N = ctx.scale(900, 15000)
    bal_pairs = []
    for i in range(N):
        case = rand_case(rng, rng.choice([4, 7, 12]), zeros=rng.choice([0, 0, 0.3]))
        try:
            b, _ = build(case)
        except EXC:
            continue
        kind, spec, kw = rand_spec(rng, b.shape)
        case["speckind"] = kind
        case["spec"] = enc_spec(spec)
        case["kw"] = kw
        if kind == "auto" and rng.random() < 0.5:
            case["config"] = {"array.chunk-size": rng.choice(["16B", "64B", "256B"])}
        r = check_spec_case(ctx, case)
        if i % 150 == 0:
            ctx.sample({"case": case})
        if r and kw.get("balance"):
            got, want, _ = r
            for g, w in zip(got, want):
                bal_pairs.append((f"rp.balance {f_list(w)}", "ok " + f_list(g)))
    # balance=True where balancing changes the layout (n % k != 0), under every graph shape
    for i in range(ctx.scale(160, 2500)):
        case = rand_case(rng, rng.choice([7, 10, 13]))
        try:
            b, _ = build(case)
        except EXC:
            continue
        spec = tuple(rng.choice([k for k in range(2, n) if n % k] or [max(1, n)]) if n > 2 else -1 for n in b.shape)
        case["speckind"] = "balance"
        case["spec"] = enc_spec(spec)
        case["kw"] = {"balance": True}
        r = check_spec_case(ctx, case)
        if r:
            got, want, _ = r
            for g, w in zip(got, want):
                bal_pairs.append((f"rp.balance {f_list(w)}", "ok " + f_list(g)))
    ctx.correspond("rechunk(balance=True).chunks", bal_pairs)
    # unknown sizes
    for _ in range(ctx.scale(250, 4000)):
        rank = rng.choice([2, 2, 3])
        shape = [rng.randint(1, 8) for _ in range(rank)]
        chunks = [list(gen.rand_chunks(rng, s)) for s in shape]
        mask = [rng.random() < 0.6 for _ in range(shape[0])]
        changes = rng.random() < 0.4
        d = {}
        for ax in range(1, rank):
            if rng.random() < 0.7:
                d[ax] = rng.choice([rng.randint(1, shape[ax]), -1, tuple(gen.rand_chunks(rng, shape[ax]))])
        if changes:
            nblk = len(chunks[0])
            # an explicit layout of the unknown axis with another number of blocks is a change too
            d[0] = rng.choice([rng.randint(1, shape[0]), -1, "auto", (float("nan"),) * (nblk + rng.choice([-1, 1, 2]) or nblk + 1)])
        if not d:
            d[rank - 1] = -1
        form = rng.random()
        if form < 0.5:
            spec = {(k - rank if rng.random() < 0.3 else k): v for k, v in d.items()}
        else:
            spec = tuple(d.get(ax) for ax in range(rank))
        check_unknown_case(ctx, {"kind": "unknown", "shape": shape, "chunks": chunks, "mask": mask, "spec": enc_spec(spec), "changes_unknown": changes})
    # programs
    for i in range(ctx.scale(220, 4000)):
        prog, _ = programs.gen_program(rng, depth=rng.randint(3, 6), ops=PROG_OPS, maxdim=6, zero_axes=0.0)
        if not any(st["op"] == "rechunk" for st in prog):
            continue
        check_program(ctx, prog)
        if i % 60 == 0:
            ctx.sample({"program": prog})


def targeted(ctx, R):
    """Lift disagreeing helper inputs to x.rechunk(...) on real arrays."""
    import dask_array as da

    tried = 0
    for d in ctx.disagreements[:40]:
        t = d["request"].split()
        try:
            if t[0] in ("rp.intersect_chunks",):
                from harness.props.C15 import p_ll

                old, new = p_ll(t[1]), p_ll(t[2])
                shape = tuple(sum(c) for c in old)
                for wrap in ("blk", "elem"):
                    tried += 1
                    check_spec_case(ctx, {"kind": "spec", "shape": list(shape), "chunks": [list(c) for c in old], "dtype": "int64", "wrap": wrap,
                                          "spec": enc_spec(tuple(tuple(c) for c in new)), "kw": {}, "speckind": "targeted"})
            elif t[0] == "rp.rechunk_chain":
                from harness.props.C15 import p_list, p_ll

                old, chain = p_list(t[1]), p_ll(t[2])
                n = sum(old)
                x = da.from_array(np.arange(n), chunks=(tuple(old),)).map_blocks(lambda b: b)
                y = x
                for c in chain:
                    y = y.map_blocks(lambda b: b).rechunk((tuple(c),))
                tried += 1
                if not np.array_equal(y.compute(), np.arange(n)) or y.chunks != (tuple(chain[-1]),):
                    ctx.fail("rechunk:values", {"kind": "chain", "old": old, "chain": chain}, "a chain of 1-d rechunks changes values/chunks")
            elif t[0] in ("rp.resolve", "rp.balance", "rp.get_chunks"):
                tried += 1  # chunk-level helpers: the spec search above is the API-level check
        except Exception as e:  # pragma: no cover
            ctx.notes["targeted_error"] = repr(e)
    ctx.notes["targeted_search"] = f"{tried} API-level replays (x.rechunk on real arrays) of disagreeing helper inputs"


def run(ctx, replay=None):
    from dask_array import _rechunk as R

    ctx.rule = (
        "seeded random arrays (rank ≤ 3) × graph shape (rechunk absorbed by the source: NumPy arrays, chunked stores, stores of "
        "encoded samples read through a decoding getitem= with lock / asarray / fancy / inline_array / TasksRechunk / through elemwise, "
        "transpose, concatenate, expand_dims / composed with a slice / rechunk of rechunk) × spec kind (10 kinds) incl. "
        "zero-width chunks; unknown-size arrays × (un)changed axis; random programs with rechunk steps; distinct = "
        "(graph shape, spec kind, rank, zero-width, balance) / (unknown: outcome × changed) / (program: op, length, rank); "
        "correspondence: (family, model output prefix, size class); call histories: the same rechunk under 2-5 configurations "
        "(array.chunk-size / -tolerance / rechunk.threshold) in one process, distinct = (graph shape, spec kind, rank, #distinct "
        "layouts, what varies, same/fresh array, examined under the call's / the next configuration); huge lazy axes "
        "(2^53..2^62) x explicit spec kinds, chunks only"
    )
    ctx.assumptions += [
        "the expectation for 'auto' / byte-string / block_size_limit specs calls dask_array._core_utils.normalize_chunks "
        "(property C16) after resolving None / dict entries the documented way; explicit kinds are also compared with the model",
        "n-d task layers are the cartesian product of per-axis crosswalks: compared with the model on every run, proved per axis",
        "P2P rechunk (distributed) is not available offline and is outside this check",
    ]
    if replay is not None:
        case = replay.get("case", {})
        k = case.get("kind")
        if k == "spec" and case.get("wrap") == "maskzero":
            zero_width_probe(ctx)
        elif k == "spec":
            check_spec_case(ctx, case)
        elif k == "unknown":
            check_unknown_case(ctx, case)
        elif k == "nested":
            check_nested_case(ctx, case)
        elif k == "dictnone":
            check_dictnone_case(ctx, case)
        elif k == "history":
            check_history_case(ctx, case)
        elif k == "cfgseq":
            collect = []
            check_cfgseq_case(ctx, {kk: v for kk, v in case.items() if kk not in ("step", "examined", "got", "want", "error", "fresh_check")}, collect)
            if case.get("fresh_check"):
                compare_with_fresh(ctx, collect)
        elif k == "huge":
            check_huge_case(ctx, case)
        elif k == "program":
            check_program(ctx, case["prog"])
        elif k == "layer":
            corr_layer(ctx, R)
        else:
            corr_resolve(ctx)
            corr_balance(ctx, R)
            corr_layer(ctx, R)
            if ctx.disagreements:
                targeted(ctx, R)
        return
    zero_width_probe(ctx)
    corr_resolve(ctx)
    corr_balance(ctx, R)
    corr_layer(ctx, R)
    search(ctx)
    search_extra(ctx)
    search_cfgseq(ctx)
    search_huge(ctx)
    if ctx.disagreements:
        targeted(ctx, R)
