"""C05 — every compute / persist / optimize entry point agrees.

Lean side (Props/C05.lean over Model/Entry.lean): the entry points as compositions of
`materialize`, `eval`, `rebuild` (= from_graph with the three-way `_find_layer_key` lookup and
its failure branch); theorems C05_entry_points_agree / C05_persist_preserves_meta /
C05_followon / C05_lookup_error_iff.  The tie to the code is behavioural: the model's lookup
(`en.find`, `en.rebuild`) runs on the same layers as the real `FromGraph._find_layer_key`
/ `FromGraph._layer` (correspondence), and the premise of the agreement theorem ("the graph
defines rawName x grid(chunks)") is monitored on every real materialized graph.

Search (independent oracle = NumPy): all entry points on generated and hand-shaped programs,
metadata of persisted / dask-optimized collections, follow-on operations.
"""
from __future__ import annotations

import itertools
import math
import warnings

import numpy as np

from harness import programs

ENTRIES = (
    "x.compute", "dask.compute(x)", "dask.compute(x,y)", "dask.compute(x,delayed)",
    "x.persist", "dask.persist(x)", "dask.persist(x,y)",
    "dask.optimize(x)", "dask.optimize(x,y)", "x.optimize", "to_delayed",
)
# entry points whose result is a rebuilt collection that must keep name / chunks / dtype
KEEPS_META = ("x.persist", "dask.persist(x)", "dask.persist(x,y)", "dask.optimize(x)", "dask.optimize(x,y)")
DASK_OPTIMIZE = ("dask.optimize(x)", "dask.optimize(x,y)")
DASK_LEVEL_REBUILD = ("dask.persist(x)", "dask.persist(x,y)", "dask.optimize(x)", "dask.optimize(x,y)")

SIG_OPT_REDUCTION = "optimize:full-reduction-axiserror"
SIG_FROM_GRAPH = "from_graph:missing-output-block"
SIG_DANGLING = "mixed-compute:dangling-leaf-key"
SIG_OPT_RAW = "optimize:raw-unlowered-graph"
SIG_RESHAPE = "reshape-int-slice-pushdown"
SIG_SIZE_DRIFT = "dask.persist:block-size-drift"
SIG_MIXED_FINALIZE = "dask.compute(x,non-array):finalize-missing-dependency"
OWN_KNOWN = (SIG_OPT_REDUCTION, SIG_FROM_GRAPH, SIG_DANGLING, SIG_OPT_RAW, SIG_RESHAPE, SIG_SIZE_DRIFT, SIG_MIXED_FINALIZE)


def classify_reshape(prog, msg):
    """`x.reshape(n, 1)[i]`-style programs: pushing an integer index through Reshape raises
    IndexError('tuple index out of range') in `reshape_rechunk` under optimization (fine with optimize-graph=False)."""
    if prog and "IndexError: tuple index out of range" in msg:
        anc = programs.prog_ancestry(prog)
        for st in prog:
            if st["op"] == "getitem" and any(isinstance(i, int) for i in st["index"]) and "reshape" in anc.get(st["args"][0], ()):
                return SIG_RESHAPE
    return None


# ------------------------------------------------------------------------ hand-shaped cases

def _hand_registry():
    import dask
    import dask_array as da

    def src(n=12, chunks=5, shape=None):
        a = np.arange(n, dtype=np.int64) * 3 % 11
        if shape:
            a = a.reshape(shape)
        return a, da.from_array(a, chunks=chunks)

    H = {}

    def reg(name):
        def deco(f):
            H[name] = f
            return f
        return deco

    @reg("full_sum_0d")
    def _(p):
        a, d = src(12, p.get("chunks", 5))
        return d.sum(), a.sum()

    @reg("full_max_2d_0d")
    def _(p):
        a, d = src(12, (2, 3), (3, 4))
        return d.max(), a.max()

    @reg("sum_keepdims")
    def _(p):
        a, d = src(12, (2, 3), (3, 4))
        return d.sum(axis=(0, 1), keepdims=True), a.sum(axis=(0, 1), keepdims=True)

    @reg("int_index_0d")
    def _(p):
        a, d = src(12, 5)
        return (d * 2)[7], (a * 2)[7]

    @reg("src_0d")
    def _(p):
        a = np.array(7, dtype=np.int64)
        return da.from_array(a, chunks=()) + 1, a + 1

    @reg("elemwise_0d_mix")
    def _(p):
        a, d = src(12, 5)
        return (d + 1)[3] * (d - 2)[5], (a + 1)[3] * (a - 2)[5]

    @reg("axis_sum_split2")
    def _(p):
        a, d = src(24, (2, 2), (4, 6))
        return (d + 1).sum(axis=1, split_every=2), (a + 1).sum(axis=1)

    @reg("mean_float")
    def _(p):
        a, d = src(12, (2, 3), (3, 4))
        return d.mean(axis=0), a.mean(axis=0)

    @reg("boolmask_unknown")
    def _(p):
        a, d = src(13, 4)
        return d[d % 3 != 0] * 2, a[a % 3 != 0] * 2

    @reg("boolmask_sized")
    def _(p):
        a, d = src(13, 4)
        m = d[d % 2 == 0]
        m.compute_chunk_sizes()
        return m[::-1] + 1, a[a % 2 == 0][::-1] + 1

    @reg("random_generator")
    def _(p):
        rs = da.random.default_rng(p.get("seed", 7))
        return rs.integers(0, 100, size=(6, 5), chunks=(4, 2)) + 1, None

    @reg("random_state_slice")
    def _(p):
        rs = da.random.RandomState(p.get("seed", 3))
        return rs.randint(0, 50, size=(9,), chunks=4)[2:8] * 2, None

    @reg("from_delayed")
    def _(p):
        a = np.arange(6, dtype=np.int64).reshape(2, 3)
        v = dask.delayed(lambda: np.arange(6, dtype=np.int64).reshape(2, 3), pure=True)()
        return da.from_delayed(v, shape=(2, 3), dtype=np.int64) * 2 + 1, a * 2 + 1

    @reg("from_delayed_concat")
    def _(p):
        mk = dask.delayed(lambda k: np.arange(4, dtype=np.int64) + 10 * k, pure=True)
        parts = [da.from_delayed(mk(k), shape=(4,), dtype=np.int64) for k in range(3)]
        want = np.concatenate([np.arange(4, dtype=np.int64) + 10 * k for k in range(3)])
        return da.concatenate(parts)[1:11], want[1:11]

    @reg("from_map")
    def _(p):
        if not hasattr(da, "from_map"):
            raise NotImplementedError("no from_map")
        fn = lambda k: np.arange(3, dtype=np.int64) + 3 * k  # noqa: E731
        x = da.from_map(fn, [0, 1, 2], chunks=((3, 3, 3),), dtype=np.int64)
        return x + 1, np.arange(9, dtype=np.int64) + 1

    @reg("ones_arange")
    def _(p):
        return da.ones((4, 6), chunks=(3, 4), dtype=np.int64) * da.arange(6, chunks=4), np.ones((4, 6), np.int64) * np.arange(6)

    @reg("swv_sum")
    def _(p):
        a = np.arange(10, dtype=np.int64)
        d = da.from_array(a, chunks=3)
        return da.sliding_window_view(d, 5).sum(-1), np.lib.stride_tricks.sliding_window_view(a, 5).sum(-1)

    @reg("rechunk_T")
    def _(p):
        a, d = src(24, (2, 3), (4, 6))
        return d.rechunk((3, 2)).T + d.T, a.T + a.T

    @reg("cumsum_tail")
    def _(p):
        a, d = src(12, 5)
        return da.cumsum(d, axis=0)[3:], np.cumsum(a)[3:]

    @reg("stack_shared")
    def _(p):
        a, d = src(12, 5)
        e = d * 2
        return da.stack([e, e + 1, d])[:, ::2], np.stack([a * 2, a * 2 + 1, a])[:, ::2]

    @reg("take_single")
    def _(p):
        a = np.arange(3, dtype=np.int64)
        return da.from_array(a, chunks=3)[[1]], a[[1]]

    @reg("mul_mismatched_chunks")
    def _(p):
        a, b = np.array([2, 0], dtype=np.int64), np.array([1, 2], dtype=np.int64)
        return da.from_array(a, chunks=1) * da.from_array(b, chunks=2), a * b

    @reg("reshape_int_index")
    def _(p):
        a = np.arange(4, dtype=np.int64)
        return da.from_array(a, chunks=2).reshape(4, 1)[1], a.reshape(4, 1)[1]

    @reg("swv_mean_irregular")
    def _(p):
        a = np.arange(17, dtype=np.int64)
        d = da.from_array(a, chunks=((9, 3, 5),))
        return da.sliding_window_view(d, 4).mean(-1), np.lib.stride_tricks.sliding_window_view(a, 4).mean(-1)

    @reg("mixed_finalize_reoptimized")
    def _(p):
        # the concatenation's chunks (1,2) differ from the source's (3,): unify rechunks the source during lowering, and a
        # SECOND simplify pass pushes the two slices into the source (optimize() is not idempotent on this expression)
        a = np.arange(3, dtype=np.int64)
        d = da.from_array(a, chunks=3)
        return da.concatenate([d[:1], d[1:]]) - d, np.concatenate([a[:1], a[1:]]) - a

    @reg("persist_of_persist")
    def _(p):
        a, d = src(12, 5)
        q = (d + 1).persist(scheduler="sync")
        return q * 2, (a + 1) * 2

    @reg("optimized_input")
    def _(p):
        a, d = src(12, 5)
        q = (d + 1)[2:9].optimize()
        return q - 3, (a + 1)[2:9] - 3

    return H


HAND_NAMES = (
    "full_sum_0d", "full_max_2d_0d", "sum_keepdims", "int_index_0d", "src_0d", "elemwise_0d_mix", "axis_sum_split2",
    "mean_float", "boolmask_unknown", "boolmask_sized", "random_generator", "random_state_slice", "from_delayed",
    "from_delayed_concat", "from_map", "ones_arange", "swv_sum", "rechunk_T", "cumsum_tail", "stack_shared",
    "persist_of_persist", "optimized_input", "take_single", "mul_mismatched_chunks", "swv_mean_irregular",
)


# ------------------------------------------------------------------------------ utilities

def chunks_equal(a, b):
    if len(a) != len(b):
        return False
    for da_, db in zip(a, b):
        if len(da_) != len(db):
            return False
        for sa, sb in zip(da_, db):
            if sa != sb and not (isinstance(sa, float) and isinstance(sb, float) and math.isnan(sa) and math.isnan(sb)):
                return False
    return True


def same(got, want):
    try:
        got = np.asarray(got)
        want = np.asarray(want)
    except Exception:  # ragged garbage (e.g. a tuple of unrelated task values)
        return False
    if got.dtype == object or want.dtype == object:
        return False
    if got.shape != want.shape:
        return False
    if want.dtype.kind == "f" or got.dtype.kind == "f":
        return bool(np.allclose(got, want, rtol=1e-12, atol=0, equal_nan=True))
    return bool(np.array_equal(got, want))


def show(v):
    try:
        a = np.asarray(v)
        if a.dtype != object:
            return repr(a.tolist())[:200]
    except Exception:
        pass
    return repr(v)[:200]


def assemble_blocks(nested, ndim):
    """np.block-style assembly of the computed `x.to_delayed().tolist()` (nesting depth = ndim)."""
    def rec(node, axis):
        if axis == ndim:
            return np.asarray(node)
        parts = [rec(n, axis + 1) for n in node]
        return np.concatenate(parts, axis=axis)
    return rec(nested, 0)


def expr_classes(x):
    return {type(n).__name__ for n in x.expr.walk()}


def has_reduction_node(x):
    from dask_array.reductions._reduction import Reduction

    return any(isinstance(n, Reduction) for n in x.expr.walk())


def has_sliding_reduction(x):
    """A reduction directly over a sliding-window view (what simplify rewrites to the native
    SlidingWindowReduction / MovingWindowReduction layout)."""
    from dask_array.reductions._reduction import Reduction

    for n in x.expr.walk():
        nm = type(n).__name__
        if nm in ("SlidingWindowReduction", "MovingWindowReduction"):
            return True
        if isinstance(n, Reduction) and any(type(d).__name__ == "SlidingWindowView" for d in n.dependencies()):
            return True
    return False


def dangling_leaves(x):
    """Keys of x's materialized graph that nothing depends on and that are not output keys."""
    from dask.core import flatten

    from harness import graphs

    tasks = graphs.to_tasks(x.__dask_graph__())
    used = set()
    for t in tasks.values():
        used |= set(t.dependencies)
    out = set(flatten(x.__dask_keys__()))
    return [k for k in tasks if k not in used and k not in out]


def unlowered_own_layer_nodes(x):
    """Raw expression nodes that define their own `_layer` AND are rewritten by lowering
    (`_lower()` is not None).  dask.optimize builds its graph by calling `_layer()` on every RAW
    node (the `_ExprSequence` wrapper bypasses `ArrayExpr.__dask_graph__`), so exactly these nodes
    contribute a layer that was never meant to be used un-lowered (operands not unified,
    Reduction returning only the top layer of its lowering, ...)."""
    from dask_array._expr import ArrayExpr

    out = []
    for n in x.expr.walk():
        if type(n)._layer is ArrayExpr._layer:
            continue  # no own layer: `ArrayExpr._layer` materializes the node, pinned to its own name
        try:
            lw = n._lower()
        except Exception:
            lw = "raises"
        if lw is not None:
            out.append(type(n).__name__)
    return out


def rematerialize_renames_finalize(x):
    """dask.compute(x, <non-expression collection>) optimizes `FinalizeComputeArray(x.expr)` and THEN asks the result for
    `__dask_graph__()`, which materializes (simplify -> lower -> fuse) once more.  When that second pass still rewrites
    something (optimize() is not idempotent on x: e.g. slices of a source left above a unify-rechunk that only lowering
    introduced), the root is renamed and `_materialize` pins it with a RootAlias keyed by BLOCK ids
    (('finalizecomputearray-A', 0, ...) -> ('finalizecomputearray-B', 0, ...)), while a FinalizeComputeArray's only key is its
    bare name: the alias targets do not exist ('Missing dependency')."""
    try:
        from dask_array._materialize import _materialize

        opt = x.expr.finalize_compute().optimize()
        return type(_materialize(opt)).__name__ == "RootAlias"
    except Exception:
        return False


def _colls(x, y, entry):
    return [c for c in ([x, y] if entry.endswith("(x,y)") else [x]) if c is not None]


def optimized_grid_differs(x):
    """dask's own optimization of the RAW expression (simplify + lower, what dask.persist schedules) ends on a block
    grid different from the advertised one (a rewrite changed the output block structure)."""
    try:
        low = x.expr.optimize(fuse=False)
        return tuple(low.numblocks) != tuple(x.numblocks)
    except Exception:
        return False


def optimized_sizes_differ(x):
    """dask's own optimization of the RAW expression keeps the NUMBER of blocks per axis but moves the chunk
    boundaries (e.g. the native sliding-window layout (9,3,2) under advertised chunks (8,4,2)): `dask.persist` then
    locates the blocks by block id and wraps them under the advertised chunk SIZES, which they do not have."""
    try:
        low = x.expr.optimize(fuse=False)
        return tuple(low.numblocks) == tuple(x.numblocks) and not chunks_equal(tuple(low.chunks), tuple(x.chunks))
    except Exception:
        return False


def classify_value(case, x, y, entry):
    """Signature of a documented finding for a WRONG VALUE / wrong metadata produced by `entry`."""
    try:
        if entry in ("dask.persist(x)", "dask.persist(x,y)") and any(optimized_sizes_differ(c) for c in _colls(x, y, entry)):
            return SIG_SIZE_DRIFT
        if entry == "dask.compute(x,delayed)" and x is not None and dangling_leaves(x):
            # dask's mixed HLG/expression path takes the LEAVES of the materialized graph as the
            # collection's output keys; an unreferenced key (Shuffle's unused shuffle-sorter-<token>)
            # is then returned as a result and the tuple of results is misaligned
            return SIG_DANGLING
        if entry in DASK_OPTIMIZE and any(unlowered_own_layer_nodes(c) for c in _colls(x, y, entry)):
            return SIG_OPT_RAW
    except Exception:
        pass
    return None


def classify(case, x, y, entry, exc):
    """Signature of a documented finding for an exception raised by `entry`, else None."""
    msg = f"{type(exc).__name__}: {exc}"
    cs = _colls(x, y, entry)
    try:
        if entry in DASK_LEVEL_REBUILD and "from_graph cannot find output block" in msg and any(
                has_sliding_reduction(c) or optimized_grid_differs(c) for c in cs):
            return SIG_FROM_GRAPH
        if entry in DASK_OPTIMIZE and any(has_reduction_node(c) for c in cs):
            # a raw Reduction's `_layer()` returns only the top layer of its lowering, keyed by the lowered name
            return SIG_OPT_REDUCTION
        if entry in DASK_OPTIMIZE and any(unlowered_own_layer_nodes(c) for c in cs):
            return SIG_OPT_RAW
        if (entry == "dask.compute(x,delayed)" and isinstance(exc, ValueError) and "Missing dependency ('finalizecomputearray-" in msg
                and rematerialize_renames_finalize(x)):
            return SIG_MIXED_FINALIZE
        if entry == "dask.compute(x,delayed)" and dangling_leaves(x):
            return SIG_DANGLING
        if entry in ("dask.persist(x)", "dask.persist(x,y)") and any(optimized_sizes_differ(c) for c in cs):
            return SIG_SIZE_DRIFT
    except Exception:
        pass
    if case.get("prog"):
        k = programs.classify_known(case["prog"], msg) or classify_reshape(case["prog"], msg)
        if k:
            return k
    if case.get("name") == "reshape_int_index" and "IndexError: tuple index out of range" in msg:
        return SIG_RESHAPE
    return None


# ------------------------------------------------------------------------------- building

class Refused(Exception):
    pass


def build(case):
    """-> (x, want | None, y, y_want | None).  y shares a subtree with x."""
    import dask_array as da

    if case["kind"] == "hand":
        H = _hand_registry()
        try:
            x, want = H[case["name"]](case.get("params", {}))
        except NotImplementedError as e:
            raise Refused(str(e))
        ynp = None if want is None else np.asarray(want) + 1
        return x, want, x + 1, ynp
    prog = case["prog"]
    try:
        env = programs.run_da(prog)
    except NotImplementedError as e:
        raise Refused(str(e))
    npenv = programs.run_np(prog)
    root = prog[-1]["out"]
    x, want = env[root], npenv[root]
    ys = case.get("y") or {"var": root, "op": "affine"}
    yv, ynp = env[ys["var"]], npenv[ys["var"]]
    if ys["op"] == "affine":
        y, ynp = yv * 2 + 1, ynp * 2 + 1
    elif ys["op"] == "sum":
        y, ynp = yv.sum(), ynp.sum()
    else:
        y, ynp = yv, ynp
    return x, want, y, ynp


def gen_follow(rng, want):
    """A random next step applied to a rebuilt collection `$` (and to x itself)."""
    shp = np.asarray(want).shape
    nd = len(shp)
    kinds = ["self_add", "affine"]
    if nd >= 1:
        kinds += ["getitem", "getitem", "reduce", "reduce", "rechunk"]
    if nd >= 2:
        kinds.append("transpose")
    k = rng.choice(kinds)
    if k == "self_add":
        return {"op": "add", "args": ["$", "$x"]}
    if k == "affine":
        return {"op": "affine", "args": ["$"]}
    if k == "getitem":
        idx = programs.rand_basic_index(rng, shp)
        return {"op": "getitem", "args": ["$"], "index": programs._enc_index(idx)}
    if k == "reduce":
        ax = rng.randrange(nd)
        fn = "sum" if 0 in shp else rng.choice(["sum", "max", "min"])
        return {"op": "reduce", "fn": fn, "args": ["$"], "axis": ax if rng.random() < 0.7 else None,
                "keepdims": rng.random() < 0.3, "split_every": rng.choice([None, 2])}
    if k == "rechunk":
        return {"op": "rechunk", "args": ["$"], "chunks": [list(c) for c in programs.rand_chunks_nd(rng, shp)]}
    axes = list(range(nd))
    rng.shuffle(axes)
    return {"op": "transpose", "args": ["$"], "axes": axes}


def apply_follow(step, coll, x, da_mode):
    import dask_array as da

    env = {"$": coll, "$x": x}
    return programs.apply_step(step, env, da if da_mode else np, da_mode)


# ------------------------------------------------------------------------- entry points

def run_entry(entry, x, y, sched):
    """-> (value, derived collection | None, extra values to compare: list[(label, got, which)])."""
    import dask

    kw = {"scheduler": sched}
    if entry == "x.compute":
        return x.compute(**kw), None, []
    if entry == "dask.compute(x)":
        return dask.compute(x, **kw)[0], None, []
    if entry == "dask.compute(x,y)":
        a, b = dask.compute(x, y, **kw)
        return a, None, [("y", b)]
    if entry == "dask.compute(x,delayed)":
        dl = dask.delayed(lambda v: v * 2)(21)
        a, b = dask.compute(x, dl, **kw)
        return a, None, [("delayed", b)]
    if entry == "x.persist":
        p = x.persist(**kw)
        return p.compute(**kw), p, []
    if entry == "dask.persist(x)":
        (p,) = dask.persist(x, **kw)
        return p.compute(**kw), p, []
    if entry == "dask.persist(x,y)":
        p, q = dask.persist(x, y, **kw)
        return p.compute(**kw), p, [("y", q.compute(**kw))]
    if entry == "dask.optimize(x)":
        (o,) = dask.optimize(x)
        return o.compute(**kw), o, []
    if entry == "dask.optimize(x,y)":
        o, q = dask.optimize(x, y)
        return o.compute(**kw), o, [("y", q.compute(**kw))]
    if entry == "x.optimize":
        o = x.optimize()
        return o.compute(**kw), o, []
    if entry == "to_delayed":
        dl = x.to_delayed()
        nested = dl.tolist()
        flat = list(dl.ravel()) if dl.ndim else [nested]
        vals = dask.compute(*flat, **kw)
        it = iter(vals)

        def fill(node):
            if isinstance(node, list):
                return [fill(n) for n in node]
            return next(it)

        return assemble_blocks(fill(nested), x.ndim), None, []
    raise KeyError(entry)


def check_case(ctx, case, count=True, entries=None):
    """Run every entry point of one case.  Returns list of failures dict(sig, entry, detail)."""
    fails = []
    with warnings.catch_warnings():
        warnings.simplefilter("ignore")
        try:
            x, want, y, ywant = build(case)
        except Refused:
            if count:
                ctx.notes["refused_at_construction"] = ctx.notes.get("refused_at_construction", 0) + 1
            return None
        except Exception as e:
            # refused at construction (no collection, no entry point to compare): a C01 matter, noted with a sample
            if count:
                ctx.notes["construction_raises"] = ctx.notes.get("construction_raises", 0) + 1
                lst = ctx.extra.setdefault("construction_raises_samples", [])
                if len(lst) < 3:
                    lst.append({"case": {k: case[k] for k in ("kind", "prog", "name") if k in case}, "error": f"{type(e).__name__}: {str(e)[:200]}"})
            return None
        sched = case.get("sched", "sync")
        name0, chunks0, dtype0 = x.name, x.chunks, x.dtype
        kinds = None
        if count:
            kinds = tuple(sorted(expr_classes(x)))[:6]
        # reference: NumPy when the program has a NumPy meaning, otherwise (random arrays) the
        # first entry point — the property then says all entry points agree with each other
        ref = want
        follow = case.get("follow")
        for entry in entries or case.get("entries") or ENTRIES:
            try:
                got, derived, extra = run_entry(entry, x, y, sched)
            except NotImplementedError as e:
                if entry == "x.compute":
                    if count:
                        ctx.notes["refused_at_compute"] = ctx.notes.get("refused_at_compute", 0) + 1
                    return None
                fails.append({"sig": f"{entry}:raises:NotImplementedError", "entry": entry, "detail": str(e)[:300]})
                continue
            except Exception as e:
                sig = classify(case, x, y, entry, e) or f"{entry}:raises:{type(e).__name__}"
                fails.append({"sig": sig, "entry": entry, "detail": f"{entry} raised {type(e).__name__}: {str(e)[:300]}"})
                if count:
                    ctx.count((entry, "raises", sig))
                if entry == "x.compute":
                    if sig.startswith("x.compute:raises"):
                        # x.compute() itself raises with an undocumented exception: a C01 / C08 matter unless the
                        # entry points DISAGREE about it (another one hands back the NumPy value)
                        fails.pop()
                        ok_elsewhere = []
                        for other in ENTRIES[1:]:
                            try:
                                g2, _, _ = run_entry(other, x, y, sched)
                                if want is not None and same(g2, want):
                                    ok_elsewhere.append(other)
                            except Exception:
                                pass
                        if ok_elsewhere:
                            fails.append({"sig": f"entry-points-disagree:x.compute-raises:{type(e).__name__}", "entry": ok_elsewhere[0],
                                          "detail": f"x.compute() raised {type(e).__name__}: {str(e)[:200]} but {ok_elsewhere} return the NumPy value"})
                        elif count:
                            ctx.notes["all_entry_points_raise"] = ctx.notes.get("all_entry_points_raise", 0) + 1
                            lst = ctx.extra.setdefault("all_entry_points_raise_samples", [])
                            if len(lst) < 3:
                                lst.append({"case": {k: case[k] for k in ("kind", "prog", "name") if k in case}, "error": f"{type(e).__name__}: {str(e)[:200]}"})
                    return fails  # nothing to compare against
                continue
            if ref is None:
                ref = got
            if count:
                ctx.count((entry, "ok", getattr(got, "ndim", -1), sched, kinds))
            if not same(got, ref):
                fails.append({"sig": classify_value(case, x, y, entry) or f"{entry}:value-mismatch", "entry": entry,
                              "detail": f"{entry} -> {show(got)} expected {show(ref)}"})
            for label, v in extra:
                w = 42 if label == "delayed" else ywant
                if w is None:
                    continue
                if not same(v, w):
                    fails.append({"sig": classify_value(case, x, y, entry) or f"{entry}:companion-value-mismatch", "entry": entry,
                                  "detail": f"{entry}: companion {label} -> {show(v)} expected {show(w)}"})
            if x.name != name0:
                fails.append({"sig": f"{entry}:x-name-changed", "entry": entry, "detail": f"x.name {name0} -> {x.name} after {entry}"})
            if derived is not None and entry in KEEPS_META:
                if derived.name != name0:
                    fails.append({"sig": classify_value(case, x, y, entry) or f"{entry}:meta:name", "entry": entry, "detail": f"{entry}: name {derived.name} != {name0}"})
                if not chunks_equal(derived.chunks, chunks0):
                    fails.append({"sig": classify_value(case, x, y, entry) or f"{entry}:meta:chunks", "entry": entry, "detail": f"{entry}: chunks {derived.chunks} != {chunks0}"})
                if derived.dtype != dtype0:
                    fails.append({"sig": classify_value(case, x, y, entry) or f"{entry}:meta:dtype", "entry": entry, "detail": f"{entry}: dtype {derived.dtype} != {dtype0}"})
                from dask.core import flatten

                if list(flatten(derived.__dask_keys__())) != list(flatten(x.__dask_keys__())):
                    fails.append({"sig": classify_value(case, x, y, entry) or f"{entry}:meta:keys", "entry": entry, "detail": f"{entry}: __dask_keys__ differ from x's"})
            if derived is not None and follow is not None and ref is not None:
                try:
                    fwant = apply_follow(follow, np.asarray(ref), np.asarray(ref), False)
                except Exception:
                    fwant = None
                if fwant is not None:
                    try:
                        fx = apply_follow(follow, x, x, True).compute(scheduler=sched)
                        ok_x = same(fx, fwant)
                    except NotImplementedError:
                        ok_x = None
                    except Exception:
                        ok_x = False
                    try:
                        fd = apply_follow(follow, derived, x, True).compute(scheduler=sched)
                        if count:
                            ctx.count((entry, "follow", follow["op"]))
                        if not same(fd, fwant):
                            fails.append({"sig": classify_value(case, x, y, entry) or f"{entry}:followon:value-mismatch", "entry": entry,
                                          "detail": f"{follow} on the result of {entry} -> {show(fd)}; on x/NumPy -> {show(fwant)}"})
                    except NotImplementedError as e:
                        if ok_x is not None:
                            fails.append({"sig": f"{entry}:followon:raises:NotImplementedError", "entry": entry, "detail": str(e)[:200]})
                    except Exception as e:
                        if ok_x:
                            sig = classify(case, x, y, entry, e) or f"{entry}:followon:raises:{type(e).__name__}"
                            fails.append({"sig": sig, "entry": entry,
                                          "detail": f"{follow} on the result of {entry} raised {type(e).__name__}: {str(e)[:200]} (fine on x)"})
                        # if the same op on x itself fails, that is not a C05 matter (C01)
        if case.get("blocks") and not any(f["entry"] == "x.compute" for f in fails):
            fails += block_checks(ctx, case, x, ref, sched, count)
    return fails


# --------------------------------------------------------------------- per-block checks

def _blocks_of(coll, sched):
    """{block index: computed block} of `coll.to_delayed()` and its grid shape"""
    import dask

    dl = coll.to_delayed()
    if dl.ndim:
        idxs = list(np.ndindex(*dl.shape))
        flat = [dl[i] for i in idxs]
    else:
        idxs, flat = [()], [dl.tolist()]
    vals = dask.compute(*flat, scheduler=sched)
    return dict(zip(idxs, vals)), tuple(dl.shape), dict(zip(idxs, flat))


def block_checks(ctx, case, x, want, sched, count=True):
    """Blocks handed out by to_delayed / a persisted collection / x.optimize() have the sizes of the chunks the
    collection ADVERTISES (x.chunks for to_delayed and persist — persist must keep them —, its own chunks for
    x.optimize()); re-assembling `x.to_delayed()` with `da.from_delayed` per `x.chunks` gives x's values."""
    import dask_array as da

    fails = []
    if any(isinstance(c, float) and math.isnan(c) for dim in x.chunks for c in dim):
        return fails

    def shapes(label, coll, chunks):
        try:
            blocks, grid, dls = _blocks_of(coll, sched)
        except NotImplementedError:
            return None
        except Exception as e:
            fails.append({"sig": classify(case, x, None, label, e) or f"{label}:blocks:raises:{type(e).__name__}", "entry": label,
                          "detail": f"computing the blocks of {label} raised {type(e).__name__}: {str(e)[:200]}"})
            return None
        if count:
            ctx.count((label, "blocks", len(blocks) > 1))
        if grid != tuple(len(c) for c in chunks):
            fails.append({"sig": f"{label}:block-grid", "entry": label, "detail": f"{label}: block grid {grid} but chunks {chunks}"})
            return None
        for idx, v in blocks.items():
            exp = tuple(int(chunks[d][i]) for d, i in enumerate(idx))
            if np.asarray(v).shape != exp:
                fails.append({"sig": f"{label}:block-shape", "entry": label,
                              "detail": f"{label}: block {idx} has shape {np.asarray(v).shape}, the advertised chunks {chunks} say {exp}"})
                break
        return dls

    dls = shapes("to_delayed", x, x.chunks)
    try:
        p = x.persist(scheduler=sched)
        if not chunks_equal(p.chunks, x.chunks):
            fails.append({"sig": "x.persist:meta:chunks", "entry": "x.persist", "detail": f"x.persist(): chunks {p.chunks} != {x.chunks}"})
        else:
            shapes("x.persist", p, x.chunks)
    except NotImplementedError:
        pass
    except Exception as e:
        fails.append({"sig": classify(case, x, None, "x.persist", e) or f"x.persist:raises:{type(e).__name__}", "entry": "x.persist", "detail": repr(e)[:200]})
    try:
        import dask

        (p2,) = dask.persist(x, scheduler=sched)
        n0 = len(fails)
        shapes("dask.persist(x)", p2, x.chunks)
        for f in fails[n0:]:
            f["sig"] = classify_value(case, x, None, "dask.persist(x)") or f["sig"]
    except NotImplementedError:
        pass
    except Exception as e:
        fails.append({"sig": classify(case, x, None, "dask.persist(x)", e) or f"dask.persist(x):raises:{type(e).__name__}", "entry": "dask.persist(x)", "detail": repr(e)[:200]})
    try:
        o = x.optimize()
        shapes("x.optimize", o, o.chunks)
    except NotImplementedError:
        pass
    except Exception as e:
        fails.append({"sig": classify(case, x, None, "x.optimize", e) or f"x.optimize:raises:{type(e).__name__}", "entry": "x.optimize", "detail": repr(e)[:200]})
    if dls and x.ndim >= 1 and want is not None and not any(f["entry"] == "to_delayed" for f in fails):
        try:
            def nest(prefix, axis):
                if axis == x.ndim:
                    exp = tuple(int(x.chunks[d][i]) for d, i in enumerate(prefix))
                    return da.from_delayed(dls[prefix], shape=exp, dtype=x.dtype)
                return [nest(prefix + (i,), axis + 1) for i in range(len(x.chunks[axis]))]

            got = da.block(nest((), 0)).compute(scheduler=sched)
            if not same(got, want):
                fails.append({"sig": "to_delayed:from_delayed-reassembly", "entry": "to_delayed",
                              "detail": f"da.block of from_delayed(x.to_delayed(), per x.chunks={x.chunks}) -> {show(got)} expected {show(want)}"})
        except NotImplementedError:
            pass
        except Exception as e:
            fails.append({"sig": f"to_delayed:from_delayed-reassembly:raises:{type(e).__name__}", "entry": "to_delayed",
                          "detail": f"re-assembling x.to_delayed() per x.chunks raised {type(e).__name__}: {str(e)[:200]}"})
    return fails


def gen_swv_program(rng):
    """a sliding-window reduction (sum / max / min / mean) over an IRREGULARLY chunked source (optionally behind
    elemwise steps), as root or under elemwise steps only (no layout-capturing consumer: that is the documented
    swv-layout-drift class)"""
    from harness import gen

    nd = rng.choice([1, 1, 2])
    shape = [rng.randint(6, 20)] + ([rng.randint(2, 5)] if nd == 2 else [])
    ax = 0 if nd == 1 else rng.choice([0, 0, 1])
    for _ in range(20):
        cks = [list(gen.rand_chunks(rng, n)) for n in shape]
        if len(set(cks[ax])) > 1:
            break
    prog = [{"op": "src", "shape": shape, "chunks": cks, "mul": rng.choice([1, 3, 7]), "off": rng.randint(-5, 5), "mod": rng.choice([1 << 40, 11]), "out": "v1"}]
    cur, k = "v1", 1
    if rng.random() < 0.4:
        k += 1
        prog.append({"op": rng.choice(["affine", "neg", "sq"]), "args": [cur], "out": f"v{k}"})
        cur = f"v{k}"
    k += 1
    prog.append({"op": "swv_reduce", "args": [cur], "window": rng.randint(2, min(6, shape[ax])), "axis": ax,
                 "fn": rng.choice(["sum", "max", "min", "mean", "mean"]), "out": f"v{k}"})
    cur = f"v{k}"
    if rng.random() < 0.4:
        k += 1
        prog.append({"op": rng.choice(["affine", "neg"]), "args": [cur], "out": f"v{k}"})
    return prog


# ------------------------------------------------------- in-place updates between entry points

INPLACE_ENTRIES = ("x.compute", "x.optimize", "x.persist", "to_delayed", "dask.compute(x)", "dask.persist(x)")


def gen_update(rng, want):
    shp = want.shape
    r = rng.random()
    if r < 0.45:
        idx = programs.rand_basic_index(rng, shp, allow_none=False, allow_ellipsis=False, allow_neg_step=False)
        return {"type": "setitem", "index": programs._enc_index(idx), "value": rng.randint(-9, 9)}
    if r < 0.75:
        return {"type": "mask", "mod": rng.randint(2, 4), "value": rng.randint(-9, 9)}
    return {"type": "ufunc_out", "k": rng.randint(1, 5)}


def apply_update(upd, x, da_mode):
    """in place on the SAME object"""
    if upd["type"] == "setitem":
        x[programs._dec_index(upd["index"])] = upd["value"]
    elif upd["type"] == "mask":
        x[x % upd["mod"] == 0] = upd["value"]
    else:
        if da_mode:
            import dask_array as da

            da.add(x, upd["k"], out=x)
        else:
            np.add(x, upd["k"], out=x)


def check_inplace(ctx, case, count=True):
    """history on ONE collection object: entry points, an in-place update, the entry points again."""
    fails = []
    with warnings.catch_warnings():
        warnings.simplefilter("ignore")
        prog = case["prog"]
        try:
            env = programs.run_da(prog)
        except Exception:
            return None
        root = prog[-1]["out"]
        x = env[root]
        want = np.array(programs.run_np(prog)[root], copy=True)
        sched = case.get("sched", "sync")

        def call(entry, stage, w):
            try:
                got, _, _ = run_entry(entry, x, None, sched)
            except NotImplementedError:
                return
            except Exception as e:
                fails.append({"sig": classify(case, x, None, entry, e) or f"inplace:{stage}:{entry}:raises:{type(e).__name__}", "entry": entry,
                              "detail": f"{stage} the in-place update {case['update']}: {entry} raised {type(e).__name__}: {str(e)[:200]}"})
                return
            if count:
                ctx.count(("inplace", stage, entry, case["update"]["type"]))
            if not same(got, w):
                fails.append({"sig": f"inplace:{stage}:{entry}:value-mismatch", "entry": entry,
                              "detail": f"{stage} the in-place update {case['update']} (entry points called before: {case['pre']}): {entry} -> {show(got)} expected {show(w)}"})

        for entry in case["pre"]:
            call(entry, "before", want)
        if fails:
            return fails
        try:
            apply_update(case["update"], x, True)
        except (NotImplementedError, ValueError, TypeError, IndexError):
            return None  # the update itself is refused: nothing to compare
        apply_update(case["update"], want, False)
        if x is not env[root]:
            return None
        for entry in case.get("post") or INPLACE_ENTRIES:
            call(entry, "after", want)
    return fails


# ------------------------------------------------------------------------------- report

def report(ctx, case, fails):
    by_sig = {}
    for f in fails:
        by_sig.setdefault(f["sig"], f)
    for sig, f in by_sig.items():
        small = dict(case, entries=[e for e in ("x.compute", f["entry"]) if e in ENTRIES] or None)
        if f["entry"] == "x.compute":
            small["entries"] = ["x.compute"]
        detail = f["detail"]
        if case["kind"] == "prog" and not sig.startswith("build") and sig not in OWN_KNOWN:
            def still(p, sig=sig, small=small):
                c = dict(small, prog=p, y=None)
                r = check_case(ctx, c, count=False)
                return bool(r) and any(g["sig"] == sig for g in r)

            try:
                if still(case["prog"]):
                    p = programs.shrink(case["prog"], still)
                    small = dict(small, prog=p, y=None)
                    if "followon" not in sig and still_without_follow(ctx, small, sig):
                        small["follow"] = None
                    r = check_case(ctx, small, count=False)
                    detail = next((g["detail"] for g in (r or []) if g["sig"] == sig), detail)
            except Exception:
                pass
        ctx.fail(sig, small, detail)


def report_inplace(ctx, case, fails):
    by_sig = {}
    for f in fails:
        by_sig.setdefault(f["sig"], f)
    for sig, f in by_sig.items():
        small = dict(case, post=[f["entry"]])
        detail = f["detail"]
        if sig not in OWN_KNOWN and not programs.classify_known(case["prog"], detail):
            def still(c):
                r = check_inplace(ctx, c, count=False)
                return bool(r) and any(g["sig"] == sig for g in r)

            try:
                if still(small):
                    for k in range(len(small["pre"]) - 1, -1, -1):
                        c = dict(small, pre=small["pre"][:k] + small["pre"][k + 1:])
                        if still(c):
                            small = c
                    small["prog"] = programs.shrink(small["prog"], lambda p: still(dict(small, prog=p)), max_iter=60)
                    if not still(small):
                        small = dict(case, post=[f["entry"]])
                    r = check_inplace(ctx, small, count=False)
                    detail = next((g["detail"] for g in (r or []) if g["sig"] == sig), detail)
                else:
                    small = case
            except Exception:
                small = case
        ctx.fail(sig, small, detail)


def still_without_follow(ctx, case, sig):
    r = check_case(ctx, dict(case, follow=None), count=False)
    return bool(r) and any(g["sig"] == sig for g in r)


# ------------------------------------------------------------------- correspondence (Lean)

def _enc_key(names, k):
    """key -> '<name-id>:<i.j.k|_>' with names interned in `names`."""
    nm = k[0]
    if nm not in names:
        names[nm] = len(names)
    idx = ".".join(str(int(i)) for i in k[1:]) or "_"
    return f"{names[nm]}:{idx}"


def lookup_requests(x, layer, keys, chunks, name):
    """Requests `en.rebuild` for one real FromGraph: model outcome vs FromGraph._layer's.
    Layer entries are abstracted to (key, is_task); non-block keys are dropped (the model's
    layer is a list of block keys)."""
    from dask import istask
    from dask._task_spec import GraphNode
    from dask_array.io._from_graph import FromGraph

    nd = len(chunks)
    names = {name: 0}
    nb = ",".join(str(len(c)) for c in chunks) or "_"
    ents = []
    for k, v in layer.items():
        if isinstance(k, tuple) and k and isinstance(k[0], str) and all(isinstance(i, (int, np.integer)) for i in k[1:]):
            t = 1 if (isinstance(v, GraphNode) or istask(v)) else 0
            ents.append(f"{_enc_key(names, k)}={t}")
    kk = [_enc_key(names, k) for k in keys]
    req = f"en.rebuild {nb} {';'.join(kk) or '-'} {';'.join(ents) or '-'}"
    fg = FromGraph(layer=layer, _meta=np.empty((0,) * nd), chunks=chunks, keys=list(keys), name=name, _dependencies=())
    from dask._task_spec import Alias

    try:
        out = fg._layer()
        res = []
        for bid in itertools.product(*(range(len(c)) for c in chunks)):
            ok = (name, *bid)
            v = out[ok]
            sb = ".".join(map(str, bid)) or "_"
            if ok in layer and v is layer[ok]:
                res.append(f"{sb}>P")
            elif isinstance(v, Alias) and v.key == ok:
                res.append(f"{sb}>A{_enc_key(names, v.target)}")
            else:
                gone = [k for k in layer if isinstance(k, tuple) and tuple(k[1:]) == bid and k not in out]
                res.append(f"{sb}>D{_enc_key(names, gone[0])}" if gone else f"{sb}>P")
        impl = "ok " + ";".join(res)
    except Exception as e:  # ValueError is the documented refusal; anything else is reported as its class
        impl = "err " + type(e).__name__
    return req, impl


def correspondence(ctx):
    """Model lookup vs the real FromGraph._find_layer_key/_layer on (i) the layers real
    persist / dask.persist / dask.optimize hand to from_graph (captured by wrapping from_graph)
    and (ii) synthetic layers hitting every branch incl. the failure branch."""
    import dask
    import dask_array as da
    import dask_array._collection as C

    rng = ctx.rng
    pairs = []
    captured = []
    orig = C.from_graph

    current = {}

    def spy(layer, meta, chunks, keys, name, *a, **k):
        captured.append((dict(layer), tuple(chunks), list(keys), name))
        # model: `rebuild c layer` passes (c.chunks, [], c.rawName)
        ctx.traces += 1
        x0 = current.get("x")
        if x0 is not None and (name != x0.name or list(keys) != [] or not chunks_equal(tuple(chunks), x0.chunks)):
            if len(ctx.disagreements) < 50:
                ctx.disagree("postpersist-rebuild-args", f"__dask_postpersist__ of {x0.name}", f"name={x0.name} keys=[] chunks={x0.chunks}",
                             f"name={name} keys={list(keys)[:2]} chunks={tuple(chunks)}")
        return orig(layer, meta, chunks, keys, name, *a, **k)

    C.from_graph = spy
    try:
        for _ in range(ctx.scale(25, 200)):
            prog, _ = programs.gen_clean_program(rng, rng.randint(1, 4))
            try:
                x = programs.run_da(prog)[prog[-1]["out"]]
                if any(math.isnan(s) for c in x.chunks for s in c):
                    continue
                current["x"] = x
                for f in (lambda: x.persist(scheduler="sync"), lambda: dask.persist(x, scheduler="sync"), lambda: dask.optimize(x)):
                    try:
                        with warnings.catch_warnings():
                            warnings.simplefilter("ignore")
                            f()
                    except Exception:
                        pass
            except NotImplementedError:
                continue
    finally:
        C.from_graph = orig
    for layer, chunks, keys, name in captured:
        if len(layer) > 400:
            continue
        try:
            pairs.append(lookup_requests(None, layer, keys, chunks, name))
        except Exception:
            continue
    ctx.notes["corr.real_rebuild_layers"] = len(pairs)
    # synthetic layers
    for _ in range(ctx.scale(300, 3000)):
        nd = rng.randint(0, 2)
        nb = [rng.randint(1, 3) for _ in range(nd)]
        chunks = tuple((1,) * n for n in nb)
        grid = list(itertools.product(*(range(n) for n in nb)))
        name = "N"
        layer = {}
        style = rng.choice(["own", "other", "two", "partial", "keys", "keys-stale", "mixed", "empty"])
        val = lambda: (rng.choice([np.int64(1), (len, [1])]))  # data or legacy task  # noqa: E731
        keys = []
        if style == "own":
            for b in grid:
                layer[(name, *b)] = val()
        elif style == "other":
            for b in grid:
                layer[("L", *b)] = val()
        elif style == "two":
            for b in grid:
                layer[("L", *b)] = val()
                layer[("M", *b)] = val()
        elif style == "partial":
            for b in grid[:-1] if len(grid) > 1 else []:
                layer[("L", *b)] = val()
            for b in grid[: rng.randint(0, len(grid))]:
                layer[(name, *b)] = val()
        elif style == "keys":
            for b in grid:
                layer[("K", *b)] = val()
                layer[("L", *b)] = val()
            keys = [("K", *b) for b in grid]
        elif style == "keys-stale":
            for b in grid:
                layer[("L", *b)] = val()
            keys = [("K", *b) for b in grid]
        elif style == "mixed":
            for b in grid:
                r = rng.random()
                if r < 0.4:
                    layer[(name, *b)] = val()
                elif r < 0.8:
                    layer[("L", *b)] = val()
            keys = [("L", *b) for b in grid if rng.random() < 0.5]
        # unrelated extra keys of another rank
        if rng.random() < 0.3:
            layer[("X", 0, 0, 0)] = val()
        pairs.append(lookup_requests(None, layer, keys, chunks, name))
    ctx.correspond("from_graph-lookup", pairs, branch_key=lambda req, model: model[:24])


# ----------------------------------------------------------------------------------- run

def premise_monitor(ctx, x):
    """Premise of C05_entry_points_agree on the real graph: it defines rawName x grid(chunks)."""
    from dask.core import flatten

    g = x.__dask_graph__()
    want = list(flatten(x.__dask_keys__()))
    grid = [(x.name, *b) for b in itertools.product(*(range(n) for n in x.numblocks))]
    ctx.notes["premise_graphs_monitored"] = ctx.notes.get("premise_graphs_monitored", 0) + 1
    if want != grid or any(k not in g for k in grid):
        return f"materialized graph of {x.name} does not define rawName x grid(chunks): missing {[k for k in grid if k not in g][:3]}"
    return None


def run(ctx, replay=None):
    import time

    rng = ctx.rng
    t_run = time.time()
    ctx.rule = (
        "seeded random array programs (harness.programs, depth 2-6, outside the documented defect families) plus "
        f"{len(HAND_NAMES)} hand-shaped collections (0-d results, reductions, unknown chunks, seeded random arrays, from_delayed/"
        "from_map, persisted/optimized inputs) x 11 entry points x scheduler in {sync, threads} x one random follow-on op; "
        "every 6th program is a sliding-window reduction (sum/max/min/mean) over an irregularly chunked source, with per-BLOCK "
        "shape checks of to_delayed / persisted / optimized blocks against the advertised chunks and a from_delayed re-assembly; "
        "every 6th case is a history on ONE collection object (entry points, in-place update by setitem / mask / ufunc out=, "
        "entry points again); "
        "typed stream (props_ext/c05_types): block grids mixing plain ndarray and np.ma.MaskedArray blocks in every order "
        "(map_blocks by block id / da.block / concatenate / stack / from_array; masks mod-k, on block edges, all; fill values; "
        "nomask blocks) and sources of 15 other dtypes / array classes (bool, int8, uint16, float32, complex, datetime64, "
        "timedelta64, str, bytes, object, records, masked records, np.matrix, 0-d, 0-d masked) x 16 entry points (the 11 plus "
        "np.asarray, dask.compute of list / dict, to_delayed of persisted collections) with DATA, MASK and fill_value compared "
        "against np.ma; ownership stream: holder (x | persisted | optimized) -> view (whole | chunk-aligned slice | .blocks | "
        "unaligned index) -> result of one of 12 entry points OVERWRITTEN in place by the caller -> 6 entry points + a follow-on "
        "op on holder, view and x must still return the oracle; "
        "fusion stream (props_ext/c05_entry_programs): 25 hand-built da.blockwise forms with ONE lazy operand repeated under "
        "permuted / contracted (concatenate True/False/None) / outer / new_axes / 3-d cyclic index patterns, 23 array-API spellings "
        "(b op b.T, b @ b.T, tensordot, einsum, where, reversed views, v[:,None]*v[None,:]), map_blocks over two views of one chain, "
        "c21_fused's multi-site programs, 0-3 elementwise layers below and above, uniform / ragged / single-block axes x 19 entry "
        "points (the 16 plus x.__array__, store, store(compute=False)) against a whole-array NumPy evaluation + metadata + follow-on; "
        "a case is distinct by (entry point, outcome, result rank, scheduler, set of expression classes)"
    )
    ctx.assumptions = [
        "the Lean model covers the name/key bookkeeping of the entry points (materialize pins rawName x grid; rebuild = from_graph "
        "three-way lookup); dask.base glue (unpack/repack, scheduler, finalize) is exercised only by the search",
        "values are compared with NumPy exactly (int64 data; float results with rtol 1e-12); seeded random arrays have no NumPy "
        "meaning and are compared across entry points (reference = x.compute())",
        "blocks handed out by to_delayed are raw task outputs and may be views of stored data (the user's source array, the blocks "
        "a persisted collection holds) on the unchanged tree: overwriting them is recorded in notes (to_delayed_block_overwrite.*), "
        "not judged; np.asarray(x) goes through __array__ (plain ndarray by contract): unmasked data only; np.matrix: values only",
        "known findings are classified by predicate: dask.optimize on an expression containing a raw Reduction node "
        f"({SIG_OPT_REDUCTION}); dask.persist/dask.optimize on a reduction over sliding_window_view with 'from_graph cannot find "
        f"output block' ({SIG_FROM_GRAPH}); dask.compute(x, <non-array collection>) raising 'Missing dependency (finalizecomputearray-' "
        f"on an x whose optimized FinalizeComputeArray is renamed by a second materialization ({SIG_MIXED_FINALIZE}); "
        "everything else is strict",
    ]
    if replay is not None:
        case = replay["case"] if "case" in replay else replay
        if case.get("kind") in ("typed", "own"):  # harness/props_ext/c05_types.py
            from harness.props_ext import c05_types

            c05_types.replay(ctx, case)
            return
        if case.get("kind") == "fusion":  # harness/props_ext/c05_entry_programs.py
            from harness.props_ext import c05_entry_programs

            c05_entry_programs.replay(ctx, case)
            return
        fn = check_inplace if case.get("kind") == "inplace" else check_case
        for f in fn(ctx, case) or []:
            ctx.fail(f["sig"], case, f["detail"])
        return

    correspondence(ctx)

    # FUSION-SENSITIVE programs (one lazy operand repeated under permuted / contracted / broadcast index patterns in hand-built
    # blockwise calls and their array-API spellings) through every entry point: first, so that the budget cut-off of the
    # random-program loop below never starves it
    from harness.props_ext import c05_entry_programs

    c05_entry_programs.run(ctx, ctx.scale(12, 120))

    n = ctx.scale(150, 2000)
    budget = ctx.scale(40, 480)
    # hand-shaped first
    for name in HAND_NAMES:
        for sched in ("sync", "threads"):
            case = {"kind": "hand", "name": name, "params": {}, "sched": sched, "follow": None, "blocks": True}
            try:
                with warnings.catch_warnings():
                    warnings.simplefilter("ignore")
                    x, want, _, _ = build(case)
                if want is not None:
                    case["follow"] = gen_follow(rng, want)
            except Refused:
                continue
            except Exception:
                pass
            fails = check_case(ctx, case)
            if fails:
                report(ctx, case, fails)
    ctx.sample({"hand": list(HAND_NAMES)})
    for it in range(n):
        if time.time() - t_run > budget:
            ctx.notes["stopped_early_at"] = it
            break
        if it % 6 == 5:
            # history on ONE collection object: entry points, an in-place update, the entry points again
            prog, npenv = programs.gen_clean_program(rng, rng.randint(1, 4))
            w = npenv[prog[-1]["out"]]
            if w.ndim == 0 or w.size == 0 or any(st["op"] in ("swv_reduce", "boolmask_1d") for st in prog):
                continue
            icase = {"kind": "inplace", "prog": prog, "sched": "sync", "update": gen_update(rng, w),
                     "pre": rng.sample(list(INPLACE_ENTRIES), rng.randint(1, 3))}
            fails = check_inplace(ctx, icase)
            ctx.notes["inplace_histories"] = ctx.notes.get("inplace_histories", 0) + (fails is not None)
            if fails:
                report_inplace(ctx, icase, fails)
            continue
        depth = rng.randint(2, 6)
        if it % 6 == 2:
            prog = gen_swv_program(rng)
            npenv = programs.run_np(prog)
        else:
            prog, npenv = programs.gen_clean_program(rng, depth)
        names = [st["out"] for st in prog]
        root = names[-1]
        yv = rng.choice(names)
        case = {
            "kind": "prog", "prog": prog, "sched": "threads" if it % 4 == 3 else "sync",
            "y": {"var": yv, "op": rng.choice(["affine", "sum", "id"])},
            "follow": gen_follow(rng, npenv[root]),
            "blocks": it % 6 == 2 or it % 3 == 0,
        }
        if it < 3:
            ctx.sample({"ops": [st["op"] for st in prog], "y": case["y"], "follow": case["follow"], "sched": case["sched"]})
        fails = check_case(ctx, case)
        if fails is None:
            continue
        if it % 5 == 0:
            try:
                with warnings.catch_warnings():
                    warnings.simplefilter("ignore")
                    x = build(case)[0]
                    bad = premise_monitor(ctx, x)
                if bad:
                    fails.append({"sig": "premise:root-keys-undefined", "entry": "x.compute", "detail": bad})
            except Exception:
                pass
        if fails:
            report(ctx, case, fails)
    # array TYPES (masked / mixed masked-plain block grids, other dtypes) at every entry point, and RESULT OWNERSHIP
    # (the caller overwrites what an entry point handed back; every entry point must still return the old values)
    from harness.props_ext import c05_types

    c05_types.run(ctx, ctx.scale(14, 150))
    known_probe(ctx)
    if ctx.disagreements:
        targeted(ctx)


def known_probe(ctx):
    """Dedicated probes of the documented findings (KNOWN-FINDING lines while they still fail)."""
    for name, entries in (("full_sum_0d", ["x.compute", "dask.optimize(x)"]), ("full_max_2d_0d", ["x.compute", "dask.optimize(x)"]),
                          ("swv_sum", ["x.compute", "dask.persist(x)", "dask.optimize(x)"]),
                          ("take_single", ["x.compute", "dask.compute(x,delayed)"]),
                          ("mul_mismatched_chunks", ["x.compute", "dask.optimize(x)"]),
                          ("reshape_int_index", ["x.compute", "dask.optimize(x)"]),
                          ("mixed_finalize_reoptimized", ["x.compute", "dask.compute(x,delayed)"]),
                          ("swv_mean_irregular", ["x.compute"])):
        case = {"kind": "hand", "name": name, "params": {}, "sched": "sync", "follow": None, "entries": entries, "blocks": name == "swv_mean_irregular"}
        for f in check_case(ctx, case, count=False) or []:
            ctx.fail(f["sig"], case, f["detail"])


def targeted(ctx):
    """Lift model/implementation lookup disagreements to API level: rebuild a collection over the
    disagreeing layer with from_graph and compare its computed blocks with the layer's data."""
    import dask_array as da

    tried = 0
    for d in ctx.disagreements[:40]:
        toks = d["request"].split()
        if toks[0] != "en.rebuild":
            continue
        nb = [] if toks[1] == "_" else [int(t) for t in toks[1].split(",")]
        chunks = tuple((1,) * n for n in nb)

        def dec(tok):
            nm, idx = tok.split(":")
            return (f"n{nm}" if nm != "0" else "N", *([] if idx == "_" else [int(i) for i in idx.split(".")]))

        keys = [] if toks[2] == "-" else [dec(t) for t in toks[2].split(";")]
        layer = {}
        if toks[3] != "-":
            for j, ent in enumerate(toks[3].split(";")):
                k, _t = ent.split("=")
                layer[dec(k)] = np.full((1,) * len(nb), j, dtype=np.int64)
        tried += 1
        try:
            x = da.from_graph(layer, np.empty((0,) * len(nb), dtype=np.int64), chunks, keys, "N")
            got = x.compute(scheduler="sync")
        except ValueError:
            continue  # a refusal
        except Exception as e:
            ctx.fail("from_graph:raises", {"layer_keys": [list(k) for k in layer], "keys": [list(k) for k in keys], "numblocks": nb},
                     f"from_graph over a data layer raised {type(e).__name__}: {e}")
            continue
        # the value of block b must be the data stored under the key the documented lookup order selects
        for b in itertools.product(*(range(n) for n in nb)):
            cands = [k for k in keys if tuple(k[1:]) == b and tuple(k) in layer] or [("N", *b)] if ("N", *b) in layer or any(tuple(k[1:]) == b and tuple(k) in layer for k in keys) else None
            if cands:
                wantv = layer[tuple(cands[0])].ravel()[0]
                if np.asarray(got)[b] != wantv:
                    ctx.fail("from_graph:wrong-block", {"layer_keys": [list(k) for k in layer], "keys": [list(k) for k in keys], "numblocks": nb},
                             f"block {b} of the rebuilt collection is {np.asarray(got)[b]}, the layer's entry for it holds {wantv}")
    ctx.notes["targeted_search"] = f"{tried} from_graph rebuilds over the disagreeing layers, computed and compared block by block"
