"""C15 — rechunk plans are valid and respect the block-size budget; the crosswalk is exact.

Correspondence (model vs dask_array._rechunk on the same inputs, every run):
  rc.old_to_new (one axis, incl. zero-width chunks), rc.divide_to_width, rc.merge_to_number,
  rp.largest_block / rp.estimate_graph_size / rp.max_overlap, and the whole planner
  `rp.plan` with the float-derived choices RECORDED from the real run (sorted candidate order,
  chunk_limit, max_number, nsteps, count) and handed to the model as oracle values; plus the
  membership of every step axis in the model's step relation (`rp.reach`).
Search (independent of the model): brute-force validation of real `plan_rechunk` outputs
  (every step sums to the shape, last step = new, finite under a watchdog, block budget) and the
  brute-force crosswalk contract on `old_to_new`.
  Call histories: the same (old, new, itemsize) planned under a SEQUENCE of configurations in one process
  (array.chunk-size, array.rechunk.threshold, array.rechunk.degree-limit; limits / thresholds passed as arguments
  or left to the configuration, every order incl. A,B,A): each plan is validated against the budget IN FORCE at
  that call and must equal the plan of the same call with every default passed explicitly (under decoy defaults).
  Fractional budgets: byte limits that are NOT a multiple of the itemsize (itemsizes 1,2,3,4,8,12,16; limits just below /
  at / just above k*itemsize for every block size k an intermediate step can take), an exhaustive sweep over crossed
  column-blocks -> row-blocks geometries plus seeded random geometries, validated in BYTES (exact rationals); and the same
  through x.rechunk(new, threshold=, block_size_limit=) with every block of the executed graph measured (.nbytes).
  Unknown (nan) block sizes (harness/props_ext/c15_unknown.py): the POSITION pattern of nans in a chunk tuple (start / end /
  middle / everywhere / alternating / single / islands / both ends) on one or several axes through old_to_new, intersect_chunks,
  _validate_rechunk, plan_rechunk and the estimates, and through x.rechunk(dict / tuple / scalar specs) on arrays assembled from
  known and boolean-masked pieces (values vs NumPy, advertised chunks, every block's shape, refusal when an unknown axis would change).
Failure signatures: nan:crosswalk:*, nan:validate:*, nan:estimate:*, nan:api:*, budget:bound_degree, budget:planner, api:budget, api:values, api:chunks, api:raises, plan:invalid, plan:nontermination,
  plan:raises:zero-width, plan:raises, crosswalk:<what>, history:budget, history:differs-from-explicit,
  history:differs-from-fresh-process, history:invalid, history:raises, history:nontermination.
"""
from __future__ import annotations

import itertools
import math
import signal
import sys
from fractions import Fraction

from harness import gen
from harness.core import err_name, f_list, f_ll

EXC = (AssertionError, IndexError, ValueError, TypeError, ZeroDivisionError, OverflowError, KeyError)


# --------------------------------------------------------------------------- formatting

def f_cross(ax):
    """one axis of old_to_new: [[(idx, slice), ...], ...]"""
    if not ax:
        return "-"
    return ";".join(("_" if not blk else ",".join(f"{i}@{s.start}:{s.stop}" for i, s in blk)) for blk in ax)


def f_plan(plan):
    return "~" if not plan else "|".join(f_ll(step) for step in plan)


def p_list(tok):
    return () if tok == "_" else tuple(int(t) for t in tok.split(","))


def p_ll(tok):
    return () if tok == "-" else tuple(p_list(t) for t in tok.split(";"))


def call(fn, fmt):
    try:
        return fmt(fn())
    except EXC as e:
        return err_name(e)


# ----------------------------------------------------------- recording the float oracles

class _MathProxy:
    def __init__(self, rec):
        self._rec = rec

    def __getattr__(self, k):
        return getattr(math, k)

    def ceil(self, v):
        r = math.ceil(v)
        if sys._getframe(1).f_code.co_name == "_bound_degree" and self._rec.cur_bd is not None:
            self._rec.cur_bd["nsteps"] = r
        return r


_MISSING = object()


class Recorder:
    """Wraps `sorted`, `int`, `round`, `math` and three planner functions in the namespace of
    dask_array._rechunk (no source change) and records the float-derived values of one
    `plan_rechunk` run."""

    NAMES = ("sorted", "int", "round", "math", "find_merge_rechunk", "find_split_rechunk", "_bound_degree")

    def __init__(self, R):
        self.R = R
        self.passes = []
        self.bds = []
        self.pending_mn = {}
        self.cur_pass = None
        self.cur_bd = None

    def __enter__(self):
        R = self.R
        self.saved = {k: R.__dict__.get(k, _MISSING) for k in self.NAMES}
        fm, fs, bd = R.find_merge_rechunk, R.find_split_rechunk, R._bound_degree
        rec = self

        def _sorted(it, *a, **kw):
            r = sorted(it, *a, **kw)
            if sys._getframe(1).f_code.co_name == "find_merge_rechunk" and rec.cur_pass is not None:
                rec.cur_pass["order"] = list(r)
            return r

        def _int(v=0, *a):
            r = int(v, *a)
            fr = sys._getframe(1)
            nm = fr.f_code.co_name
            if nm == "find_merge_rechunk" and rec.cur_pass is not None:
                rec.cur_pass["cl"][fr.f_locals["dim"]] = r
            elif nm == "find_split_rechunk":
                rec.pending_mn[fr.f_locals["dim"]] = r
            return r

        def _round(v, *a):
            r = round(v, *a)
            fr = sys._getframe(1)
            if fr.f_code.co_name == "_bound_degree" and rec.cur_bd is not None:
                rec.cur_bd["counts"][(fr.f_locals["t"], len(fr.f_locals["intermediate"]))] = r
            return r

        def _fm(*a, **kw):
            rec.cur_pass = {"order": [], "cl": {}, "mn": rec.pending_mn}
            rec.pending_mn = {}
            rec.passes.append(rec.cur_pass)
            try:
                return fm(*a, **kw)
            finally:
                rec.cur_pass = None

        def _fs(*a, **kw):
            rec.pending_mn = {}
            return fs(*a, **kw)

        def _bd(*a, **kw):
            rec.cur_bd = {"nsteps": None, "counts": {}}
            try:
                return bd(*a, **kw)
            finally:
                if rec.cur_bd["nsteps"] is not None:
                    rec.bds.append(rec.cur_bd)
                rec.cur_bd = None

        R.sorted, R.int, R.round, R.math = _sorted, _int, _round, _MathProxy(self)
        R.find_merge_rechunk, R.find_split_rechunk, R._bound_degree = _fm, _fs, _bd
        return self

    def __exit__(self, *exc):
        for k, v in self.saved.items():
            if v is _MISSING:
                try:
                    delattr(self.R, k)
                except AttributeError:
                    pass
            else:
                setattr(self.R, k, v)
        return False

    # ---- token encoding for rp.plan
    def tok_passes(self, ndim):
        if not self.passes:
            return "~"
        out = []
        for p in self.passes:
            cl = [p["cl"].get(d, 0) for d in range(ndim)]
            mn = [p["mn"].get(d, 0) for d in range(ndim)]
            out.append(f"{f_list(p['order'])}|{f_list(cl)}|{f_list(mn)}")
        return "/".join(out)

    def tok_bds(self, ndim):
        if not self.bds:
            return "~"
        out = []
        for b in self.bds:
            n = b["nsteps"]
            rows = [[b["counts"].get((t, ax), 0) for ax in range(ndim)] for t in range(1, n)]
            out.append(f"{n}|{f_ll(rows)}")
        return "/".join(out)


class _Timeout(Exception):
    pass


def _alarm(signum, frame):
    raise _Timeout()


def real_plan(R, case, record=False, degree=None, timeout=10.0):
    """Run the real plan_rechunk under the case's configuration (+ watchdog)."""
    import dask

    old = tuple(tuple(c) for c in case["old"])
    new = tuple(tuple(c) for c in case["new"])
    deg = case["degree_limit"] if degree is None else degree
    rec = Recorder(R) if record else None
    prev = signal.signal(signal.SIGALRM, _alarm)
    signal.setitimer(signal.ITIMER_REAL, timeout)
    try:
        with dask.config.set({"array.rechunk.degree-limit": deg}):
            if rec is not None:
                with rec:
                    plan = R.plan_rechunk(old, new, case["itemsize"], case["threshold"], case["limit"])
            else:
                plan = R.plan_rechunk(old, new, case["itemsize"], case["threshold"], case["limit"])
    finally:
        signal.setitimer(signal.ITIMER_REAL, 0)
        signal.signal(signal.SIGALRM, prev)
    return plan, rec


def largest(chunks):
    r = 1
    for c in chunks:
        r *= max(c)
    return r


def plan_request(case, rec):
    nd = len(case["old"])
    fuel = len(rec.passes) + 2
    return (
        f"rp.plan {f_ll(case['old'])} {f_ll(case['new'])} {case['itemsize']} {case['threshold']} {case['limit']} "
        f"{case['degree_limit']} {fuel} {rec.tok_passes(nd)} {rec.tok_bds(nd)}"
    )


# ------------------------------------------------------------------- the property itself

def check_plan_case(ctx, R, case, pairs=None, reach=None):
    """Brute-force validation of one real plan (independent of the model).  Returns True if the
    case went through without a property failure."""
    old = tuple(tuple(c) for c in case["old"])
    new = tuple(tuple(c) for c in case["new"])
    shape = tuple(sum(c) for c in old)
    has_zero = any(c == 0 for dim in old + new for c in dim)
    try:
        plan, rec = real_plan(R, case, record=True)
    except _Timeout:
        ctx.fail("plan:nontermination", case, "plan_rechunk did not return within the watchdog time")
        return False
    except EXC as e:
        sig = "plan:raises:zero-width" if has_zero else "plan:raises"
        ctx.fail(sig, dict(case, error=repr(e)), "plan_rechunk raises on chunkings of the same shape")
        return False
    ok = True
    if not isinstance(plan, list) or not plan or tuple(map(tuple, plan[-1])) != new:
        ctx.fail("plan:invalid", dict(case, plan=plan), "plan is empty or does not end in the new chunking")
        return False
    for s in plan:
        good = len(s) == len(shape) and all(
            len(ax) > 0 and all(isinstance(c, int) and c >= 0 for c in ax) and sum(ax) == n for ax, n in zip(s, shape)
        )
        if not good:
            ctx.fail("plan:invalid", dict(case, plan=plan, step=s), "a plan step is not a chunking of the array's shape")
            return False
    budget = max(Fraction(case["limit"], case["itemsize"]), largest(old), largest(new))
    over = [s for s in plan[:-1] if largest(s) > budget]
    if over:
        ok = False
        try:
            base, _ = real_plan(R, case, degree=10**9)
        except Exception:
            base = []
        s = over[0]
        sig = "budget:planner" if s in base else "budget:bound_degree"
        ctx.fail(sig, dict(case, plan=plan, step=s, block=largest(s), budget=str(budget)),
                 "an intermediate step has a block larger than max(limit/itemsize, largest old, largest new)")
    ctx.count(("plan", len(shape), min(len(plan), 4), min(len(rec.passes), 3), min(len(rec.bds), 2), bool(over), has_zero))
    if pairs is not None:
        pairs.append((plan_request(case, rec), "ok " + f_plan(plan) + " rel=1"))
    if reach is not None:
        for s in plan:
            for o, n, c in zip(old, new, s):
                reach.add((o, n, tuple(c)))
    return ok


def brute_crosswalk(ctx, R, old, new):
    """old_to_new contract by brute force on positions."""
    try:
        ax = R.old_to_new((old,), (new,))[0]
    except EXC as e:
        ctx.fail("crosswalk:raises", {"kind": "crosswalk", "old": old, "new": new, "error": repr(e)}, "old_to_new raises")
        return
    ostart = [0]
    for c in old:
        ostart.append(ostart[-1] + c)
    pos = 0
    bad = None
    if len(ax) != len(new):
        bad = "number of new blocks"
    else:
        for j, blk in enumerate(ax):
            got = []
            if not blk:
                bad = "empty piece list"
            for i, s in blk:
                if not (0 <= i < len(old) and 0 <= s.start <= s.stop <= old[i] and s.step in (None, 1)):
                    bad = "piece out of bounds"
                    break
                got.extend(range(ostart[i] + s.start, ostart[i] + s.stop))
            if bad:
                break
            if got != list(range(pos, pos + new[j])):
                bad = "positions"
                break
            pos += new[j]
    ctx.count(("xwalk", len(old) > 1, len(new) > 1, 0 in old, 0 in new))
    if bad:
        ctx.fail("crosswalk:" + bad.replace(" ", "-"), {"kind": "crosswalk", "old": old, "new": new, "got": f_cross(ax)},
                 "old_to_new does not cover each new block exactly once with in-bounds contiguous pieces")


# ------------------------------------------------------------------------- generators

def rand_case(rng, maxaxis, zeros=0.0):
    rank = rng.choice([1, 2, 2, 2, 3, 3])
    shape = [rng.randint(1, maxaxis) if rng.random() < 0.85 else rng.choice([1, 2, 3, maxaxis]) for _ in range(rank)]
    old = [list(gen.rand_chunks(rng, s, zeros=zeros)) for s in shape]
    new = [list(gen.rand_chunks(rng, s, zeros=zeros)) for s in shape]
    return {
        "kind": "plan", "old": old, "new": new,
        "itemsize": rng.choice([1, 1, 2, 4, 8]),
        "threshold": rng.choice([1, 1, 2, 3, 4, 8, 32]),
        "limit": rng.choice([1, 4, 8, 16, 64, 256, 1024, 2**27]),
        "degree_limit": rng.choice([1, 2, 3, 5, 10, 100]),
    }


# ------------------------------------------------- call histories (configuration sequences)

CFG_LIMIT, CFG_THRESHOLD, CFG_DEGREE = "array.chunk-size", "array.rechunk.threshold", "array.rechunk.degree-limit"
DECOY = {CFG_LIMIT: "3B", CFG_THRESHOLD: 97}


def _bytes(v):
    from dask.utils import parse_bytes

    return parse_bytes(v) if isinstance(v, str) else int(v)


def _plan_under(R, old, new, itemsize, threshold, limit, config, timeout=10.0):
    import dask

    prev = signal.signal(signal.SIGALRM, _alarm)
    signal.setitimer(signal.ITIMER_REAL, timeout)
    try:
        with dask.config.set(config):
            return R.plan_rechunk(old, new, itemsize, threshold, limit)
    finally:
        signal.setitimer(signal.ITIMER_REAL, 0)
        signal.signal(signal.SIGALRM, prev)


def fresh_plans(items):
    """Runs in a NEW interpreter (harness.props_ext.fresh_process): each item's step is the first plan_rechunk call
    for its (old, new, itemsize) in that process."""
    from dask_array import _rechunk as R

    seen, out = set(), []
    for it in items:
        old = tuple(tuple(c) for c in it["old"])
        new = tuple(tuple(c) for c in it["new"])
        key = (old, new, it["itemsize"])
        if key in seen:
            out.append(None)
            continue
        seen.add(key)
        st = it["step"]
        try:
            out.append([[list(ax) for ax in s] for s in _plan_under(R, old, new, it["itemsize"], st["threshold"], st["limit"], st["config"])])
        except Exception as e:  # noqa: BLE001
            out.append("err " + type(e).__name__)
    return out


def compare_with_fresh(ctx, items):
    """items: [(case, plan of the LAST step as seen in this process)]"""
    from harness.props_ext.fresh_process import run_fresh

    if not items:
        return
    payload = [{"old": c["old"], "new": c["new"], "itemsize": c["itemsize"], "step": c["steps"][-1]} for c, _ in items]
    fresh = run_fresh("C15", "fresh_plans", payload)
    n = 0
    for (case, plan), f in zip(items, fresh):
        if f is None or isinstance(f, str):
            continue
        n += 1
        here = [[list(ax) for ax in s] for s in plan]
        if here != f:
            ctx.fail("history:differs-from-fresh-process", dict(case, step=len(case["steps"]) - 1, fresh_check=True, plan=here, fresh_plan=f),
                     "the plan made after other configurations were used in this process differs from the plan the same call "
                     "(same arguments, same configuration) makes as the first call of a new interpreter")
    ctx.notes["history_plans_compared_with_fresh_interpreter"] = ctx.notes.get("history_plans_compared_with_fresh_interpreter", 0) + n


def check_history_case(ctx, R, case, collect=None):
    """One (old, new, itemsize) planned under each configuration of case["steps"] in turn, in this process.
    A step = {"threshold": arg or None, "limit": arg or None, "config": {all three keys}}.  Oracles per step:
    (a) brute force: every step of the plan is a chunking of the shape, the last is `new`, no intermediate block is
        larger than max(limit in force / itemsize, largest old, largest new);
    (b) the plan equals the plan of the same call with threshold and block_size_limit passed explicitly while the
        configuration holds decoy defaults (a default read from the configuration must be read at every call);
    (c) (batched by the caller, `collect`) the plan of the last step equals the plan the same call makes as the first
        call of a new interpreter."""
    old = tuple(tuple(c) for c in case["old"])
    new = tuple(tuple(c) for c in case["new"])
    shape = tuple(sum(c) for c in old)
    itemsize = case["itemsize"]
    plans = []
    ok = True
    for i, st in enumerate(case["steps"]):
        cfg = st["config"]
        lim = st["limit"] if st["limit"] else _bytes(cfg[CFG_LIMIT])
        thr = st["threshold"] if st["threshold"] else cfg[CFG_THRESHOLD]
        here = dict(case, step=i, limit_in_force=lim, threshold_in_force=thr)
        try:
            plan = _plan_under(R, old, new, itemsize, st["threshold"], st["limit"], cfg)
            ref = _plan_under(R, old, new, itemsize, thr, lim, dict(DECOY, **{CFG_DEGREE: cfg[CFG_DEGREE]}))
        except _Timeout:
            ctx.fail("history:nontermination", here, "plan_rechunk did not return within the watchdog time")
            return False
        except EXC as e:
            ctx.fail("history:raises", dict(here, error=repr(e)), "plan_rechunk raises on chunkings of the same shape")
            return False
        plans.append(plan)
        good = isinstance(plan, list) and plan and tuple(map(tuple, plan[-1])) == new and all(
            len(s) == len(shape) and all(len(ax) > 0 and all(isinstance(c, int) and c >= 0 for c in ax) and sum(ax) == n for ax, n in zip(s, shape))
            for s in plan)
        if not good:
            ctx.fail("history:invalid", dict(here, plan=plan), "a plan is empty, does not end in the new chunking or has a step that is no chunking of the shape")
            return False
        budget = max(Fraction(lim, itemsize), largest(old), largest(new))
        over = [s for s in plan[:-1] if largest(s) > budget]
        if over:
            ok = False
            ctx.fail("history:budget", dict(here, plan=plan, bad_step=over[0], block=largest(over[0]), budget=str(budget)),
                     "after other configurations were used in this process an intermediate step has a block larger than "
                     "max(limit in force/itemsize, largest old, largest new)")
        elif [tuple(map(tuple, s)) for s in plan] != [tuple(map(tuple, s)) for s in ref]:
            ok = False
            ctx.fail("history:differs-from-explicit", dict(here, plan=plan, explicit=ref),
                     "the plan under configured defaults differs from the plan with the same values passed explicitly")
    if collect is not None and ok and len(case["steps"]) > 1:
        collect.append((case, plans[-1]))
    distinct = len({repr(p) for p in plans})
    ctx.count(("history", len(shape), len(case["steps"]), min(distinct, 3), case.get("vary"),
               any(st["limit"] for st in case["steps"]), any(st["threshold"] for st in case["steps"]), max(map(len, plans)) > 1))
    return ok


def _crossed(rng):
    """The classic costly rechunk: fine along one axis -> fine along the other (graph far above any threshold)."""
    n = rng.choice([12, 24, 40, 100])
    k = rng.choice([1, 1, 2, 3])
    row = list(_uniform(n, k))
    a, b = [row, [n]], [[n], row]
    if rng.random() < 0.3:
        m = rng.choice([2, 3, 5])
        a, b = a + [[m]], b + [[1] * m if rng.random() < 0.5 else [m]]
    return (a, b) if rng.random() < 0.5 else (b, a)


def _uniform(n, k):
    return (k,) * (n // k) + ((n % k,) if n % k else ())


def rand_history_case(rng, maxaxis):
    if rng.random() < 0.5:
        old, new = _crossed(rng)
    else:
        c = rand_case(rng, maxaxis)
        old, new = c["old"], c["new"]
    itemsize = rng.choice([1, 2, 4, 8])
    nelem = math.prod(sum(c) for c in old)
    # limits spread around the sizes that matter for this pair: one element ... the whole array
    lims = sorted({1, itemsize, itemsize * max(1, largest(old)), itemsize * max(1, largest(new)), itemsize * max(1, nelem // 16),
                   itemsize * max(1, nelem // 4), itemsize * nelem, 2**27})
    if itemsize > 1 and rng.random() < 0.5:  # byte limits that are not a whole number of elements
        lims = sorted(set(lims) | {max(1, v + rng.choice([-1, 1, -(itemsize // 2), itemsize - 1])) for v in rng.sample(lims[1:-1], min(3, len(lims) - 2))})
    vary = rng.choice(["limit", "limit", "limit", "threshold", "degree", "all"])
    n = rng.choice([2, 3, 3, 4])
    base = {CFG_LIMIT: rng.choice(lims), CFG_THRESHOLD: rng.choice([1, 2, 4, 8]), CFG_DEGREE: rng.choice([2, 3, 10, 100])}
    seq = []
    for _ in range(n):
        cfg = dict(base)
        if vary in ("limit", "all"):
            cfg[CFG_LIMIT] = rng.choice(lims)
        if vary in ("threshold", "all"):
            cfg[CFG_THRESHOLD] = rng.choice([1, 2, 3, 4, 8, 32, 1000])
        if vary in ("degree", "all"):
            cfg[CFG_DEGREE] = rng.choice([1, 2, 3, 5, 10, 100])
        seq.append(cfg)
    if rng.random() < 0.5:
        seq.append(dict(seq[0]))  # A, B, ..., A
    if vary == "limit" and rng.random() < 0.5:
        seq.sort(key=lambda c: _bytes(c[CFG_LIMIT]), reverse=rng.random() < 0.5)  # generous -> tight or tight -> generous
    argmode = rng.choice(["none", "none", "none", "limit-arg", "threshold-arg", "mixed"])
    steps = []
    for cfg in seq:
        lim_arg = thr_arg = None
        if argmode == "limit-arg" or (argmode == "mixed" and rng.random() < 0.4):
            lim_arg = rng.choice(lims)
        if argmode == "threshold-arg" or (argmode == "mixed" and rng.random() < 0.4):
            thr_arg = rng.choice([1, 2, 4, 8, 32])
        if rng.random() < 0.3:
            cfg = dict(cfg)
            cfg[CFG_LIMIT] = f"{cfg[CFG_LIMIT]}B"  # configuration values may be byte strings
        steps.append({"threshold": thr_arg, "limit": lim_arg, "config": cfg})
    return {"kind": "plan-history", "old": old, "new": new, "itemsize": itemsize, "steps": steps, "vary": vary}


def history_search(ctx, R):
    rng = ctx.rng
    n = bad = 0
    collect = []
    # the documented shape of the problem, both orders, deterministic
    for order in (["128MiB", "1KiB", "16KiB", "1KiB", "128MiB"], ["1KiB", "128MiB", "1KiB"]):
        for o, nw in ((((1,) * 100, (100,)), ((100,), (1,) * 100)), (((100,), (1,) * 100), ((1,) * 100, (100,)))):
            case = {"kind": "plan-history", "old": [list(c) for c in o], "new": [list(c) for c in nw], "itemsize": 8, "vary": "limit",
                    "steps": [{"threshold": None, "limit": None, "config": {CFG_LIMIT: v, CFG_THRESHOLD: 4, CFG_DEGREE: 10}} for v in order]}
            n += 1
            bad += not check_history_case(ctx, R, case, collect)
    for i in range(ctx.scale(1800, 30000)):
        case = rand_history_case(rng, rng.choice([6, 12, 24]))
        n += 1
        bad += not check_history_case(ctx, R, case, collect)
        if i % 500 == 0:
            ctx.sample({"case": case})
    compare_with_fresh(ctx, collect)
    ctx.notes["history_cases"] = n
    ctx.notes["history_cases_failing"] = bad


# ------------------------------------------- fractional budgets (limit not a multiple of the itemsize)

FR_ITEMSIZES = (2, 3, 4, 8, 12, 16)
FR_DTYPES = {1: "i1", 2: "i2", 3: "V3", 4: "i4", 8: "f8", 12: [("a", "i4"), ("b", "f8")], 16: "c16"}


def _near(itemsize, k):
    """byte limits around k elements: just below, exactly, just above (none of the off ones a multiple of itemsize)"""
    out = {itemsize * k}
    if itemsize > 1:
        out |= {itemsize * k - 1, itemsize * k - itemsize // 2, itemsize * k - (itemsize - 1), itemsize * k + 1, itemsize * k + itemsize - 1}
    return sorted(v for v in out if v >= 1)


def fraction_sweep():
    """Crossed geometries (n x n, blocks of a columns -> blocks of b rows and back), every itemsize, every limit around
    n*j elements (the sizes a merged intermediate block can take)."""
    for n in (4, 6, 8, 12):
        for a, b in itertools.product((1, 2, 3), repeat=2):
            if n % a or n % b:
                continue
            cols, rows = [[n], [a] * (n // a)], [[b] * (n // b), [n]]
            for old, new in ((cols, rows), (rows, cols)):
                for itemsize in FR_ITEMSIZES:
                    for j in range(1, n):
                        for lim in _near(itemsize, n * j):
                            if lim % itemsize:
                                yield {"kind": "plan", "old": old, "new": new, "itemsize": itemsize, "threshold": 1, "limit": lim,
                                       "degree_limit": 10**6}


def rand_fraction_case(rng, maxaxis):
    if rng.random() < 0.4:
        old, new = _crossed(rng)
        if rng.random() < 0.5:  # keep the crossed ones small enough for many limits to matter
            n = rng.choice([4, 5, 6, 7, 9, 10])
            k = rng.choice([1, 1, 2, 3])
            row = list(_uniform(n, k))
            old, new = ([row, [n]], [[n], row]) if rng.random() < 0.5 else ([[n], row], [row, [n]])
    else:
        c = rand_case(rng, maxaxis)
        while len(c["old"]) < 2:
            c = rand_case(rng, maxaxis)
        old, new = c["old"], c["new"]
    itemsize = rng.choice(FR_ITEMSIZES)
    # candidate element counts: products of merged widths per axis, between the largest old/new block and the whole array
    widths = []
    for o, nw in zip(old, new):
        cs = set(itertools.accumulate(o)) | set(itertools.accumulate(nw)) | {max(o), max(nw)}
        widths.append(sorted(v for v in cs if v > 0) or [1])
    k = math.prod(rng.choice(w) for w in widths)
    if rng.random() < 0.25:
        k = rng.randint(1, max(1, math.prod(sum(o) for o in old)))
    lim = rng.choice(_near(itemsize, max(1, k)))
    return {"kind": "plan", "old": old, "new": new, "itemsize": itemsize, "threshold": rng.choice([1, 1, 1, 2, 4, 16]), "limit": lim,
            "degree_limit": rng.choice([2, 3, 10, 100, 10**6, 10**6])}


def _blocks_of(graph_values):
    return [v for v in graph_values if hasattr(v, "nbytes") and hasattr(v, "shape") and hasattr(v, "dtype")]


def check_api_case(ctx, case):
    """x.rechunk(new, threshold=, block_size_limit=limit bytes) on a real array of the case's itemsize: the whole graph is
    executed and EVERY array it holds is measured in bytes (oracle: .nbytes, no planner code involved)."""
    import numpy as np

    import dask
    import dask_array as da

    old = tuple(tuple(c) for c in case["old"])
    new = tuple(tuple(c) for c in case["new"])
    shape = tuple(sum(c) for c in old)
    itemsize = case["itemsize"]
    dt = np.dtype(FR_DTYPES[itemsize])
    assert dt.itemsize == itemsize
    nelem = math.prod(shape)
    a = (np.arange(nelem * itemsize, dtype="i8") * 37 % 251).astype("u1").view(dt).reshape(shape)
    raw = lambda v: np.ascontiguousarray(v).view("u1")
    try:
        with dask.config.set({CFG_DEGREE: case["degree_limit"]}):
            # map_blocks keeps the rechunk from being absorbed into the from_array read
            x = da.from_array(a, chunks=old).map_blocks(_ident, dtype=dt, meta=np.empty((0,) * len(shape), dtype=dt))
            y = x.rechunk(new, threshold=case["threshold"], block_size_limit=case["limit"])
            chunks = tuple(tuple(c) for c in y.chunks)
            graph = dict(y.__dask_graph__())
            keys = list(graph)
            values = dask.get(graph, keys)
            got = y.compute(scheduler="sync")
    except EXC + (NotImplementedError,) as e:
        if dt.kind == "V":  # void / structured blocks: a refusal is not wrong data
            ctx.notes["api_refused_nonnumeric_dtype"] = ctx.notes.get("api_refused_nonnumeric_dtype", 0) + 1
            ctx.notes.setdefault("api_refused_example", repr(e)[:160])
            return True
        ctx.fail("api:raises", dict(case, error=repr(e)), "x.rechunk(new, threshold=, block_size_limit=) raises on chunkings of the same shape")
        return False
    blocks = [v for k, v in zip(keys, values) if isinstance(k, tuple) and len(k) == len(shape) + 1 and isinstance(v, np.ndarray)]
    biggest = max((v.nbytes for v in blocks), default=0)
    budget = max(case["limit"], largest(old) * itemsize, largest(new) * itemsize)
    ctx.count(("api", len(shape), itemsize, case["limit"] % itemsize != 0, biggest > largest(old) * itemsize and biggest > largest(new) * itemsize,
               len({k[0] for k in keys if isinstance(k, tuple)}) > 3))
    if chunks != new:
        ctx.fail("api:chunks", dict(case, got=chunks), "x.rechunk(new, ...).chunks is not the requested chunking")
        return False
    if biggest > budget:
        worst = max(blocks, key=lambda v: v.nbytes)
        ctx.fail("api:budget", dict(case, block_bytes=int(biggest), block_shape=list(worst.shape), budget_bytes=int(budget)),
                 "executing x.rechunk(new, block_size_limit=) materialises a block of more bytes than max(block_size_limit, largest "
                 "old block, largest new block)")
        return False
    if np.asarray(got).shape != shape or not np.array_equal(raw(np.asarray(got)), raw(a)):
        ctx.fail("api:values", dict(case), "x.rechunk(new, block_size_limit=) changes the values")
        return False
    return True


def _ident(b):
    return b


def fraction_search(ctx, R):
    rng = ctx.rng
    pairs = []
    n = bad = 0
    multi = []
    failing = []
    sweep = list(fraction_sweep())  # exhaustive in both tiers (about 9.5k plans, < 2 s)
    for case in sweep:
        if bad >= 40:
            break  # the class is reported with 40 concrete inputs already
        n += 1
        ok = check_plan_case(ctx, R, case, pairs if n % 13 == 0 else None)
        bad += not ok
        (failing if not ok else multi).append(case)
    for i in range(ctx.scale(2500, 40000)):
        case = rand_fraction_case(rng, rng.choice([6, 12, 24]))
        if bad >= 80:
            break
        n += 1
        ok = check_plan_case(ctx, R, case, pairs if i % 3 == 0 else None)
        bad += not ok
        (failing if not ok else multi).append(case)
        if i % 800 == 0:
            ctx.sample({"case": case})
    ctx.notes["fractional_budget_plans"] = n
    ctx.notes["fractional_budget_plans_failing"] = bad
    ctx.correspond("plan_rechunk(recorded oracles, fractional budgets)", pairs,
                   branch_key=lambda req, model: (req.count("/"), req.split()[-1] == "~", model.count("|")))
    # the same through the public API, every materialised block measured; small arrays only; the inputs whose plan
    # already broke the budget come first (lifting them to the API level)
    api = failing[:6]
    small = [c for c in multi if math.prod(sum(o) for o in c["old"]) <= 200 and max(len(o) for o in c["old"] + c["new"]) <= 12]
    rng.shuffle(small)
    api += small[: ctx.scale(140, 2500)]
    m = mbad = 0
    for case in api:
        if mbad >= 12:
            break
        m += 1
        mbad += not check_api_case(ctx, dict(case, kind="api-rechunk"))
    ctx.notes["fractional_budget_api_runs"] = m
    ctx.notes["fractional_budget_api_failing"] = mbad


KNOWN_BOUND_DEGREE = {
    "kind": "plan", "old": [[1, 3, 1], [4, 4, 6, 3]], "new": [[2, 3], [6, 4, 1, 5, 1]],
    "itemsize": 1, "threshold": 4, "limit": 8, "degree_limit": 3,
}
KNOWN_ZERO_WIDTH = {
    "kind": "plan", "old": [[2, 1, 1, 0, 1, 1]], "new": [[6]], "itemsize": 8, "threshold": 4, "limit": 2**27, "degree_limit": 2,
}


# ------------------------------------------------------------------------------- run

def helper_pairs(ctx, R):
    rng = ctx.rng
    NEX = ctx.scale(4, 5)
    NR = ctx.scale(4000, 60000)
    # --- old_to_new, one axis: exhaustive small incl. zero-width chunks + random large
    pairs = []
    xw = []
    for n in range(0, NEX + 1):
        comps = list(gen.compositions(n, zeros=True, maxparts=ctx.scale(3, 4))) if n else [(0,), (0, 0)]
        comps = list(dict.fromkeys(comps + list(gen.compositions(n))))
        for o in comps:
            for nw in comps:
                xw.append((o, nw))
    for _ in range(NR):
        n = rng.choice([1, 2, 5, 17, 100, 1000, 10**6])
        xw.append((gen.rand_chunks(rng, n, zeros=0.3, maxparts=12), gen.rand_chunks(rng, n, zeros=0.3, maxparts=12)))
    for o, nw in xw:
        pairs.append((f"rc.old_to_new {f_list(o)} {f_list(nw)}", call(lambda: R.old_to_new((o,), (nw,))[0], lambda r: "ok " + f_cross(r))))
    ctx.correspond("old_to_new", pairs)
    ctx.notes["crosswalk_exhaustive_pairs"] = len(xw) - NR
    # brute-force contract (search, independent of the model)
    for o, nw in xw:
        if max(sum(o), 0) <= 2000:
            brute_crosswalk(ctx, R, tuple(o), tuple(nw))

    # --- divide_to_width / merge_to_number
    pairs = []
    for n in range(1, NEX + 3):
        for c in gen.compositions(n):
            for w in range(1, n + 2):
                pairs.append((f"rc.divide_to_width {f_list(c)} {w}", call(lambda: R.divide_to_width(c, w), lambda r: "ok " + f_list(r))))
            for k in range(1, len(c) + 2):
                pairs.append((f"rc.merge_to_number {f_list(c)} {k}", call(lambda: R.merge_to_number(c, k), lambda r: "ok " + f_list(r))))
    for _ in range(NR):
        n = rng.choice([3, 7, 24, 60, 1000, 10**6])
        c = gen.rand_chunks(rng, n, zeros=0.15, maxparts=30)
        w = rng.randint(1, max(c) + 2)
        pairs.append((f"rc.divide_to_width {f_list(c)} {w}", call(lambda: R.divide_to_width(c, w), lambda r: "ok " + f_list(r))))
        # merge_to_number is specified for positive widths (zero-width entries: see the plan:raises:zero-width probe)
        c = tuple(x for x in c if x) if rng.random() < 0.8 else (rng.randint(1, 9),) * rng.randint(1, 30)
        k = rng.randint(1, len(c) + 1)
        pairs.append((f"rc.merge_to_number {f_list(c)} {k}", call(lambda: R.merge_to_number(c, k), lambda r: "ok " + f_list(r))))
        # brute force on the real helpers (independent of the model)
        d = R.divide_to_width(c, w)
        m = R.merge_to_number(c, k)
        ctx.count(("helpers", len(d) > len(c), len(m) < len(c), len(set(c)) == 1))
        if sum(d) != sum(c) or max(d) > w or min(d) <= 0:
            ctx.fail("divide_to_width:contract", {"kind": "helper", "fn": "divide_to_width", "chunks": c, "w": w, "got": d}, "divide_to_width breaks sum / width / positivity")
        cum_c = set(itertools.accumulate(c))
        if sum(m) != sum(c) or len(m) > max(k, 1) or not set(itertools.accumulate(m)) <= cum_c:
            ctx.fail("merge_to_number:contract", {"kind": "helper", "fn": "merge_to_number", "chunks": c, "k": k, "got": m}, "merge_to_number breaks sum / count / adjacency")
    ctx.correspond("divide_to_width+merge_to_number", pairs)

    # --- estimate_graph_size, _max_overlap, _largest_block_size
    pairs = []
    for _ in range(NR):
        case = rand_case(rng, rng.choice([6, 24, 200]), zeros=rng.choice([0, 0, 0.3]))
        o = tuple(map(tuple, case["old"]))
        nw = tuple(map(tuple, case["new"]))
        if rng.random() < 0.2:
            nw = nw[:-1] + (o[-1],)
        pairs.append((f"rp.estimate_graph_size {f_ll(o)} {f_ll(nw)}", call(lambda: R.estimate_graph_size(o, nw), lambda r: f"ok {r}")))
        pairs.append((f"rp.max_overlap {f_ll(o)} {f_ll(nw)}", call(lambda: R._max_overlap(o, nw), lambda r: f"ok {r}")))
        pairs.append((f"rp.largest_block {f_ll(o)}", call(lambda: R._largest_block_size(o), lambda r: f"ok {r}")))
        pairs.append((f"rp.number_of_blocks {f_ll(o)}", call(lambda: R._number_of_blocks(o), lambda r: f"ok {r}")))
    ctx.correspond("estimate_graph_size+_max_overlap+_largest_block_size", pairs)


def plan_search(ctx, R):
    rng = ctx.rng
    MAXAX = ctx.scale(24, 60)
    N = ctx.scale(12000, 120000)
    pairs = []
    reach = set()
    nfail = 0
    for i in range(N):
        case = rand_case(rng, rng.choice([6, 12, MAXAX]))
        if not check_plan_case(ctx, R, case, pairs, reach):
            nfail += 1
        elif i % 400 == 0:
            ctx.sample({"case": case})
    # chunkings with zero-width blocks (arise from boolean masks + compute_chunk_sizes); since bb7113a they
    # are returned unplanned ([new]) and the model mirrors that
    nz = 0
    for _ in range(N // 5):
        case = rand_case(rng, rng.choice([6, 12]), zeros=0.5)
        if not any(c == 0 for dim in case["old"] + case["new"] for c in dim):
            continue
        nz += 1
        check_plan_case(ctx, R, case, pairs, reach)
    ctx.notes["plans_checked"] = N
    ctx.notes["plans_with_zero_width_chunks"] = nz
    ctx.notes["plans_failing_property"] = nfail
    ctx.correspond("plan_rechunk(recorded oracles)", pairs,
                   branch_key=lambda req, model: (req.count("/"), req.split()[-1] == "~", model.count("|")))
    # every step axis must be in the model's step relation for some oracle value
    reach = sorted(reach)
    rp = [(f"rp.reach {f_list(o)} {f_list(n)} {f_list(c)} 2", None) for o, n, c in reach]
    outs = ctx.driver.run([r for r, _ in rp])
    for (req, _), out in zip(rp, outs):
        ctx.traces += 1
        ctx.evaluations += 1
        ctx.distinct.add(("reach", out))
        if out not in ("ok 0", "ok 1", "ok 2"):
            ctx.disagree("step-relation", req, out, "a depth ≤ 2 (the step axis is produced by the real planner)")
    ctx.notes["corr.step-relation"] = len(rp)


def known_probes(ctx, R):
    """Regression probes: the inputs of the two defects fixed by 28665a6 (budget:bound_degree) and bb7113a
    (plan:raises:zero-width); they fail again if either fix is lost."""
    check_plan_case(ctx, R, dict(KNOWN_BOUND_DEGREE))
    check_plan_case(ctx, R, dict(KNOWN_ZERO_WIDTH))


def impl_of(R, req):
    """Implementation output for a correspondence request (used when replaying disagreements)."""
    t = req.split()
    if t[0] == "rc.old_to_new":
        o, n = p_list(t[1]), p_list(t[2])
        return call(lambda: R.old_to_new((o,), (n,))[0], lambda r: "ok " + f_cross(r))
    if t[0] == "rc.divide_to_width":
        return call(lambda: R.divide_to_width(p_list(t[1]), int(t[2])), lambda r: "ok " + f_list(r))
    if t[0] == "rc.merge_to_number":
        return call(lambda: R.merge_to_number(p_list(t[1]), int(t[2])), lambda r: "ok " + f_list(r))
    if t[0] == "rp.estimate_graph_size":
        return call(lambda: R.estimate_graph_size(p_ll(t[1]), p_ll(t[2])), lambda r: f"ok {r}")
    if t[0] == "rp.max_overlap":
        return call(lambda: R._max_overlap(p_ll(t[1]), p_ll(t[2])), lambda r: f"ok {r}")
    if t[0] == "rp.largest_block":
        return call(lambda: R._largest_block_size(p_ll(t[1])), lambda r: f"ok {r}")
    if t[0] == "rp.number_of_blocks":
        return call(lambda: R._number_of_blocks(p_ll(t[1])), lambda r: f"ok {r}")
    return None


def case_of_plan_request(req):
    t = req.split()
    return {"kind": "plan", "old": [list(c) for c in p_ll(t[1])], "new": [list(c) for c in p_ll(t[2])],
            "itemsize": int(t[3]), "threshold": int(t[4]), "limit": int(t[5]), "degree_limit": int(t[6])}


def targeted(ctx, R):
    """Lift model/implementation disagreements to the property level on the real code."""
    tried = 0
    for d in ctx.disagreements[:60]:
        t = d["request"].split()
        try:
            if t[0] == "rc.old_to_new":
                tried += 1
                brute_crosswalk(ctx, R, p_list(t[1]), p_list(t[2]))
            elif t[0] in ("rp.plan",):
                tried += 1
                check_plan_case(ctx, R, case_of_plan_request(d["request"]))
            elif t[0] in ("rc.divide_to_width", "rc.merge_to_number"):
                # a plan that uses the helper on this axis: (c,) -> (sum,) and back, small limits
                c = p_list(t[1])
                n = sum(c)
                for other in ((n,), (1,) * n if n <= 64 else (n // 2, n - n // 2)):
                    for old, new in (((c, other), (other, c)), ((other, c), (c, other)), ((c, c), (other, other))):
                        for lim, thr, deg in ((1, 1, 2), (16, 2, 3), (2**27, 4, 100)):
                            tried += 1
                            check_plan_case(ctx, R, {"kind": "plan", "old": [list(a) for a in old], "new": [list(a) for a in new],
                                                     "itemsize": 1, "threshold": thr, "limit": lim, "degree_limit": deg})
            elif t[0] == "rp.reach":
                tried += 1
        except Exception as e:  # pragma: no cover
            ctx.notes["targeted_error"] = repr(e)
    ctx.notes["targeted_search"] = f"{tried} property-level replays (brute-force crosswalk / plan validation) around disagreeing inputs"


def replay_case(ctx, R, rp):
    case = rp.get("case") if "case" in rp else None
    if case is not None:
        kind = case.get("kind")
        if isinstance(kind, str) and kind.startswith("nan-"):
            from harness.props_ext import c15_unknown

            c15_unknown.replay(ctx, R, case)
        elif kind == "plan":
            pairs = []
            check_plan_case(ctx, R, {k: case[k] for k in ("kind", "old", "new", "itemsize", "threshold", "limit", "degree_limit")}, pairs)
            if pairs:
                ctx.correspond("plan_rechunk(recorded oracles)", pairs)
        elif kind == "api-rechunk":
            check_api_case(ctx, {k: case[k] for k in ("kind", "old", "new", "itemsize", "threshold", "limit", "degree_limit")})
        elif kind == "plan-history":
            collect = []
            check_history_case(ctx, R, {k: case[k] for k in ("kind", "old", "new", "itemsize", "steps", "vary") if k in case}, collect)
            if case.get("fresh_check"):
                compare_with_fresh(ctx, collect)
        elif kind == "crosswalk":
            brute_crosswalk(ctx, R, tuple(case["old"]), tuple(case["new"]))
        elif kind == "helper":
            c = tuple(case["chunks"])
            if case["fn"] == "divide_to_width":
                d = R.divide_to_width(c, case["w"])
                if sum(d) != sum(c) or max(d) > case["w"] or min(d) <= 0:
                    ctx.fail("divide_to_width:contract", case, "divide_to_width breaks sum / width / positivity")
            else:
                m = R.merge_to_number(c, case["k"])
                if sum(m) != sum(c) or len(m) > max(case["k"], 1) or not set(itertools.accumulate(m)) <= set(itertools.accumulate(c)):
                    ctx.fail("merge_to_number:contract", case, "merge_to_number breaks sum / count / adjacency")
        return
    # a "model-or-proof-broken" replay: re-run the listed disagreements
    pairs = []
    for d in rp.get("disagreements", []):
        req = d["request"]
        if req.startswith("rp.plan"):
            check_plan_case(ctx, R, case_of_plan_request(req), pairs)
        else:
            impl = impl_of(R, req)
            if impl is not None:
                pairs.append((req, impl))
    if pairs:
        ctx.correspond("replay", pairs)
    if ctx.disagreements:
        targeted(ctx, R)


def run(ctx, replay=None):
    from dask_array import _rechunk as R

    ctx.rule = (
        "helpers: exhaustive small domain (all chunkings of n ≤ N incl. zero-width chunks for old_to_new; all "
        "chunkings × all widths / counts for divide_to_width / merge_to_number) + seeded random large; plans: seeded "
        "random (old, new) of rank ≤ 3 × itemsize × threshold × limit × degree-limit through dask.config; distinct = "
        "(family, model output prefix, size class) for correspondence, (rank, plan length, #planner passes, "
        "#degree subdivisions, budget outcome, zero-width) for plans, (shape of crosswalk) for the brute-force contract; "
        "call histories: the same (old, new, itemsize) under 2-5 configurations in one process (what varies, arguments vs "
        "configured defaults, #distinct plans); fractional budgets: crossed n x n geometries (n = 4, 6, 8, 12; widths 1-3; both "
        "directions) x itemsize (2, 3, 4, 8, 12, 16) x byte limits just below / above n*j elements that are NOT a multiple of the "
        "itemsize (all of them in every run) + seeded random geometries with limits around products of merged "
        "widths; the same inputs through x.rechunk(new, threshold=, block_size_limit=) on arrays of that itemsize (int, void, "
        "structured, complex dtypes), whole graph executed, every block measured in bytes; distinct = (rank, itemsize, "
        "limit % itemsize != 0, a block larger than both endpoints, multi-stage graph); unknown (nan) block sizes: a fixed sweep of "
        "17 nan position patterns x 7 known old/new pairs x axis order (+ rank 3 with two unknown axes) and seeded random rank 1-3 "
        "chunkings through old_to_new / intersect_chunks / _validate_rechunk (valid + 7 kinds of refused change) / plan_rechunk / "
        "the estimates; arrays assembled from known and boolean-masked cells (every pattern, one or two unknown axes, 5 wrappers) "
        "through x.rechunk(dict / tuple / scalar spec, kwargs); distinct = (rank, set of nan patterns, spec form, changes an "
        "unknown axis, kwargs, wrapper, outcome)"
    )
    ctx.assumptions += [
        "float-derived planner choices (sort order, chunk_limit, max_number, nsteps, count) are recorded from the real run "
        "and given to the model as oracle values; the model checks chunk_limit ≥ 1, chunk_limit·largest_block ≤ budget·width "
        "and that the order is a permutation of the merge candidates (rel=1)",
        "merge_to_number is compared on positive widths only (with zero-width entries the Python helper raises; plan_rechunk "
        "never passes such an axis since bb7113a — regression probe plan:raises:zero-width)",
        "call histories: the budget of a call is the one of the configuration in force at that call (limit argument, else "
        "array.chunk-size); a threshold / limit argument of None (or 0) means 'use the configuration'",
        "threshold, itemsize, limit are integers (the configuration values are); the termination of the `while True` loop is "
        "checked by a watchdog on every generated case, not proved",
        "unknown block sizes: a rechunk must leave an axis with nan entries exactly as it is (same length, nan-for-nan, "
        "known-for-known); a spec that asks for anything else on such an axis (int, -1 on several blocks, 'auto', another tuple) "
        "must be refused; 'auto' on a known axis beside an unknown one and balance=True may be refused",
    ]
    ctx.extra["trusted_base"] = [
        "the recording wrappers for sorted/int/round/math in the namespace of dask_array._rechunk (harness/props/C15.py)",
    ]
    if replay is not None:
        replay_case(ctx, R, replay)
        return
    ctx.exhaustive = True
    ctx.extra["exhaustive_domain"] = (
        f"old_to_new: all pairs of chunkings of n ≤ {ctx.scale(4, 5)} (zero-width chunks, ≤ {ctx.scale(3, 4)} parts, plus all "
        f"positive chunkings); divide_to_width / merge_to_number: all chunkings of n ≤ {ctx.scale(4, 5) + 2} × all widths / counts; "
        "fractional budgets: crossed n x n plans, n in (4, 6, 8, 12), widths 1-3, both directions, itemsize in (2, 3, 4, 8, 12, 16), "
        "every byte limit within one itemsize of n*j elements (j < n) that is not a multiple of the itemsize"
    )
    known_probes(ctx, R)
    helper_pairs(ctx, R)
    plan_search(ctx, R)
    fraction_search(ctx, R)
    history_search(ctx, R)
    from harness.props_ext import c15_unknown

    c15_unknown.search(ctx, R)
    if ctx.disagreements:
        targeted(ctx, R)
