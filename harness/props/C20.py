"""C20 — map_blocks block_info/block_id match the layout the call was built against.

Search (independent of the model): recording block functions `f(*blocks, block_info=None,
block_id=None)` placed in the middle of programs; layout-changing producers BELOW the call
(slices, rechunk, sliding-window reductions whose native rewrite changes the layout, concatenate,
transpose, reductions, roll) and consumers ABOVE (culling slices, rechunk, reductions, elemwise with
differently chunked arrays, transpose).  At call time the advertised layout of every input and of
the output is captured; after compute (optimized and unoptimized) every recorded invocation must
describe exactly that layout: chunk-location in the grid, array-location = extents computed by
brute force, block shape = extent lengths, block CONTENT = the input's NumPy value at that
location, num-chunks = call-time block counts, output info consistent with the advertised output
chunks; the set of chunk-locations is the whole grid unless something above culls.
For two-input calls without chunks= an HONEST block function (`FnLike`: shaped like the first input with the most
blocks along every axis, the documented default block structure) is used half of the time: the shape it produces
must be block_info[None]['chunk-shape'] (lifts a tie-break disagreement of `bi.mb` to a concrete failing call).
Keyword stream (harness/props_ext/c20_kwargs.py): every run enumerates the full product of call modes (chunks=, new_axis with
ONE or SEVERAL chunks on the created axis, implicit new axes, drop_axis, drop+new, drop+chunks) x what feeds the call (from_array /
fusable elementwise on one or all inputs / binary elementwise / rechunk) x what consumes it (nothing / elementwise / binary
elementwise / culling slice / reduction / a second recorded map_blocks), with 0-3 right-aligned inputs of MIXED rank, int /
negative / list spellings, enforce_ndim, meta, name, token, non-array positional arguments (block_info is keyed by argument
position) and block_info / block_id / both consumers; the value a block function returns also encodes the identity it was told,
so a payload looked up at another grid position changes the result even when shapes agree.  Every block of the grid must be
produced unless a slice above culls.  The advertised output chunks are compared with the documented ones.
History stream (harness/props_ext/c20_history.py): the ORDER of calls around the recorded call.  A step may carry `hist`
([[input, kind], …] done to the input collection BEFORE map_blocks is called on it: attribute reads, __dask_keys__, __dask_graph__, .dask,
compute, compute under the other optimize-graph setting, persist, to_delayed, the task-record protocol, dask.compute / persist / optimize,
Array.optimize, used in another computed expression incl. another map_blocks, or the input IS x.persist() / x.optimize() / a pickle round
trip / copy / deepcopy / freeze_chunks of a computed collection), `hist_after` (on the input after the call) and `hist_out` (on the call's
result before its consumers are built).  Every run enumerates all settings over the five producer families of the keyword stream and over a
pool of layout-drifting inputs (sliding-window reductions over ragged chunks, selections over elementwise of differently cut operands,
steered to the layouts the optimizer re-cuts with equal block counts); the oracle is unchanged.
Task-path probe: for every clean optimized program the payload `Blockwise._task` (the path taken when the call is fused) hands
to each block id is read off the expression; a lookup that is not the block's own is lifted to a real fused computation
(an elementwise op directly above the call) and reported only when that computation fails the checks above.
A call that only the payload builder refuses (the same call constructs with a function taking neither keyword) is reported as
`payload-construction-raises`.
Correspondence: Lean model (Model/BlockInfo.lean, driver `bi.*`) vs recorded payloads, the real
`map_blocks` output chunks and `ChunksFreeze.lower_once`; the keyword stream feeds the same families (drop_axis, new_axis,
chunks=, mixed ranks are all inside the model; fusion, enforce_ndim, meta, name, token are search-only).
"""
from __future__ import annotations

import itertools
import threading
import warnings
import weakref

import numpy as np

from harness import gen
from harness import programs as P

# ------------------------------------------------------------------------------ spec (brute force)


def extents(chunks_axis):
    out, s = [], 0
    for c in chunks_axis:
        out.append((s, s + int(c)))
        s += int(c)
    return out


def as_axes(v):
    """kwarg spelled as an int or as a list -> list (None stays None)"""
    if v is None:
        return None
    return [int(v)] if isinstance(v, int) else [int(a) for a in v]


def step_drop(step, nd):
    """drop_axis of a step (int / list / negative members) as sorted non-negative positions of the `nd`-d label tuple"""
    return [d % nd for d in (as_axes(step.get("drop_axis")) or [])] if nd else []


def step_new(step):
    return as_axes(step.get("new_axis"))


def arg_positions(n_arrays, scalars):
    """positions of the array arguments in the final positional argument list; `scalars` = [[position, value], …]
    (positions in the FINAL list, ascending).  block_info is keyed by these positions."""
    spos = {int(p) for p, _ in (scalars or [])}
    out, pos = [], 0
    for _ in range(n_arrays):
        while pos in spos:
            pos += 1
        out.append(pos)
        pos += 1
    return out


def id_code(block_id, out_location):
    """value contribution of the identity the block function was TOLD it has (steps with idval)"""
    c = 0
    if block_id is not None:
        c += sum(11 * (k + 1) * int(v) for k, v in enumerate(block_id))
    if out_location is not None:
        c += sum(13 * (k + 1) * int(v) for k, v in enumerate(out_location))
    return c


def expected_out_chunks(step, layouts):
    """Output chunks map_blocks must advertise (documentation): an explicit chunks= entry wins (an int is repeated
    once per block of that axis); a created axis without chunks= is one chunk of length 1; otherwise the chunks of
    the first input with the most blocks along that axis."""
    nd = max([len(l) for l in layouts], default=0)
    drop = step_drop(step, nd)
    spec = step.get("chunks")
    out_ind, new_labels = out_labels([len(l) for l in layouts], drop, step_new(step), spec)
    out = []
    for pos, lab in enumerate(out_ind):
        if lab in new_labels:
            base = None
        else:
            base = None
            for l in layouts:
                ax = len(l) - 1 - lab
                if ax >= 0 and (base is None or len(l[ax]) > len(base)):
                    base = tuple(l[ax])
        if spec is not None:
            e = spec[pos]
            if isinstance(e, (list, tuple)):
                out.append(tuple(int(v) for v in e))
            else:
                out.append((int(e),) * (1 if base is None else len(base)))
        else:
            out.append((1,) if base is None else base)
    return tuple(out)


def out_labels(ndims, drop, new_axis, chunks_spec):
    """Index labels as documented for map_blocks: inputs are aligned on their TRAILING axes; labels
    count from the last axis (0) upwards.  Returns (out_ind, new_labels)."""
    R = max(ndims) if ndims else 0
    out_ind = list(range(R))[::-1]
    out_ind = [x for i, x in enumerate(out_ind) if i not in drop]
    if new_axis is None and chunks_spec is not None and len(out_ind) < len(chunks_spec):
        new_axis = list(range(len(chunks_spec) - len(out_ind)))
    new_labels = []
    for ax in sorted(new_axis or []):
        n = len(out_ind) + len(drop)
        out_ind.insert(ax, n)
        new_labels.append(n)
    return out_ind, new_labels


def expected_input_info(layout, out_ind, bid, has_drop):
    """(shape, num-chunks, chunk-location, array-location) of one input for output block `bid`."""
    r = len(layout)
    labels = list(range(r))[::-1]
    loc = dict(zip(out_ind, bid))
    eff = []
    for c, lab in zip(layout, labels):
        if has_drop and lab not in out_ind:
            eff.append((sum(c),))
        else:
            eff.append(tuple(c))
    k = tuple(loc.get(lab, 0) if len(c) > 1 else 0 for c, lab in zip(eff, labels))
    aloc = [extents(c)[j] for c, j in zip(eff, k)]
    return tuple(sum(c) for c in layout), tuple(len(c) for c in eff), k, aloc


# ------------------------------------------------------------------------------ recording function


_UID = itertools.count()
_FN_REGISTRY = weakref.WeakValueDictionary()  # uid -> recording function (a pickled collection gets the SAME object back)


class HistoryRaises(Exception):
    """something done to an INPUT collection before / after the recorded call raised (not a map_blocks matter)"""


class OutHistoryRaises(Exception):
    """something done to the RESULT of the recorded call (keys / graph / compute / persist) raised"""


class Recorder:
    def __init__(self):
        self.lock = threading.Lock()
        self.live = False
        self.calls = []
        self.last_uid = None

    def body(self, blocks, block_info, block_id, ret_shape=None, idval=False, uid=None):
        entry = None
        if self.live:
            entry = {"blocks": [np.array(b, copy=True) for b in blocks], "block_info": block_info, "block_id": block_id, "uid": uid}
            if ret_shape is not None:
                entry["ret_shape"] = tuple(int(v) for v in ret_shape)
        # value: depends only on the delivered blocks (so a NumPy oracle can be computed from the
        # call-time layout by brute force)
        code = 0
        for i, b in enumerate(blocks):
            code += (i + 1) * int(np.asarray(b).sum())
        shp = tuple(block_info[None]["chunk-shape"]) if (block_info is not None and None in block_info) else None
        if idval:
            code += id_code(block_id, block_info[None]["chunk-location"] if (block_info is not None and None in block_info) else None)
        if entry is not None:
            with self.lock:
                self.calls.append(entry)
        return code, shp

    def make(self, kw, idval=False):
        """kw in {'info', 'id', 'both'}: which keywords the block function accepts."""
        return {"info": FnInfo, "id": FnId, "both": FnBoth, "plain": FnPlain}[kw](self, idval)


class _Fn:
    """Recording block function.  A callable object with an explicit deterministic token (a closure
    over a lock cannot be tokenized); every instance is unique so that no cached expression of an
    earlier program is reused."""

    __name__ = "recfn"

    def __init__(self, rec, idval=False):
        self.rec = rec
        self.uid = next(_UID)
        self.idval = idval  # the value also encodes the block identity the function was told
        self.out_chunks = None  # the chunks= the caller passed / the advertised output chunks (set right after the call)
        _FN_REGISTRY[self.uid] = self

    def _fallback_shape(self, blocks, block_id):
        """a function that is not told the chunk shape (block_id only): the caller knows the output chunks it asked for"""
        if self.out_chunks is not None and block_id is not None and len(block_id) == len(self.out_chunks):
            return tuple(int(c[j]) for c, j in zip(self.out_chunks, block_id))
        return np.asarray(blocks[0]).shape if blocks else ()

    def __dask_tokenize__(self):
        return (type(self).__name__, self.uid, id(self.rec))

    def __reduce__(self):  # keep the same object when a graph / collection is copied or pickled
        return (_fn_lookup, (self.uid,))


def _fn_lookup(uid):
    return _FN_REGISTRY[uid]


class FnInfo(_Fn):
    def __call__(self, *blocks, block_info=None):
        code, shp = self.rec.body(blocks, block_info, None, idval=self.idval, uid=self.uid)
        return np.full(shp if shp is not None else self._fallback_shape(blocks, None), code, dtype=np.int64)


class FnId(_Fn):
    def __call__(self, *blocks, block_id=None):
        code, shp = self.rec.body(blocks, None, block_id, idval=self.idval, uid=self.uid)
        return np.full(self._fallback_shape(blocks, block_id), code, dtype=np.int64)


class FnBoth(_Fn):
    def __call__(self, *blocks, block_info=None, block_id=None):
        code, shp = self.rec.body(blocks, block_info, block_id, idval=self.idval, uid=self.uid)
        return np.full(shp if shp is not None else self._fallback_shape(blocks, block_id), code, dtype=np.int64)


class FnPlain(_Fn):
    """block function WITHOUT block_info / block_id (used only to attribute a refusal at construction: does the same
    call construct when no payload has to be built?)"""

    def __call__(self, *blocks):
        return np.zeros(np.asarray(blocks[0]).shape if blocks else (), dtype=np.int64)


class FnLike(_Fn):
    """Honest block function of the DOCUMENTED default ("the resulting array is assumed to have the same block
    structure as the first input array"; single-block axes broadcast): whatever block_info says, it returns a block
    shaped, along every axis, like the block of the FIRST input with the most blocks along that axis.  `leaders`
    (one (input, axis) per output axis) is computed from the inputs' block COUNTS at call time, by this file."""

    def __init__(self, rec, leaders):
        super().__init__(rec, False)
        self.leaders = leaders

    def __call__(self, *blocks, block_info=None, block_id=None):
        shape = tuple(int(np.asarray(blocks[i]).shape[ax]) for i, ax in self.leaders)
        code, _ = self.rec.body(blocks, block_info, block_id, ret_shape=shape, uid=self.uid)
        return np.full(shape, code, dtype=np.int64)


def leaders_of(numblocks_per_input):
    """per output axis (trailing alignment): (input, axis) of the first input with the most blocks along it"""
    R = max(len(nb) for nb in numblocks_per_input)
    out = []
    for lab in range(R - 1, -1, -1):
        best = None
        for i, nb in enumerate(numblocks_per_input):
            ax = len(nb) - 1 - lab
            if ax >= 0 and (best is None or nb[ax] > best[0]):
                best = (nb[ax], i, ax)
        out.append((best[1], best[2]))
    return out


def mb_call(step, inputs, rec):
    """Build the real map_blocks call of a step on dask inputs."""
    import dask_array as da

    if step.get("like"):
        f = FnLike(rec, leaders_of([tuple(len(c) for c in a.chunks) for a in inputs]))
        rec.last_uid = f.uid
        return da.map_blocks(f, *inputs, dtype=np.int64)
    f = rec.make(step["kw"], bool(step.get("idval")))
    rec.last_uid = f.uid
    kwargs = {"dtype": np.int64}
    if step.get("chunks") is not None:
        kwargs["chunks"] = tuple(tuple(c) if isinstance(c, list) else int(c) for c in step["chunks"])
    if step.get("new_axis") is not None:
        na = step["new_axis"]
        kwargs["new_axis"] = int(na) if isinstance(na, int) else list(na)
    if step.get("drop_axis") is not None and step.get("drop_axis") != []:
        dr = step["drop_axis"]
        kwargs["drop_axis"] = int(dr) if isinstance(dr, int) else list(dr)
    if step.get("enforce_ndim"):
        kwargs["enforce_ndim"] = True
    if step.get("name"):
        kwargs["name"] = str(step["name"])
    if step.get("token"):
        kwargs["token"] = str(step["token"])
    if step.get("meta"):
        layouts = [a.chunks for a in inputs]
        nd = max([len(l) for l in layouts], default=0)
        out_ind, _ = out_labels([len(l) for l in layouts], step_drop(step, nd), step_new(step), step.get("chunks"))
        kwargs["meta"] = np.empty((0,) * len(out_ind), dtype=np.int64)
    args = list(inputs)
    for pos, val in step.get("scalars") or []:
        args.insert(int(pos), int(val))
    if step.get("method") and len(args) == 1:
        y = inputs[0].map_blocks(f, **kwargs)
    else:
        y = da.map_blocks(f, *args, **kwargs)
    f.out_chunks = tuple(tuple(int(v) for v in c) for c in y.chunks)
    return y


def mb_numpy(step, np_inputs, layouts, out_chunks):
    """NumPy value of the map_blocks step, by brute force from the CALL-TIME layouts."""
    nd = max([len(l) for l in layouts], default=0)
    drop = step_drop(step, nd)
    out_ind, _ = out_labels([len(l) for l in layouts], drop, step_new(step), step.get("chunks"))
    shape = tuple(sum(c) for c in out_chunks)
    y = np.zeros(shape, dtype=np.int64)
    arrpos = arg_positions(len(layouts), step.get("scalars"))
    kw = step.get("kw")
    for bid in itertools.product(*[range(len(c)) for c in out_chunks]):
        code = 0
        for i, (x, lay) in enumerate(zip(np_inputs, layouts)):
            _, _, _, aloc = expected_input_info(lay, out_ind, bid, bool(drop))
            blk = x[tuple(slice(a, b) for a, b in aloc)]
            code += (arrpos[i] + 1) * int(blk.sum())
        for pos, val in step.get("scalars") or []:
            code += (int(pos) + 1) * int(val)
        if step.get("idval"):
            code += id_code(bid if kw in ("id", "both") else None, bid if kw in ("info", "both") else None)
        osl = tuple(slice(*extents(c)[j]) for c, j in zip(out_chunks, bid))
        y[osl] = code
    return y


# ------------------------------------------------------------------------------ program evaluation


# ------------------------------------------------------------------------------ histories of a collection
#
# What was done to a collection BEFORE map_blocks is called on it (or to the input / the result AFTER the call) must not
# change what the block function is told: the layout a call is built against is the one the input advertises when the call
# is made, whether or not that collection was looked at, materialized, computed, persisted, copied or shipped before.
# Every history is value-preserving; the `*ed` kinds REPLACE the collection by the one the operation returns.

HIST_LOOK = ("chunks", "keys", "repr")  # reads that must not materialize anything
HIST_MATERIALIZE = ("graph", "dask", "compute", "compute_flip", "persist", "to_delayed", "records")  # on the collection itself
HIST_GLOBAL = ("dask.compute", "dask.persist", "dask.optimize", "optimize")  # through dask's entry points / returning a new collection
HIST_USED = ("used", "used_reduce", "used_mb", "used_mb_info")  # part of ANOTHER computed expression
HIST_REPLACE = ("persisted", "optimized", "pickled", "pickled_fresh", "copied", "deepcopied", "frozen")  # the input IS the returned object
HIST_BEFORE = ("none",) + HIST_LOOK + HIST_MATERIALIZE + HIST_GLOBAL + HIST_USED + HIST_REPLACE
HIST_AFTER = ("keys", "graph", "compute", "persist", "to_delayed", "used")  # on the input AFTER the call, before the result is computed
HIST_OUT = ("keys", "graph", "compute", "persist", "to_delayed", "chunks")  # on the RESULT of the call, before consumers are built


class _UsedPlain:
    __name__ = "usedplain"

    def __dask_tokenize__(self):
        return ("_UsedPlain",)

    def __call__(self, b):
        return b


class _UsedInfo:
    __name__ = "usedinfo"

    def __dask_tokenize__(self):
        return ("_UsedInfo",)

    def __call__(self, b, block_info=None):
        return b


def apply_history(x, kind):
    """Do `kind` to the collection x; returns the collection map_blocks is then called on (x itself unless a REPLACE kind)."""
    import copy
    import pickle

    import dask

    if kind == "none":
        return x
    if kind == "chunks":
        x.chunks, x.numblocks, x.shape, x.name, x.dtype, x.npartitions  # noqa: B018
    elif kind == "keys":
        x.__dask_keys__()
    elif kind == "repr":
        repr(x)
        x._repr_html_()
    elif kind == "graph":
        len(x.__dask_graph__())
    elif kind == "dask":
        len(x.dask)
    elif kind == "compute":
        x.compute()
    elif kind == "compute_flip":
        # materialized under the OTHER optimize setting than the one the recorded call is built and computed under
        with dask.config.set({"array.optimize-graph": not dask.config.get("array.optimize-graph", True)}):
            x.compute()
    elif kind == "persist":
        x.persist()
    elif kind == "to_delayed":
        x.to_delayed()
    elif kind == "records":
        try:
            x.__frisky_graph__()
        except (NotImplementedError, ImportError, AttributeError):
            pass
    elif kind == "dask.compute":
        dask.compute(x)
    elif kind == "dask.persist":
        dask.persist(x)
    elif kind == "dask.optimize":
        dask.optimize(x)
    elif kind == "optimize":
        x.optimize()
    elif kind == "used":
        (x + 1).compute()
    elif kind == "used_reduce":
        x.sum().compute()
    elif kind == "used_mb":
        x.map_blocks(_UsedPlain(), dtype=x.dtype).compute()
    elif kind == "used_mb_info":
        x.map_blocks(_UsedInfo(), dtype=x.dtype).compute()
    elif kind == "persisted":
        return x.persist()
    elif kind == "optimized":
        return x.optimize()
    elif kind == "pickled":
        x.compute()
        return pickle.loads(pickle.dumps(x))
    elif kind == "pickled_fresh":
        return pickle.loads(pickle.dumps(x))
    elif kind == "copied":
        x.compute()
        return copy.copy(x)
    elif kind == "deepcopied":
        x.compute()
        return copy.deepcopy(x)
    elif kind == "frozen":
        x.compute()
        return x.freeze_chunks()
    else:
        raise ValueError(f"unknown history {kind!r}")
    return x


def run_dask(prog, rec):
    """Evaluate with dask_array; returns (env, capture) where capture holds the call-time layouts."""
    import dask_array as da

    env = {}
    cap = {}
    for step in prog:
        if step["op"] == "mb_rec":
            ins = [env[a] for a in step["args"]]
            for i, kind in step.get("hist") or []:
                try:
                    ins[int(i)] = apply_history(ins[int(i)], kind)
                except Exception as e:
                    raise HistoryRaises(f"{kind!r} on input {i} before the call: {type(e).__name__}: {str(e)[:200]}") from e
            y = mb_call(step, ins, rec)
            cap[step["out"]] = {
                "layouts": [tuple(tuple(int(v) for v in c) for c in a.chunks) for a in ins],
                "shapes": [tuple(int(s) for s in a.shape) for a in ins],
                "out_chunks": tuple(tuple(int(v) for v in c) for c in y.chunks),
                "step": step,
                "uid": rec.last_uid,  # recorded invocations carry the uid of the function object of THIS call
            }
            env[step["out"]] = y
            for i, kind in step.get("hist_after") or []:
                try:
                    apply_history(ins[int(i)], kind)
                except Exception as e:
                    raise HistoryRaises(f"{kind!r} on input {i} after the call: {type(e).__name__}: {str(e)[:200]}") from e
            if step.get("hist_out"):
                try:
                    apply_history(y, step["hist_out"])
                except Exception as e:
                    raise OutHistoryRaises(f"{step['hist_out']!r} on the result of the call: {type(e).__name__}: {str(e)[:300]}") from e
        else:
            env[step["out"]] = P.apply_step(step, env, da, True)
    return env, cap


def constructs_plain(prog):
    """does the program construct when the map_blocks function takes neither block_info nor block_id?"""
    plain = [dict(st, kw="plain", like=False) if st["op"] == "mb_rec" else st for st in prog]
    try:
        with warnings.catch_warnings():
            warnings.simplefilter("ignore")
            run_dask(plain, Recorder())
    except Exception:
        return False
    return True


def run_numpy(prog, cap):
    env = {}
    for step in prog:
        if step["op"] == "mb_rec":
            c = cap[step["out"]]
            env[step["out"]] = mb_numpy(step, [env[a] for a in step["args"]], c["layouts"], c["out_chunks"])
        else:
            env[step["out"]] = P.apply_step(step, env, np, False)
    return env


# ------------------------------------------------------------------------------ checking recorded calls


def check_calls(calls, c, npenv, expect_full_grid):
    """Returns list of (signature, detail) for the calls of ONE map_blocks step."""
    step = c["step"]
    layouts, out_chunks = c["layouts"], c["out_chunks"]
    bad = []
    nd = max([len(l) for l in layouts], default=0)
    drop = step_drop(step, nd)
    out_ind, _ = out_labels([len(l) for l in layouts], drop, step_new(step), step.get("chunks"))
    grid = set(itertools.product(*[range(len(cc)) for cc in out_chunks]))
    seen = set()
    xs = [npenv[a] for a in step["args"]]
    arrpos = arg_positions(len(layouts), step.get("scalars"))
    nargs = len(layouts) + len(step.get("scalars") or [])
    for call in calls:
        bi, bid0 = call["block_info"], call["block_id"]
        bid = None
        if bi is not None and None in bi:
            bid = tuple(int(v) for v in bi[None]["chunk-location"])
        if bid0 is not None:
            b2 = tuple(int(v) for v in bid0)
            if bid is not None and b2 != bid:
                bad.append(("block_id-vs-block_info", f"block_id {b2} but block_info[None]['chunk-location'] {bid}"))
            bid = b2
        if bid is None:
            continue
        if bid not in grid:
            bad.append(("chunk-location-outside-grid", f"{bid} not in grid of advertised output chunks {out_chunks}"))
            continue
        seen.add(bid)
        if bi is not None:
            o = bi[None]
            want_loc = [extents(cc)[j] for cc, j in zip(out_chunks, bid)]
            got = {
                "shape": tuple(int(v) for v in o["shape"]), "num-chunks": tuple(int(v) for v in o["num-chunks"]),
                "array-location": [tuple(int(v) for v in p) for p in o["array-location"]],
                "chunk-shape": tuple(int(v) for v in o["chunk-shape"]),
            }
            want = {
                "shape": tuple(sum(cc) for cc in out_chunks), "num-chunks": tuple(len(cc) for cc in out_chunks),
                "array-location": want_loc, "chunk-shape": tuple(b - a for a, b in want_loc),
            }
            for k in want:
                if got[k] != want[k]:
                    bad.append((f"output-info:{k}", f"block {bid}: got {got[k]} want {want[k]} (advertised output chunks {out_chunks})"))
            if np.dtype(o["dtype"]) != np.dtype(np.int64):
                bad.append(("output-info:dtype", f"got {o['dtype']}"))
            if "ret_shape" in call and got["chunk-shape"] != call["ret_shape"]:
                # the block function follows the documented default block structure (first input with the most blocks)
                bad.append(("output-info:chunk-shape-vs-produced",
                            f"block {bid}: block_info[None]['chunk-shape'] {got['chunk-shape']} but a function shaped like the first input "
                            f"with the most blocks produces {call['ret_shape']} (call-time input layouts {layouts}, advertised output chunks {out_chunks})"))
        if len(call["blocks"]) != nargs:
            bad.append(("argument-count", f"block {bid}: function received {len(call['blocks'])} positional arguments, the call had {nargs}"))
            continue
        for pos, val in step.get("scalars") or []:
            got_s = call["blocks"][int(pos)]
            if got_s.shape != () or int(got_s) != int(val):
                bad.append(("scalar-argument", f"block {bid}: positional argument {pos} is {got_s!r}, the call passed {val}"))
            if bi is not None and int(pos) in bi:
                bad.append(("input-info:non-array-key", f"block {bid}: block_info has an entry for the non-array argument {pos}"))
        if bi is not None:
            extra = sorted(k for k in bi if k is not None and k not in arrpos)
            if extra:
                bad.append(("input-info:extra-key", f"block {bid}: block_info keys {extra} are not positions of array arguments {arrpos}"))
        for i0, (lay, x) in enumerate(zip(layouts, xs)):
            i = arrpos[i0]
            shp, nch, k, aloc = expected_input_info(lay, out_ind, bid, bool(drop))
            blk = call["blocks"][i]
            want_shape = tuple(b - a for a, b in aloc)
            if tuple(blk.shape) != want_shape:
                bad.append(("block-shape", f"input {i} block {bid}: delivered shape {tuple(blk.shape)}, call-time layout {lay} promises {want_shape}"))
            elif not np.array_equal(blk, x[tuple(slice(a, b) for a, b in aloc)]):
                bad.append(("block-content", f"input {i} block {bid}: delivered block is not the array's value at {aloc}"))
            if bi is not None:
                inf = bi.get(i)
                if inf is None:
                    bad.append(("input-info:missing", f"no block_info[{i}]"))
                    continue
                got = {
                    "shape": tuple(int(v) for v in inf["shape"]), "num-chunks": tuple(int(v) for v in inf["num-chunks"]),
                    "chunk-location": tuple(int(v) for v in inf["chunk-location"]),
                    "array-location": [tuple(int(v) for v in p) for p in inf["array-location"]],
                }
                want = {"shape": shp, "num-chunks": nch, "chunk-location": k, "array-location": aloc}
                for kk in want:
                    if got[kk] != want[kk]:
                        bad.append((f"input-info:{kk}", f"input {i} block {bid}: got {got[kk]} want {want[kk]} (call-time layout {lay})"))
    if expect_full_grid and seen != grid:
        bad.append(("grid-not-covered", f"chunk-locations seen {sorted(seen)} != grid {sorted(grid)}"))
    return bad


# ------------------------------------------------------------------------------ generation


class ChainGen(P.ProgGen):
    """ProgGen that mostly extends the most recent variable (a chain), so that producers end up
    BELOW and consumers ABOVE a designated variable."""

    focus = None
    _prev = None
    allowed = None  # consumer phase: only descendants of the map_blocks result (and fresh sources)

    def pick(self):
        if self.focus is not None and self.focus not in self.env:
            self.focus = self._prev  # ProgGen.step undid an oversized result
        if self.focus is not None and self.rng.random() < 0.85:
            return self.focus
        if self.allowed is not None:
            return self.rng.choice(sorted(v for v in self.allowed if v in self.env))
        return super().pick()

    def add(self, step, tags=()):
        out = super().add(step, tags)
        if self.focus is None or self.focus in step.get("args", []):
            self._prev = self.focus
            self.focus = out
        if self.allowed is not None:
            self.allowed.add(out)
        return out

    def step(self):
        out = super().step()
        if self.focus is not None and self.focus not in self.env:
            self.focus = self._prev
        return out

    def g_reduce_keep(self):
        a = self.pick()
        x = self.env[a]
        if x.ndim == 0:
            raise P._Skip
        ax = self.rng.randrange(x.ndim)
        return self.add({"op": "reduce", "fn": "sum", "args": [a], "axis": ax, "keepdims": True, "split_every": self.rng.choice([None, 2])})


GEN_NOTES = {}

PRODUCERS = ("getitem", "getitem", "rechunk", "rechunk", "transpose", "concatenate", "roll", "reduce_keep", "unary", "binary_new", "flip", "cumsum")
CONSUMERS = ("getitem", "getitem", "getitem", "rechunk", "reduce", "binary_new", "transpose", "unary")


def gen_case(rng):
    """Returns a program (JSON list) or None."""
    import dask_array as da

    g = ChainGen(rng, ops=PRODUCERS, maxrank=3, maxdim=7, zero_axes=0, avoid=("swv-consumer",))
    g.new_source()
    for _ in range(rng.randint(0, 3)):
        g.step()
    x = g.focus
    use_swv = rng.random() < 0.45
    if use_swv:
        xv = g.env[x]
        if xv.ndim == 0 or 0 in xv.shape:
            return None
        ax = rng.randrange(xv.ndim)
        w = rng.randint(1, xv.shape[ax])
        x = g.add({"op": "swv_reduce", "args": [x], "window": w, "axis": ax, "fn": rng.choice(["sum", "max", "min"])}, tags=("swv",))
        if rng.random() < 0.4:
            x = g.add({"op": rng.choice(["neg", "affine", "sq"]), "args": [x]})
    xv = g.env[x]
    if xv.ndim == 0 or xv.size == 0:
        return None
    # dask prefix: call-time layout of x
    rec = Recorder()
    with warnings.catch_warnings():
        warnings.simplefilter("ignore")
        try:
            denv, _ = run_dask(g.prog, rec)
            xl = tuple(tuple(int(v) for v in c) for c in denv[x].chunks)
        except Exception as e:
            # the producers themselves are refused at construction (e.g. sliding_window_view over a
            # zero-length chunk left by a strided slice): not a map_blocks matter
            GEN_NOTES["prefix_construction_raises:" + type(e).__name__] = GEN_NOTES.get("prefix_construction_raises:" + type(e).__name__, 0) + 1
            return None
    if any(0 in c for c in xl):
        return None
    step = {"op": "mb_rec", "args": [x], "kw": rng.choice(["info", "both", "both", "id"]), "method": rng.random() < 0.4}
    r = rng.random()
    nd = xv.ndim
    if r < 0.3:
        # second input: trailing-aligned, per axis one block or as many blocks as x
        k = rng.randint(1, nd)
        shp, cks = [], []
        for c in xl[nd - k:]:
            m = rng.random()
            if m < 0.35:
                n = rng.randint(1, 4)
                shp.append(n)
                cks.append([n])
            elif m < 0.7:
                shp.append(sum(c))
                cks.append(list(c))
            else:
                sizes = [rng.randint(1, 3) for _ in c]
                shp.append(sum(sizes))
                cks.append(sizes)
        ysrc = {"op": "src", "shape": shp, "chunks": cks, "mul": rng.choice([1, 3]), "off": rng.randint(-2, 2), "mod": rng.choice([1 << 40, 7])}
        yname = g.add(ysrc)
        step["args"] = [x, yname] if rng.random() < 0.7 else [yname, x]
        step["method"] = False
        m2 = rng.random()
        if m2 < 0.45:
            step["like"] = True  # honest first-input-shaped function: the advertised output layout must be what it produces
            step["kw"] = "both"
        elif m2 < 0.7 and nd >= 2:
            # drop_axis with inputs of different rank (labels, not positions, decide what is concatenated)
            step["drop_axis"] = [rng.randrange(nd)]
    elif r < 0.45 and nd >= 2:
        step["drop_axis"] = [rng.randrange(nd)]
    elif r < 0.6 and nd <= 2:
        ax = rng.randint(0, nd)
        step["new_axis"] = [ax]
        if rng.random() < 0.5:
            # explicit chunks for all axes incl. the new one
            spec = [list(c) for c in xl]
            # the created axis: one chunk (int) or SEVERAL chunks (tuple)
            spec.insert(ax, rng.choice([1, 2, 3]) if rng.random() < 0.4 else [rng.randint(1, 3) for _ in range(rng.choice([2, 2, 3]))])
            step["chunks"] = spec
    elif r < 0.8:
        spec = []
        for c in xl:
            m = rng.random()
            if m < 0.4:
                spec.append(rng.randint(1, 4))
            elif m < 0.7:
                spec.append([rng.randint(1, 4) for _ in c])
            else:
                spec.append(list(c))
        step["chunks"] = spec
    if step["kw"] == "id" and (len(step["args"]) > 1 or step.get("chunks") is not None or step.get("new_axis") is not None or step.get("drop_axis")):
        step["kw"] = "both"  # an id-only function cannot know the output chunk shape
    step["out"] = g.fresh()
    # evaluate the call for its call-time layouts and the NumPy value
    with warnings.catch_warnings():
        warnings.simplefilter("ignore")
        try:
            denv, cap = run_dask(g.prog + [step], Recorder())
        except Exception:
            if constructs_plain(g.prog + [step]):
                # only the block_info/block_id payload builder refuses this call: evaluate() reports it
                return g.prog + [step], None, step["out"]
            return None
    c = cap[step["out"]]
    try:
        y = mb_numpy(step, [g.env[a] for a in step["args"]], c["layouts"], c["out_chunks"])
    except Exception:
        return None
    g.prog.append(step)
    g.env[step["out"]] = y
    g.tags[step["out"]] = set().union(*[g.tags.get(a, set()) for a in step["args"]]) | {"map_blocks"}
    g.focus = step["out"]
    g.ops = CONSUMERS
    g.allowed = {step["out"]}
    # a consumer that captures layout must not sit on a sliding-window result: everything above goes through map_blocks
    # (frozen by design), so the swv tag stops here
    g.tags[step["out"]] = {"map_blocks"}
    for _ in range(rng.choice([0, 1, 1, 2, 3])):
        g.step()
    prog = g.prog
    if any(v.size == 0 for v in g.env.values()):
        return None
    return prog, g.env, g.focus


DRIFT_KINDS = ("swv", "swv", "elem-rev", "elem-step", "elem-take")


def drift_producer(rng, kind, cross=None):
    """(program, name of its result): a candidate whose optimized block layout may differ from the advertised one
    (`kind` in DRIFT_KINDS; `cross` = length of a second, untouched axis, 0 for 1-d)."""
    from harness.props_ext import c03_layout as L

    if cross is None:
        cross = rng.choice([0, 0, 2, 3])
    axis = rng.choice([0, 1]) if cross else 0
    if kind == "swv":
        w = rng.randint(2, 5)
        c = L._swv_chunks(rng, w) or L._comp(rng, 12, 4)
        n = sum(c)
        cc = L._comp(rng, cross, rng.choice([1, 2])) if cross else None
        shape, chunks = ([n], [c]) if not cross else (([n, cross], [c, cc]) if axis == 0 else ([cross, n], [cc, c]))
        prog = [{"out": "v1", "op": "src", "shape": shape, "chunks": chunks, "mul": rng.choice([1, 3]), "off": rng.randint(0, 3), "mod": 1 << 40},
                {"out": "v2", "op": "swv_reduce", "args": ["v1"], "window": w, "axis": axis, "fn": rng.choice(["sum", "max", "min"])}]
        return prog, "v2"
    n = rng.randint(5, 14)
    k = rng.randint(2, min(5, n))
    ca = L._comp(rng, n, k)
    cb = L._other_comp(rng, n, k, [ca])
    cc = L._comp(rng, cross, rng.choice([1, 2])) if cross else None

    def lay(c):
        return ([n], [c]) if not cross else (([n, cross], [c, cc]) if axis == 0 else ([cross, n], [cc, c]))

    (sa, cha), (sb, chb) = lay(ca), lay(cb)
    if kind == "elem-rev":
        sel = ["s", None, None, -1]
    elif kind == "elem-step":
        sel = ["s", rng.choice([None, 1]), None, rng.choice([2, -2, 3])]
    else:
        sel = ["l", [rng.randrange(n) for _ in range(rng.randint(2, n + 2))]]
    index = [sel] if axis == 0 else [["s", None, None, None], sel]
    prog = [{"out": "v1", "op": "src", "shape": sa, "chunks": cha, "mul": 1, "off": 0, "mod": 1 << 40},
            {"out": "v2", "op": "src", "shape": sb, "chunks": chb, "mul": 3, "off": 1, "mod": 1 << 40},
            {"out": "v3", "op": rng.choice(["add", "maximum", "sub"]), "args": ["v1", "v2"]},
            {"out": "v4", "op": "getitem", "args": ["v3"], "index": index}]
    return prog, "v4"


def steered_drift_producer(rng, kind, want="same-count", tries=25, cross=None):
    """drift_producer retried until the optimizer settles on class `want` for it (steering only; None when none found).
    Returns (program, result name, drift class)."""
    from harness.props_ext import c03_layout as L

    last = None
    for _ in range(tries):
        prog, x = drift_producer(rng, kind, cross)
        with warnings.catch_warnings():
            warnings.simplefilter("ignore")
            try:
                denv, _ = run_dask(prog, Recorder())
                cls = L.drift_class(denv[x])
            except Exception:  # noqa: BLE001
                continue
        if denv[x].size == 0 or any(0 in c for c in denv[x].chunks):
            continue
        last = (prog, x, cls)
        if cls == want:
            return last
    return last


def frozen_layout_cases(rng, n_cases, tries=400):
    """Programs whose map_blocks input is an expression the OPTIMIZER settles on another block layout than the advertised one
    with the SAME number of blocks per axis (any layout comparison by counts / totals lets it through, and the frozen
    block_info then describes other blocks than the ones delivered): sliding-window reductions over ragged chunkings with
    interior chunks one shorter than the window, and selections (reversal, stepped slices, integer lists) over an elementwise
    combination of two operands with equal block counts and different cuts.  Candidates are steered (not judged) by the
    layout the optimizer settles on (harness/props_ext/c03_layout.drift_class); a quarter is unsteered.
    Yields (prog, root, key)."""
    from harness.props_ext import c03_layout as L

    made = 0
    for _ in range(tries):
        if made >= n_cases:
            break
        kind = rng.choice(DRIFT_KINDS)
        prog, x = drift_producer(rng, kind)
        with warnings.catch_warnings():
            warnings.simplefilter("ignore")
            try:
                denv, _ = run_dask(prog, Recorder())
                cls = L.drift_class(denv[x])
            except Exception:  # noqa: BLE001
                continue
        if denv[x].size == 0 or any(0 in c for c in denv[x].chunks):
            continue
        if cls != "same-count" and made % 4 != 3:
            continue
        made += 1
        step = {"op": "mb_rec", "args": [x], "kw": rng.choice(["info", "both", "both", "id"]), "method": rng.random() < 0.5, "out": "m1"}
        if step["kw"] != "id" and rng.random() < 0.3:
            step["idval"] = True
        prog = prog + [step]
        root = "m1"
        above = rng.choice(["none", "none", "neg", "sum"])
        if above == "neg":
            prog.append({"out": "m2", "op": "neg", "args": ["m1"]})
            root = "m2"
        elif above == "sum":
            prog.append({"out": "m2", "op": "reduce", "fn": "sum", "args": ["m1"], "axis": 0, "keepdims": False, "split_every": None})
            root = "m2"
        yield prog, root, ("frozen-layout", kind, cls, step["kw"], above)


def describe(prog):
    out = []
    for st in prog:
        d = {k: v for k, v in st.items() if k not in ("out", "op", "args")}
        out.append(f"{st['out']}={st['op']}({','.join(st.get('args', []))}{', ' if d and st.get('args') else ''}{d if d else ''})")
    return "; ".join(out)


def classify_known(prog, message):
    """Message-based membership in the documented family `swv-layout-drift` (programs.classify_known
    cannot evaluate the `mb_rec` step).  Only a program whose sliding-window reduction feeds something
    OTHER than the frozen map_blocks input can be in that family; the generator never builds one, so
    a hit here on a generated program would be a genuine map_blocks failure and is NOT reclassified."""
    anc = P.prog_ancestry(prog)
    drift_msgs = ("Missing dependency ('sliding-window-", "adjust_chunks specified with")
    if not any(t in message for t in drift_msgs):
        return None
    for st in prog:
        if st["op"] in ("mb_rec", "swv_reduce") or st["op"] in P.UNARY:
            continue
        up = set().union(*[anc.get(a, set()) for a in st.get("args", [])]) if st.get("args") else set()
        if "swv_reduce" in up and "mb_rec" not in up:
            return "swv-layout-drift"
    return None


def probe_task_path(y, out_chunks):
    """The payload the per-block task path (`Blockwise._task`, used when the call is fused with a neighbour) looks up
    for every block id of the advertised grid.  Returns None when that path does not apply to this call (concatenation
    along dropped axes is never fused; internals renamed), else a list of (block id, description) where the looked-up
    block_id / block_info[None]['chunk-location'] is not the block id asked for.  A probe only: a mismatch is lifted to
    a real fused computation by `evaluate` before anything is reported."""
    expr = getattr(y, "expr", None)
    if expr is None or not hasattr(expr, "_task") or getattr(expr, "concatenate", False):
        return None
    bad = []
    try:
        for bid in itertools.product(*[range(len(c)) for c in out_chunks]):
            t = expr._task((expr._name,) + tuple(bid), tuple(bid))
            a = list(t.args)
            k = next((i for i, v in enumerate(a) if isinstance(v, tuple) and v and all(isinstance(n, str) for n in v)
                      and set(v) <= {"block_id", "block_info", "_overlap_trim_info"}), None)
            if k is None:
                return None
            for name, payload in zip(a[k], a[k + 1:]):
                if name == "block_id" and tuple(payload) != tuple(bid):
                    bad.append((bid, f"task path hands block_id {tuple(payload)} to block {bid}"))
                if name == "block_info" and tuple(payload[None]["chunk-location"]) != tuple(bid):
                    bad.append((bid, f"task path hands the block_info of block {tuple(payload[None]['chunk-location'])} to block {bid}"))
    except NotImplementedError:
        return None
    except Exception:
        return None
    return bad


def _attribute_compute_failure(prog, msg, info):
    """(signature, detail) of a computation of the recorded call's result (or of something above it) that raised"""
    k = classify_known(prog, msg)
    if k is None:
        # does an INPUT of the map_blocks call already fail to compute on its own?  Then the
        # failure lies below the call (not a block_info matter)
        anc0 = P.prog_ancestry(prog)
        for st in prog:
            if st["op"] != "mb_rec":
                continue
            for a in st["args"]:
                if "mb_rec" in anc0.get(a, set()) or any(s3["out"] == a and s3["op"] == "mb_rec" for s3 in prog):
                    continue  # fed by another recorded call: its failure IS a map_blocks matter
                try:
                    run_dask(prog[: prog.index(st)], Recorder())[0][a].compute()
                except Exception as e2:
                    m2 = f"{type(e2).__name__}: {str(e2)[:200]}"
                    drift = any(t in m2 for t in ("Missing dependency ('sliding-window-", "adjust_chunks specified with"))
                    has_swv = any(s2["op"] == "swv_reduce" for s2 in prog)
                    info["producer_fails"] = m2
                    return ("swv-layout-drift" if (drift and has_swv) else "producer-raises", f"input {a} alone: {m2}")
    return (k or "compute-raises", msg)


def evaluate(prog, root, opt, probe=True):
    """Run one program under one optimize setting.  Returns (problems, info) with problems a list of
    (signature, detail)."""
    import dask

    rec = Recorder()
    problems = []
    info = {}
    with warnings.catch_warnings():
        warnings.simplefilter("ignore")
        with dask.config.set({"array.optimize-graph": opt}):
            try:
                denv, cap = run_dask(prog, rec)
            except HistoryRaises as e:
                # what was done to an INPUT collection raised on its own (no block function involved): below the call
                info["producer_fails"] = str(e)
                return [("producer-raises", f"history {e}")], info
            except OutHistoryRaises as e:
                return [_attribute_compute_failure(prog, str(e), info)], info
            except Exception as e:
                msg = f"{type(e).__name__}: {str(e)[:200]}"
                # attribution: does the very same call construct with a function that takes neither block_info nor
                # block_id?  Then building the payload is what raises (the payload builder indexes a layout other than
                # the one it was given); otherwise the call as such is refused (not a block_info matter)
                if not constructs_plain(prog):
                    return [("construction-raises", msg)], info
                return [("payload-construction-raises", msg + " (the same call with a function that takes no block_info/block_id constructs)")], info
            npenv = run_numpy(prog, cap)
            rec.live = True
            try:
                got = denv[root].compute()
            except Exception as e:
                rec.live = False
                return [_attribute_compute_failure(prog, f"{type(e).__name__}: {str(e)[:300]}", info)], info
            rec.live = False
    mbs = [st for st in prog if st["op"] == "mb_rec"]
    info["calls"] = len(rec.calls)
    info["cap"] = cap
    info["npenv"] = npenv
    info["rec"] = rec
    for st in mbs:
        # nothing above the call selects part of it (only a getitem can cull): every block of the grid must be produced
        above = prog[prog.index(st) + 1:]
        expect_full = not any(s2["op"] in ("getitem", "boolmask_1d") for s2 in above)
        c = cap[st["out"]]
        if not st.get("like"):
            try:
                want_oc = expected_out_chunks(st, c["layouts"])
            except Exception:
                want_oc = None
            if want_oc is not None and want_oc != c["out_chunks"]:
                problems.append(("advertised-output-chunks", f"map_blocks advertises chunks {c['out_chunks']}; documented: {want_oc} (input layouts {c['layouts']}, "
                                 f"chunks={st.get('chunks')}, new_axis={st.get('new_axis')}, drop_axis={st.get('drop_axis')})"))
        problems += check_calls([cl for cl in rec.calls if cl.get("uid") == c["uid"]], c, npenv, expect_full)
    want = npenv[root]
    if np.asarray(got).shape != want.shape or not np.array_equal(got, want):
        problems.append(("program-value", f"result differs from the NumPy value computed from the call-time layout: got {np.asarray(got).tolist()!r:.150} want {want.tolist()!r:.150}"))
    if not problems and opt and probe:
        # targeted: the per-block task path of every recorded call is probed for all block ids; a suspicious lookup is
        # lifted to a real computation in which the call IS fused (an elementwise op directly above it)
        for st in mbs:
            pb = probe_task_path(denv[st["out"]], cap[st["out"]]["out_chunks"])
            if pb is None:
                info["task_path_probe"] = info.get("task_path_probe", "n/a")
                continue
            info["task_path_probe"] = "probed"
            if not pb:
                continue
            i = prog.index(st)
            lifted = [dict(s2) for s2 in prog[: i + 1]] + [{"out": st["out"] + "f", "op": "neg", "args": [st["out"]]}]
            try:
                pr2, _ = evaluate(lifted, st["out"] + "f", True, probe=False)
            except Exception:
                pr2 = []
            if pr2:
                info["lifted"] = (lifted, st["out"] + "f")
                return [(sg, d + f"  [found by probing Blockwise._task: {pb[0][1]}]") for sg, d in pr2], info
            info["task_path_probe"] = "mismatch-not-confirmed: " + pb[0][1]
    return problems, info


# ------------------------------------------------------------------------------ correspondence helpers


def f_nl(l):
    l = list(l)
    return "_" if not l else ",".join(str(int(v)) for v in l)


def f_ll(ll):
    ll = list(ll)
    return "-" if not ll else ";".join(f_nl(l) for l in ll)


def f_loc(loc):
    loc = list(loc)
    return "_" if not loc else ",".join(f"{int(a)}:{int(b)}" for a, b in loc)


def f_spec(spec):
    if spec is None or len(spec) == 0:
        # chunks=() is only accepted for a 0-d result, where it means the same as chunks=None (in the code and in the
        # model: `mapBlocks` with `some []`); the line protocol has no token for an empty spec
        return "N"
    return ";".join(f"i{int(c)}" if not isinstance(c, (list, tuple)) else f_nl(c) for c in spec)


def corr_from_calls(step, c, calls):
    """correspondence pairs from recorded payloads of one map_blocks step"""
    pairs = []
    layouts = c["layouts"]
    nd = max([len(l) for l in layouts], default=0)
    drop = step_drop(step, nd)
    new = step_new(step)
    arrpos = arg_positions(len(layouts), step.get("scalars"))
    head = f"{f_nl(drop)} {'N' if new is None else f_nl(new)} {f_spec(step.get('chunks'))}"
    tail = " ".join(f_ll(l) for l in layouts)
    pairs.append((f"bi.mb {head} {tail}", None))  # impl filled by caller (needs out_ind): compare out chunks only
    for call in calls:
        bi = call["block_info"]
        if bi is None or None not in bi:
            continue
        o = bi[None]
        bid = tuple(int(v) for v in o["chunk-location"])
        pairs.append((f"bi.info {f_ll(c['out_chunks'])} {f_nl(bid)}",
                      f"ok loc={f_loc(o['array-location'])} shape={f_nl(o['chunk-shape'])} num={f_nl(o['num-chunks'])}"))
        parts = []
        for i in arrpos:
            inf = bi[i]
            parts.append(f"{f_nl(inf['chunk-location'])} {f_loc(inf['array-location'])} {f_nl(inf['num-chunks'])} {f_nl(call['blocks'][i].shape)}")
        parts.append(f"{f_loc(o['array-location'])} {f_nl(o['num-chunks'])} {f_nl(o['chunk-shape'])}")
        pairs.append((f"bi.mb_in {head} {f_nl(bid)} {tail}", "ok " + " | ".join(parts)))
    return pairs


def correspondence_static(ctx):
    """bi.info on random layouts vs a direct map_blocks run; bi.freeze vs ChunksFreeze.lower_once."""
    import dask_array as da
    from dask_array._expr import ChunksFreeze

    rng = ctx.rng
    pairs = []
    with warnings.catch_warnings():
        warnings.simplefilter("ignore")
        for _ in range(ctx.scale(25, 250)):
            nd = rng.randint(1, 3)
            shape = tuple(rng.randint(1, 6) for _ in range(nd))
            cks = P.rand_chunks_nd(rng, shape, zeros=0.15)
            x = da.from_array(np.arange(int(np.prod(shape))).reshape(shape), chunks=cks)
            rec = Recorder()
            y = da.map_blocks(rec.make("both"), x, dtype=np.int64)
            rec.live = True
            y.compute()
            rec.live = False
            for call in rec.calls:
                inf = call["block_info"][0]
                bid = tuple(inf["chunk-location"])
                pairs.append((f"bi.info {f_ll(cks)} {f_nl(bid)}",
                              f"ok loc={f_loc(inf['array-location'])} shape={f_nl(call['blocks'][0].shape)} num={f_nl(inf['num-chunks'])}"))
        ctx.correspond("block_info(single input)", pairs, branch_key=lambda req, out: (out[:2], req.count(";"), "0" in req.split()[1].split(",")))
        # ChunksFreeze.lower_once: settled layout = the child's own layout, frozen = another layout of the same shape
        pairs = []
        for _ in range(ctx.scale(150, 1500)):
            nd = rng.randint(1, 2)
            shape = tuple(rng.randint(1, 6) for _ in range(nd))
            settled = P.rand_chunks_nd(rng, shape)
            frozen = settled if rng.random() < 0.3 else P.rand_chunks_nd(rng, shape)
            x = da.from_array(np.zeros(shape), chunks=settled)
            fz = ChunksFreeze(x.expr, frozen)
            low = fz.lower_once({})
            # lower the result completely to read the layout the graph will have
            kind = "rechunk" if "rechunk" in type(low).__name__.lower() or "rechunk" in low._name else "child"
            pairs.append((f"bi.freeze {f_ll(settled)} {f_ll(frozen)}", f"ok {kind} {f_ll(low.chunks)}"))
        ctx.correspond("ChunksFreeze.lower_once", pairs, branch_key=lambda req, out: (out[:9], req.count(";")))


# ------------------------------------------------------------------------------ entry


def run(ctx, replay=None):
    import dask_array as da

    rng = ctx.rng
    ctx.rule = (
        "random programs: chain of layout-changing producers (slice/rechunk/transpose/concatenate/roll/reduce/"
        "sliding-window reduction) -> map_blocks with a recording function (1-2 inputs, drop_axis/new_axis/chunks=, "
        "block_info/block_id/both; for 2 inputs also an honest function shaped like the first input with the most blocks whose "
        "produced block shape must equal block_info[None]['chunk-shape']) -> 0-3 consumers (culling slice/rechunk/reduce/elemwise with a differently chunked array/"
        "transpose); each under optimize-graph True and False; distinct by (producer kinds, call variant, consumer kinds, optimize).  "
        "Keyword stream (props_ext/c20_kwargs.py): per round the full product {plain, chunks=, new_axis, new_axis with several chunks on the created "
        "axis, implicit new axes, drop_axis, drop+new, drop+new multi-chunk, drop+chunks} x {from_array, elementwise below one/all inputs, binary "
        "elementwise below, rechunk below} x {nothing, elementwise, binary elementwise, culling slice, reduction, elementwise+slice, a second recorded "
        "map_blocks} above; 0-3 right-aligned inputs of rank 1-3 incl. mixed ranks, int/negative/list spellings, enforce_ndim, meta, name, token, "
        "non-array positional arguments, block_info/block_id/both; the block value encodes the identity the function was told; quick 2 rounds.  "
        "Frozen-layout stream: the map_blocks input is a sliding-window reduction over a ragged chunking with interior chunks one shorter than "
        "the window, or a reversal / stepped slice / integer-list selection over an elementwise combination of operands with equal block counts "
        "and different cuts, steered so that the optimizer settles on the advertised block COUNTS with other block SIZES; distinct by (kind, "
        "drift class, keywords, consumer, optimize).  "
        "History stream (props_ext/c20_history.py): per round every setting of {before the call on an input: none, chunks/keys/repr reads, "
        "__dask_graph__, .dask, compute, compute under the other optimize setting, persist, to_delayed, task records, dask.compute/persist/optimize, "
        "Array.optimize, used in x+1 / x.sum() / another map_blocks (with and without block_info) that was computed, input replaced by x.persist() / "
        "x.optimize() / pickle round trip (computed or fresh) / copy / deepcopy / freeze_chunks; after the call on an input: keys, graph, compute, "
        "persist, to_delayed, used; on the call's result before consumers: keys, graph, compute, persist, to_delayed, chunks} x {a pool of steered "
        "layout-drifting producers: 1-d and 2-d sliding-window reductions over ragged chunks, reversal / stepped slice / integer list over an "
        "elementwise combination of differently cut operands; one keyword-stream program (modes x below x above drawn from decks, history on one "
        "or all inputs)}; every materializing setting runs over the whole pool; distinct by (when, history, producer, drift class / mode, consumer, optimize)"
    )
    ctx.assumptions = [
        "the layout 'advertised when the call was made' is x.chunks of every input and y.chunks of the result, read right after the call",
        "calls made outside compute() (meta inference) are ignored",
        "index-label alignment of multiple inputs (trailing axes) is taken from the map_blocks documentation (brute-force spec in this file)",
        "a call that only the block_info/block_id payload builder refuses (the same call with a function taking neither keyword constructs) "
        "is reported as payload-construction-raises; a call refused either way is not a C20 matter",
        "histories are value-preserving operations; one that raises on its own on an INPUT collection is a matter below the call (noted as "
        "producer-raises, not reported); one on the RESULT of the call that raises is reported like a failing compute of the call",
        "the fused task path (Blockwise._task / FusedBlockwise payload lookup) and enforce_ndim/meta/name/token are covered by the search only; "
        "the Lean model (bi.*) covers labels, output chunks and the per-input / output payload for drop_axis, new_axis, chunks= and mixed ranks",
    ]
    if replay is not None and replay.get("case", {}).get("grid"):  # harness/props_ext/c02_grid.py
        from harness.props_ext import c02_grid
        return c02_grid.run_grid(ctx, replay)
    if replay is not None:
        prog = replay["case"]["prog"]
        root = replay["case"]["root"]
        opt = replay["case"]["opt"]
        problems, _ = evaluate(prog, root, opt)
        ctx.count(("replay",))
        for sig, detail in problems[:3]:
            ctx.fail(sig, {"prog": prog, "root": root, "opt": opt, "program": describe(prog), "detail": detail}, detail)
        return

    correspondence_static(ctx)
    # block_info / block_id / block-extent observers over pushdown targets incl. map_overlap (grid contract)
    from harness.props_ext import c02_grid
    c02_grid.run_grid(ctx)

    # corpus: the documented failure of the layout contract
    # (reduction(sliding_window_view(x)).map_blocks(f, chunks=(1,1)) with a block_info consumer)
    corpus = [
        [{"out": "v1", "op": "src", "shape": [6, 5], "chunks": [[2, 2, 2], [3, 2]], "mul": 1, "off": 0, "mod": 1 << 40},
         {"out": "v2", "op": "swv_reduce", "args": ["v1"], "window": 3, "axis": 0, "fn": "sum"},
         {"out": "v3", "op": "mb_rec", "args": ["v2"], "kw": "info", "method": True, "chunks": [1, 1]}],
        [{"out": "v1", "op": "src", "shape": [4, 5], "chunks": [[2, 2], [3, 2]], "mul": 1, "off": 0, "mod": 1 << 40},
         {"out": "v2", "op": "swv_reduce", "args": ["v1"], "window": 2, "axis": 1, "fn": "max"},
         {"out": "v3", "op": "mb_rec", "args": ["v2"], "kw": "both", "method": False},
         {"out": "v4", "op": "getitem", "args": ["v3"], "index": [["s", 1, None, None], ["s", None, 2, None]]}],
    ]
    NP = ctx.scale(330, 4000)
    import time as _time

    t_search = _time.time()
    corr_pairs = []
    mb_pairs = []
    n_done = 0
    def process(prog, root, key, opts=(True, False)):
        mbst = next(s for s in prog if s["op"] == "mb_rec")
        i_mb = prog.index(mbst)
        if key is None:
            kinds_below = tuple(sorted({st["op"] for st in prog[:i_mb]}))
            variant = (mbst["kw"], bool(mbst.get("like")), len(mbst["args"]), bool(mbst.get("drop_axis")), mbst.get("new_axis") is not None, mbst.get("chunks") is not None)
            above = tuple(st["op"] for st in prog[i_mb + 1:] if st["op"] != "src")
            key = (kinds_below[-3:], variant, above)
        for opt in opts:
            problems, info = evaluate(prog, root, opt)
            ctx.count(key + (opt,), n=max(1, info.get("calls", 1)))
            if n_done <= 3 or (key and key[0] in ctx_samples and ctx_samples[key[0]] < 3):
                if key and key[0] in ctx_samples:
                    ctx_samples[key[0]] += 1
                ctx.sample({"program": describe(prog), "opt": opt, "calls": info.get("calls")})
            if str(info.get("task_path_probe", "")).startswith("mismatch-not-confirmed"):
                ctx.notes["task_path_probe_mismatch_not_confirmed"] = ctx.notes.get("task_path_probe_mismatch_not_confirmed", 0) + 1
                ctx.notes.setdefault("task_path_probe_mismatch.example", describe(prog) + " :: " + info["task_path_probe"])
            if info.get("task_path_probe") == "probed":
                ctx.notes["task_path_probed_calls"] = ctx.notes.get("task_path_probed_calls", 0) + 1
            if problems and problems[0][0] == "producer-raises":
                ctx.notes["producer-raises(not C20)"] = ctx.notes.get("producer-raises(not C20)", 0) + 1
                ctx.notes.setdefault("producer-raises.example", describe(prog) + " :: " + problems[0][1])
                problems = []
            if problems:
                sig, detail = problems[0]
                fprog, froot = info.get("lifted", (prog, root))
                case = {"prog": fprog, "root": froot, "opt": opt, "program": describe(fprog), "detail": detail, "all": [p[0] for p in problems[:6]]}
                sig_seen[sig] = sig_seen.get(sig, 0) + 1
                if sig not in ("swv-layout-drift",) and sig_seen[sig] <= 3:  # shrinking re-runs the program many times
                    small = shrink(fprog, froot, opt, sig)
                    if small is not None:
                        case.update({"prog": small[0], "root": small[1], "program": describe(small[0])})
                ctx.fail(sig, case, detail)
            elif "rec" in info and len(corr_pairs) < corr_cap["limit"]:
                c = info["cap"][mbst["out"]]
                prs = corr_from_calls(mbst, c, [cl for cl in info["rec"].calls if cl.get("uid") == c["uid"]])
                # first pair: output chunks of the real call
                req = prs[0][0]
                nd = max([len(l) for l in c["layouts"]], default=0)
                out_ind, _ = out_labels([len(l) for l in c["layouts"]], step_drop(mbst, nd), step_new(mbst), mbst.get("chunks"))
                mb_pairs.append((req, f"ok ind={f_nl(out_ind)} out={f_ll(c['out_chunks'])}"))
                corr_pairs.extend(prs[1:])

    ctx_samples = {"kw": 0, "hist": 0}
    sig_seen = {}
    corr_cap = {"limit": ctx.scale(1500, 20000)}
    todo = [(p, p[-1]["out"]) for p in corpus]
    tries = 0
    while n_done < NP + len(corpus):
        if _time.time() - t_search > ctx.scale(40, 480) or ctx.elapsed() > ctx.scale(110, 560):
            ctx.notes["search_stopped_early_at_program"] = n_done
            break
        if todo:
            prog, root = todo.pop(0)
        else:
            tries += 1
            if tries > NP * 6:
                break
            try:
                with warnings.catch_warnings():
                    warnings.simplefilter("ignore")
                    r = gen_case(rng)
            except P._Skip:
                r = None
            if r is None:
                continue
            prog, npenv0, root = r
        n_done += 1
        process(prog, root, None)
    # ---- inputs whose optimized layout keeps the advertised block COUNTS and changes the block SIZES (steered)
    t_fl = _time.time()
    n_fl = 0
    fl_classes = {}
    for prog, root, key in frozen_layout_cases(rng, ctx.scale(16, 300), tries=ctx.scale(400, 6000)):
        if _time.time() - t_fl > ctx.scale(8, 120):
            break
        n_fl += 1
        fl_classes[key[2]] = fl_classes.get(key[2], 0) + 1
        process(prog, root, key)
    ctx.notes["frozen_layout_programs"] = n_fl
    for k, v in sorted(fl_classes.items()):
        ctx.notes["frozen_layout_programs." + k] = v
    ctx.notes["frozen_layout_seconds"] = round(_time.time() - t_fl, 1)
    # ---- the order of calls around the recorded call: histories of the input / the result (harness/props_ext/c20_history.py)
    from harness.props_ext import c20_history
    t_h = _time.time()
    n_h = 0
    corr_cap["limit"] = len(corr_pairs) + ctx.scale(1500, 10000)
    for prog, root, key, opts in c20_history.cases(rng, ctx.scale(1, 6)):
        if _time.time() - t_h > ctx.scale(20, 200) or ctx.elapsed() > ctx.scale(100, 565):
            ctx.notes["history_stream_stopped_early_at_program"] = n_h
            break
        n_h += 1
        process(prog, root, key, opts)
    ctx.notes["history_programs"] = n_h
    ctx.notes["history_seconds"] = round(_time.time() - t_h, 1)
    for k, v in c20_history.NOTES.items():
        ctx.notes["histgen." + k] = v
    # ---- the kwarg space of map_blocks jointly with fusion context (harness/props_ext/c20_kwargs.py)
    from harness.props_ext import c20_kwargs
    t_kw = _time.time()
    n_kw = 0
    corr_cap["limit"] = len(corr_pairs) + ctx.scale(6000, 40000)
    for prog, root, key in c20_kwargs.cases(rng, ctx.scale(2, 10)):
        if _time.time() - t_kw > ctx.scale(38, 300) or ctx.elapsed() > ctx.scale(110, 570):
            ctx.notes["kwargs_stream_stopped_early_at_program"] = n_kw
            break
        n_kw += 1
        process(prog, root, key)
    ctx.notes["kwargs_programs"] = n_kw
    ctx.notes["kwargs_seconds"] = round(_time.time() - t_kw, 1)
    ctx.notes["random_stream_seconds"] = round(t_kw - t_search, 1)
    for k, v in c20_kwargs.NOTES.items():
        ctx.notes["kwgen." + k] = v
    ctx.notes["programs"] = n_done
    for k, v in GEN_NOTES.items():
        ctx.notes["gen." + k] = v
    if mb_pairs:
        ctx.correspond("map_blocks(out chunks)", list(dict.fromkeys(mb_pairs)), branch_key=lambda req, out: (out[:3], req.split()[1] != "_", req.split()[2] != "N", req.split()[3] != "N"))
    if corr_pairs:
        corr_pairs = list(dict.fromkeys(corr_pairs))
        ctx.correspond("block_info(recorded)", corr_pairs, branch_key=lambda req, out: (req.split()[0], out.count("|"), req.split()[1] != "_" if req.startswith("bi.mb_in") else 0))


def shrink(prog, root, opt, sig):
    """drop consumers / producers while the same signature fails"""
    def fails(p, r):
        try:
            pr, _ = evaluate(p, r, opt)
        except Exception:
            return False
        return any(s == sig for s, _ in pr)

    best = (prog, root)
    i_mb = next(i for i, s in enumerate(prog) if s["op"] == "mb_rec")
    # 1. drop consumers from the top
    cur = list(prog)
    while len(cur) - 1 > i_mb:
        cand = cur[:-1]
        # the new root: last non-source step
        r = next(s["out"] for s in reversed(cand) if s["op"] != "src")
        if fails(cand, r):
            cur = cand
            best = (cur, r)
        else:
            break
    # 2. bypass producers one at a time
    changed = True
    while changed:
        changed = False
        cur, r = best
        for i, st in enumerate(cur):
            if st["op"] in ("src", "mb_rec") or len(st.get("args", [])) not in (1, 2):
                continue
            # a binary elementwise step is replaced by its first operand of the same shape (if any)
            sub = st["args"][0]
            if len(st["args"]) == 2:
                if st["op"] not in P.BINARY:
                    continue
                shp = {s3["out"]: s3.get("shape") for s3 in cur if s3["op"] == "src"}
                same = [a for a in st["args"] if shp.get(a) is not None and all(shp.get(b) in (None, shp[a]) for b in st["args"])]
                if not same:
                    continue
                sub = same[0]
            cand = []
            for s2 in cur[:i] + cur[i + 1:]:
                s2 = dict(s2)
                if "args" in s2:
                    s2["args"] = [sub if a == st["out"] else a for a in s2["args"]]
                cand.append(s2)
            r2 = r if r != st["out"] else sub
            try:
                if fails(cand, r2):
                    best = (cand, r2)
                    changed = True
                    break
            except Exception:
                continue
    # 3. drop the optional keywords of the call that do not matter for the failure
    for k in ("enforce_ndim", "meta", "name", "token", "scalars", "method"):
        cur, r = best
        if not any(st["op"] == "mb_rec" and st.get(k) for st in cur):
            continue
        cand = [{kk: vv for kk, vv in st.items() if kk != k} if st["op"] == "mb_rec" else st for st in cur]
        if fails(cand, r):
            best = (cand, r)
    # 3b. histories that do not matter for the failure (one entry at a time)
    for k in ("hist_out", "hist_after", "hist"):
        while True:
            cur, r = best
            tgt = next((st for st in cur if st["op"] == "mb_rec" and st.get(k)), None)
            if tgt is None:
                break
            done = True
            n = 1 if k == "hist_out" else len(tgt[k])
            for j in range(n):
                rest = None if k == "hist_out" else [e for q, e in enumerate(tgt[k]) if q != j]
                cand = [({kk: vv for kk, vv in st.items() if kk != k} | ({k: rest} if rest else {})) if st is tgt else st for st in cur]
                if fails(cand, r):
                    best = (cand, r)
                    done = False
                    break
            if done:
                break
    # 4. remove steps nothing depends on any more
    cur, r = best
    while True:
        used = {a for st in cur for a in st.get("args", [])} | {r}
        dead = [st for st in cur if st["out"] not in used]
        if not dead:
            break
        cur = [st for st in cur if st["out"] in used]
    if cur != best[0] and fails(cur, r):
        best = (cur, r)
    return best
