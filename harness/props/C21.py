"""C21 — the Frisky records path computes the same results as the dask graph.

Theorem side (Props/C21.lean): the `_Flattener` model turns a nested `_task_spec` node into
flat records whose evaluation equals the evaluation of the node, with fresh unique `-subN`
keys and complete dependency lists; walking several roots with a shared `seen` set emits
every reachable layer once and the union is complete.
Correspondence: the real `_records` / `_Flattener` on the tasks of real layers vs the model
(driver command `gr.flatten`).  Search: an in-process executor over the records returned by
`__frisky_graph__` / `__frisky_records_chunks__` vs an execution of `__dask_graph__`.

Two more streams live in harness/props_ext/c21_nested.py (shared with C22) and run first in every run:
  * container cases — dask objects (delayed, chained delayed, 0-d / 1-d dask arrays) nested up to three deep in list /
    tuple / dict arguments and keyword arguments of map_blocks / blockwise / map_overlap / apply_gufunc / from_delayed /
    store targets / random distributions with dask-array parameters; every container skeleton x leaf kind is enumerated,
    seeded random ones follow; the block function folds its arguments position by position and raises on anything
    unresolved; records must be FLAT (no graph node left in a record) and execute to the dask graph's block values;
  * history cases — ONE collection object: early reads (output keys, dask keys, records, graph, …), in-place updates
    (setitem with masks / slices / integer lists, ufunc out=, cumsum / reduction out=, compute_chunk_sizes), forks,
    dependents, optimize flips: the advertised output keys are defined by the records and hold the post-update values.

The native Rust extension cannot be built in this sandbox: `_frisky_layer()` always falls
back to the generic `GraphRecordsLayer` adapter (that is the path checked); the
`frisky.Future` branches of `_records` are untestable offline.
"""
from __future__ import annotations

import random

import time

import numpy as np

from harness import graphs, programs


# --------------------------------------------------------------- in-process executor

def exec_records(records, rng=None):
    """Execute flat (key, func, args, kwargs, deps) records the way Frisky consumes them:
    dependencies are matched by key STRING, embedded TaskRefs are resolved recursively in
    lists / tuples / dict values, a record only sees the dependencies it declares; records are flat (a graph node left
    inside a record's arguments is a problem of its own).  Returns (values, problems, duplicate keys)."""
    from dask._task_spec import TaskRef

    problems = []
    by_key = {}
    dup = 0
    for r in records:
        if len(r) != 5 or not isinstance(r[0], str) or not isinstance(r[4], list):
            problems.append(("malformed-record", repr(r)[:200]))
            continue
        if r[0] in by_key:
            dup += 1
        by_key.setdefault(r[0], []).append(r)
    from harness.props_ext import c21_nested as CN

    for rs in by_key.values():
        for r in rs:
            left = CN.leftover_nodes(r[2], r[1], top=True) + CN.leftover_nodes(r[3])
            if left:
                # records are flat: TaskRef dependencies, plain containers and literals, never a graph node
                problems.append(("graph-node-left-in-record", f"record {r[0]} carries {sorted(set(left))} in its arguments"))
                return {}, problems, dup
    # the references a worker resolves — by the STRING of the embedded key, never through Python equality of key tuples
    # (('x', np.int64(0)) == ('x', 0)): canonical key types, embedded references == declared deps (harness.props_ext.c21_catalog)
    from harness.props_ext import c21_catalog as CC

    audit = CC.ref_audit([r for rs in by_key.values() for r in rs])
    if audit:
        problems.extend(audit)
        return {}, problems, dup
    dangling = sorted({d for rs in by_key.values() for r in rs for d in r[4] if d not in by_key})
    if dangling:
        problems.append(("dangling-dependency", f"{len(dangling)} e.g. {dangling[0]}"))
        return {}, problems, dup
    alldeps = {k: set().union(*[set(r[4]) for r in rs]) for k, rs in by_key.items()}
    indeg = {k: len(d) for k, d in alldeps.items()}
    rdeps = {k: [] for k in by_key}
    for k, ds in alldeps.items():
        for d in ds:
            rdeps[d].append(k)
    ready = sorted(k for k, n in indeg.items() if n == 0)
    values = {}

    def resolve(a, declared, key):
        if isinstance(a, TaskRef):
            s = a.key if isinstance(a.key, str) else str(a.key)
            if s not in declared:
                problems.append(("reference-not-declared", f"record {key} uses {s} which is not in its deps"))
                return values.get(s)
            return values[s]
        if isinstance(a, list):
            return [resolve(x, declared, key) for x in a]
        if isinstance(a, tuple):
            return tuple(resolve(x, declared, key) for x in a)
        if isinstance(a, dict):
            return {k: resolve(v, declared, key) for k, v in a.items()}
        return a

    while ready:
        i = rng.randrange(len(ready)) if rng is not None else 0
        k = ready.pop(i)
        fps = []
        for _, func, args, kwargs, deps in by_key[k]:
            declared = set(deps)
            try:
                values[k] = func(*[resolve(a, declared, k) for a in args], **{n: resolve(v, declared, k) for n, v in (kwargs or {}).items()})
            except Exception as e:
                problems.append(("task-raises", f"record {k}: {type(e).__name__}: {str(e)[:120]}"))
                return values, problems, dup
            fps.append(graphs.fingerprint(values[k]))
        if len(set(fps)) > 1:
            # a key may be defined twice (SetItem embeds a sub-graph, Shuffle shares literal keys) only with one value
            problems.append(("duplicate-key-different-values", f"{len(fps)} records share the key {k} and compute different values"))
        for r in rdeps[k]:
            indeg[r] -= 1
            if indeg[r] == 0:
                ready.append(r)
    if len(values) != len(by_key):
        problems.append(("records-cycle", f"executed {len(values)} of {len(by_key)} records"))
    return values, problems, dup


def node_records(node):
    """The records one node contributes (its own records layer when it has one that works
    without the native extension — FusedBlockwise's pure-Python records — else the generic adapter)."""
    from dask_array._frisky.graph_records import GraphRecordsLayer

    layer = None
    mk = getattr(node, "_frisky_layer", None)
    if mk is not None:
        try:
            layer = mk()
        except (NotImplementedError, ImportError):
            layer = None
    if layer is None:
        layer = GraphRecordsLayer(node)
    return layer.to_task_records()


class LoggingSet(set):
    """a `seen` set that remembers the order in which the walk recorded names"""

    def __init__(self):
        super().__init__()
        self.order = []

    def add(self, x):
        self.order.append(x)  # every call: a name recorded twice means a layer emitted twice
        super().add(x)


def walk_request(xs, seen):
    """`gr.walk` request for the expression DAGs of xs (nodes numbered by object identity, names
    numbered separately: two nodes may share a name) and the implementation's emission order."""
    from harness.core import f_list, f_ll

    ids, nodes = {}, []

    def visit(n):
        if id(n) in ids:
            return
        ids[id(n)] = len(nodes)
        nodes.append(n)
        for d in n.dependencies():
            visit(d)

    roots = [x._lowered_expr for x in xs]
    for r in roots:
        visit(r)
    names = {}
    for n in nodes:
        names.setdefault(n._name, len(names))
    req = "gr.walk %s %s %s" % (
        f_list(names[n._name] for n in nodes),
        f_ll([ids[id(d)] for d in n.dependencies()] for n in nodes),
        f_list(ids[id(r)] for r in roots),
    )
    impl = "ok " + f_list(names.get(nm, 999999) for nm in seen.order)
    return req, impl, nodes, names


def expected_layers(xs):
    """Independent count of what a shared-`seen` walk must emit: one layer per distinct node name."""
    nodes = {}
    for x in xs:
        for node in x._lowered_expr.walk():
            nodes.setdefault(node._name, node)
    return nodes


def verify_alone(x, ref, label):
    """one collection walked alone (seen=None): declined, or complete with the dask graph's block values"""
    from dask.core import flatten

    try:
        recs = x.__frisky_graph__()
    except NotImplementedError:
        return [], True
    fails = []
    values, problems, _ = exec_records(recs, None)
    for kind, detail in problems:
        fails.append(("records:" + kind, f"{label}: {detail}"))
    if not problems:
        for k in flatten(x.__dask_keys__()):
            s = str(k)
            if s not in values:
                fails.append(("records:output-key-undefined", f"{label}: {s}"))
                break
            if graphs.fingerprint(values[s]) != graphs.fingerprint(ref[k]):
                fails.append(("records:block-value-differs", f"{label}: block {s}: records give {np.asarray(values[s]).ravel()[:6].tolist()} "
                              f"dask graph gives {np.asarray(ref[k]).ravel()[:6].tolist()}"))
                break
    return fails, False


def run_case(ctx, case, count=True):
    """case: {prog, roots, optimize, shared:bool, oseed, history} or a container case of harness.props_ext.c21_nested
    ({kind: "container", api, args, kwargs, …, roots, optimize, history}: the collections come from its builder).  history (groups only):
    "group" | "group-then-alone" (every member walked alone AFTER the shared walk, same collection
    objects) | "alone-then-group" (members walked alone BEFORE the shared walk)."""
    import dask
    from dask.core import flatten
    from dask_array._frisky.graph_records import GraphRecordsLayer
    from harness.props_ext import c21_fused as CF
    from harness.props_ext import c21_nested as CN

    from harness.props_ext import c21_catalog as CC

    prog = case.get("prog") or []
    catalog = case.get("kind") == "catalog"
    fused = case.get("kind") == "fused" or catalog  # the builder's env carries its own NumPy witness (`_expected`)
    container = case.get("kind") == "container" or fused  # built by a builder of its own, with a NumPy witness
    fails = []
    with dask.config.set({"array.optimize-graph": case["optimize"]}):
        try:
            env = CC.build_catalog(case) if catalog else CF.build_fused(case) if fused else CN.build_container(case) if container else programs.run_da_ext(prog)
        except NotImplementedError:
            ctx.notes["refused_at_construction"] = ctx.notes.get("refused_at_construction", 0) + 1
            return None
        except Exception as e:
            # raising while the program is BUILT is not a statement about graphs / schedules / records
            # (e.g. broadcasting a length-1 axis chunked (0, 1)); counted with an example, reported
            ctx.notes["construction_raised"] = ctx.notes.get("construction_raised", 0) + 1
            ctx.notes.setdefault("construction_raised_example", f"{type(e).__name__}: {str(e)[:100]} :: {[st['op'] for st in prog] or case.get('api') or case.get('expr') or case.get('name')}")
            return None
        if catalog:
            case = dict(case, roots=env["_roots"])  # an entry with several outputs (qr, unique(return_counts), nonzero, …): walked as a group
        xs = [env[r] for r in case["roots"]]
        label = "+".join(case["roots"]) if not catalog else f"{case['name']}[{'+'.join(case['roots'])}]"
        history = case.get("history", "group") if len(xs) > 1 else "group"
        ref0 = None
        if history == "alone-then-group":
            try:
                dsk = {}
                for x in xs:
                    dsk.update(dict(x.__dask_graph__()))
                ref0, _ = graphs.execute(graphs.to_tasks(dsk), rng=None, order="fifo")
                for r, x in zip(case["roots"], xs):
                    f, _ = verify_alone(x, ref0, f"{r} alone before the group walk")
                    fails += f
            except Exception:
                ref0 = None
        # ---- the records
        try:
            if case.get("shared", True) and len(xs) > 1:
                seen = LoggingSet()
                recs = []
                per = []
                for x in xs:
                    part = x.__frisky_graph__(seen=seen)
                    per.append(len(part))
                    recs.extend(part)
            else:
                seen = None
                recs = []
                for x in xs:
                    recs.extend(x.__frisky_graph__())
            outkeys = [k for x in xs for k in x.__frisky_output_keys__()]
        except NotImplementedError as e:
            ctx.notes["declined"] = ctx.notes.get("declined", 0) + 1
            if count:
                ctx.count(("declined", str(e)[:40]))
            return []
        except Exception as e:
            msg = f"{type(e).__name__}: {e}"
            k = programs.classify_known(prog, msg)
            if k:
                return [(k, msg[:300])]
            # does the dask graph path raise the same way?  then it is not a records-path problem
            try:
                dsk = {}
                for x in xs:
                    dsk.update(dict(x.__dask_graph__()))
                if container:
                    # … or builds a graph whose execution raises the same exception class (the records path meets it
                    # earlier, while it looks at the collection's meta): the computation is broken on both paths
                    try:
                        graphs.execute(graphs.to_tasks(dsk), rng=None, order="fifo")
                    except type(e):
                        raise
                    except Exception:
                        pass
            except Exception as e2:
                ctx.notes["both_paths_raise"] = ctx.notes.get("both_paths_raise", 0) + 1
                if container:
                    ctx.notes.setdefault("both_paths_raise_example(container)", f"{msg[:120]} :: {case.get('api') or case.get('expr')} {case.get('rand') or ''} pre={case.get('pre')} post={case.get('post')}")
                return None
            # narrow class: the collection's own metadata raises (the records path is the first to look at it, `compute()` never
            # does): e.g. a random distribution without explicit-parameter expression class given dask arrays as parameters
            for x in xs:
                try:
                    x._meta
                except type(e):
                    what = "random-" + case["rand"]["dist"] if container and case.get("rand") else type(x.expr).__name__
                    return [("records-path-raises:collection-meta-raises:" + what,
                             f"{label}: __frisky_graph__ raised {msg[:200]} (so does the collection's _meta) while __dask_graph__ builds and executes")]
                except Exception:
                    pass
            return [("records-path-raises:" + type(e).__name__, f"{label}: __frisky_graph__ raised {msg[:300]} while __dask_graph__ succeeds")]
        # ---- the reference: the dask graph
        try:
            dsk = {}
            for x in xs:
                dsk.update(dict(x.__dask_graph__()))
            tasks = graphs.to_tasks(dsk)
            ref, _ = graphs.execute(tasks, rng=None, order="fifo")
        except Exception as e:
            ctx.notes["dask_graph_raises"] = ctx.notes.get("dask_graph_raises", 0) + 1
            return None
        if container:
            # third witness: NumPy.  A dask graph that itself differs from NumPy is outside this property (both paths
            # are built from the same layers): noted with an example, the comparison records ~ dask graph is skipped
            want_np = env["_expected"] if fused else CN.expected_container(case)
            for r, x in zip(case["roots"], xs):
                if r not in want_np:
                    continue
                try:
                    got = CN._blocks_in_order(x, ref, list(flatten(x.__dask_keys__())))
                    ok = CN._same(got, np.asarray(want_np[r]))
                except Exception:
                    ok = False
                if not ok:
                    key = "outside_C21:dask graph differs from NumPy " + ("(catalogue entry)" if catalog else "(fused-layer program)" if fused else "(nested dask object reaches the function unresolved)")
                    ctx.notes[key] = ctx.notes.get(key, 0) + 1
                    ex = ctx.notes.setdefault("outside_C21:examples", [])
                    tag = f"{case.get('api') or case.get('expr') or case.get('name')} pre={case.get('pre')} post={case.get('post')} optimize={case['optimize']}"
                    if len(ex) < 6 and not any(e.startswith(tag) for e in ex):
                        ex.append(f"{tag} args={case.get('args')} kwargs={case.get('kwargs')}" + (f" profile={case['profile']} dt={case.get('dt')}" if catalog else ""))
                    return None
        want_keys = [str(k) for x in xs for k in flatten(x.__dask_keys__())]
        if outkeys != list(dict.fromkeys(want_keys)) and len(xs) == 1:
            fails.append(("output-keys-differ", f"{label}: __frisky_output_keys__ {outkeys[:2]} vs str(__dask_keys__) {want_keys[:2]}"))
        if seen is not None:
            produced = {r[0] for r in recs}
            dangling = {d for r in recs for d in r[4]} - produced
            if dangling:
                # shared mode: "completeness is the caller's job over the combined union" (collect_task_records);
                # the caller declines.  Consistency: then some member alone must be declined too.
                alone = []
                for x in xs:
                    try:
                        x.__frisky_graph__()
                        alone.append(False)
                    except NotImplementedError:
                        alone.append(True)
                if any(alone):
                    ctx.notes["declined(shared union incomplete, member alone declined)"] = ctx.notes.get("declined(shared union incomplete, member alone declined)", 0) + 1
                    if count:
                        ctx.count(("declined-shared",))
                    return []
                return [("shared-seen:incomplete-union-but-no-member-declined", f"{label}: dangling {sorted(dangling)[:2]}")]
        values, problems, dup = exec_records(recs, random.Random(case.get("oseed", 0)))
        if problems and has_hoisted_fused_subgraph(recs):
            return [(HOIST_SIG, f"{label}: {problems[0][0]}: {problems[0][1]}")]
        for kind, detail in problems:
            fails.append(("records:" + kind, f"{label}: {detail}"))
        if not problems or values:
            undefined = [k for k in outkeys if k not in values]
            if undefined:
                fails.append(("records:output-key-undefined", f"{label}: {undefined[:2]} ({len(undefined)} of {len(outkeys)})"))
            for x in xs:
                for k in flatten(x.__dask_keys__()):
                    s = str(k)
                    if s in values and graphs.fingerprint(values[s]) != graphs.fingerprint(ref[k]):
                        fails.append(("records:block-value-differs", f"{label}: block {s}: records give {np.asarray(values[s]).ravel()[:6].tolist()} "
                                      f"dask graph gives {np.asarray(ref[k]).ravel()[:6].tolist()}"))
                        break
        if catalog and any("block-value-differs" in s for s, _ in fails):
            # a task that carries a STATEFUL argument (Generator.choice embeds one live BitGenerator in every block's task): executing
            # the dask graph twice gives two different sets of values, there is no reference to compare the records with.
            # Decided on the dask graph alone; noted with the entry, not a records-path failure
            try:
                ref2, _ = graphs.execute(tasks, rng=None, order="fifo")
                unstable = any(graphs.fingerprint(ref2[k]) != graphs.fingerprint(ref[k]) for x in xs for k in flatten(x.__dask_keys__()))
            except Exception:
                unstable = False
            if unstable:
                key = "outside_C21:dask graph not reproducible (a task argument is stateful: two executions of ONE graph differ)"
                ctx.notes[key] = ctx.notes.get(key, 0) + 1
                ex = ctx.notes.setdefault("outside_C21:not-reproducible entries", [])
                if case["name"] not in ex:
                    ex.append(case["name"])
                fails = [(s, d) for s, d in fails if "block-value-differs" not in s]
                values = {}
        if history == "group-then-alone" and not fails:
            for r, x in zip(case["roots"], xs):
                f, _ = verify_alone(x, ref, f"{r} alone after the group walk {label}")
                fails += [(sig + "@after-group", d) for sig, d in f]
        # ---- shared seen: every reachable layer once
        nodes = expected_layers(xs)
        if seen is not None:
            # one layer per NAME: the walk dedups by name (a RootAlias pin carries the name of the raw node)
            if len(seen.order) != len(set(seen.order)):
                fails.append(("shared-seen:name-emitted-twice", f"{label}: {len(seen.order)} emissions, {len(set(seen.order))} names"))
            if not set(seen.order) <= set(nodes):
                fails.append(("shared-seen:unknown-name", f"{label}"))
            if not all(x._lowered_expr._name in seen for x in xs):
                fails.append(("shared-seen:root-not-reached", f"{label}"))
            pairs = getattr(ctx, "walk_pairs", None)
            if pairs is not None and len(pairs) < 600:
                req, impl, _, _ = walk_request(xs, seen)
                if len(req) < 6000:
                    pairs.append((req, impl))
        # ---- hybrid protocol
        try:
            seen2 = set() if seen is not None else None
            chunks, recs2, groups = [], [], []
            for x in xs:
                c, r, g = x.__frisky_records_chunks__(seen=seen2) if seen2 is not None else x.__frisky_records_chunks__()
                chunks += c
                recs2 += r
                groups += g
            if chunks:
                ctx.notes["binary_chunks_seen(not decodable offline)"] = ctx.notes.get("binary_chunks_seen(not decodable offline)", 0) + len(chunks)
            else:
                if sorted(r[0] for r in recs2) != sorted(r[0] for r in recs):
                    fails.append(("records-chunks:key-set-differs", f"{label}: plain records of __frisky_records_chunks__ define other keys than __frisky_graph__"))
                v2, p2, _ = exec_records(recs2, None)
                for kind, detail in p2:
                    fails.append(("records-chunks:" + kind, f"{label}: {detail}"))
                for k in outkeys:
                    if k in v2 and k in values and graphs.fingerprint(v2[k]) != graphs.fingerprint(values[k]):
                        fails.append(("records-chunks:block-value-differs", f"{label}: {k}"))
                        break
            if len(groups) != len(chunks):
                fails.append(("records-chunks:groups-not-parallel", f"{label}: {len(groups)} groups for {len(chunks)} chunks"))
        except NotImplementedError:
            ctx.notes["chunks_declined"] = ctx.notes.get("chunks_declined", 0) + 1
        if fails and case.get("api") == "random" and any(s.startswith("records:block-value-differs") for s, _ in fails) and random_realizations_differ(xs):
            # decidable narrower class: the members of the group that wrap ONE expression are lowered separately and the random node with a
            # dask-array parameter is re-instantiated with fresh seeds per lowering (family random:array-param-node-rebuilt): one key, two values
            fails = [(RANDOM_TWICE_SIG, d + " [two collection objects over this ONE expression compute different values on the dask graph as well]")
                     if s.startswith("records:block-value-differs") else (s, d) for s, d in fails]
        if count:
            kinds = tuple(sorted({type(n).__name__ for n in nodes.values()}))
            ctx.count(("recs", case["optimize"], len(xs) > 1, kinds))
            if catalog:
                ctx.count(CC.catalog_class(case))
            elif fused:
                ctx.count(CF.fused_class(case, CF.fused_paths(xs[0]) if len(xs) == 1 else ()))
            elif container:
                ctx.count(CN.container_class(case))
            ctx.notes["records_executed"] = ctx.notes.get("records_executed", 0) + len(recs)
            ctx.notes["sub_records"] = ctx.notes.get("sub_records", 0) + sum("-sub" in r[0] for r in recs)
            ctx.notes["duplicate_record_keys(embedded/literal)"] = ctx.notes.get("duplicate_record_keys(embedded/literal)", 0) + dup
    return fails


RANDOM_TWICE_SIG = "records:random-array-param:one-expression-two-realizations"


def random_realizations_differ(xs):
    """True when two fresh collection objects over the expression of some member compute different block values on the DASK GRAPH"""
    from dask.core import flatten

    for x in xs:
        try:
            vals = []
            for _ in range(2):
                o = type(x)(x.expr)
                v, _ = graphs.execute(graphs.to_tasks(dict(o.__dask_graph__())), rng=None, order="fifo")
                vals.append([graphs.fingerprint(v[k]) for k in flatten(o.__dask_keys__())])
            if vals[0] != vals[1]:
                return True
        except Exception:
            continue
    return False


FAST_SIG = "fused-fast-records:sampled-block-independence"
HOIST_SIG = "records:embedded-fused-subgraph-hoisted"


def has_hoisted_fused_subgraph(recs):
    """decidable signature: a record calls `_execute_subgraph` with an inner subgraph whose tasks were
    replaced by references (the generic adapter lifted the tasks of a FUSED task's inner subgraph — a
    fused task embedded in another layer, e.g. SetItem's materialized value graph — into records that
    reference fused-away keys).  Alone such a collection is declined (dangling keys); in a shared-`seen`
    group another member may happen to produce those keys, the union then passes the completeness check
    and the fused callables are replaced by block data."""
    from dask._task_spec import TaskRef, _execute_subgraph

    for r in recs:
        if r[1] is _execute_subgraph and r[2] and isinstance(r[2][0], dict) and any(isinstance(v, TaskRef) for v in r[2][0].values()):
            return True
    return False


def passes_with_slow_records(ctx, case):
    """True when the case passes once FusedBlockwiseLayer's sampled fast path is switched off
    (records built from every block's real task): the failure is the fast path's."""
    from dask_array._frisky import fused_blockwise as fb

    orig = fb.FusedBlockwiseLayer._fast_records
    fb.FusedBlockwiseLayer._fast_records = lambda self: None
    try:
        f = run_case(ctx, case, count=False)
        return f is not None and not f
    except Exception:
        return False
    finally:
        fb.FusedBlockwiseLayer._fast_records = orig


def report_ext(ctx, case, fails):
    """container / history cases of harness.props_ext.c21_nested: shrink with their own shrinkers, one failure per signature"""
    from harness.props_ext import c21_nested as CN

    by_sig = {}
    for sig, detail in fails:
        by_sig.setdefault(sig, detail)
    from harness.props_ext import c21_fused as CF

    if case["kind"] == "samename":
        # every attempt under a name of its own: the process-wide state left by the failing run must not be what makes it fail
        fresh = lambda: "%s~%d" % (case["name"].split("~")[0], ctx.rng.randrange(10**9))
        runner = lambda c: CF.run_samename(ctx, c, exec_records, count=False)
        shrinker = lambda c, still: CF.shrink_samename(dict(c, name=fresh()), still, fresh)
    elif case["kind"] in ("container", "fused", "catalog"):
        from harness.props_ext import c21_catalog as CC

        runner = lambda c: run_case(ctx, c, count=False)
        shrinker = CN.shrink_container if case["kind"] == "container" else CF.shrink_fused if case["kind"] == "fused" else CC.shrink_catalog
    else:
        runner = lambda c: CN.run_history(ctx, c, exec_records, count=False)
        shrinker = CN.shrink_history
    done = set()
    for sig, detail in by_sig.items():
        small = case
        try:
            def still(c, sig=sig):
                f = runner(c)
                return bool(f) and any(s == sig for s, _ in f)

            small = shrinker(case, still)
            if case["kind"] == "samename":
                small = dict(small, name=fresh())
            f2 = runner(small) or []
            if case["kind"] == "samename" and not any(s == sig for s, _ in f2):
                small = dict(case, name=fresh())  # the reduced history does not fail on its own: report the whole one
                f2 = runner(small) or []
            detail = next((d for s, d in f2 if s == sig), detail)
        except Exception:
            small = case
        key = (sig, repr(small))
        if key in done:
            continue
        done.add(key)
        ctx.fail(sig, {k: v for k, v in small.items() if k != "grid"}, detail)


def report(ctx, case, fails):
    if case.get("kind") in ("container", "history", "fused", "samename", "catalog"):
        return report_ext(ctx, case, fails)
    by_sig = {}
    for sig, detail in fails:
        by_sig.setdefault(sig, detail)
    if any(s.startswith("records:") for s in by_sig) and passes_with_slow_records(ctx, case):
        # every records:* failure of this case disappears with the exact per-block records
        detail = next(d for s, d in by_sig.items() if s.startswith("records:"))
        by_sig = {s: d for s, d in by_sig.items() if not s.startswith("records:")}
        by_sig[FAST_SIG] = detail
    for sig, detail in by_sig.items():
        small = case
        try:
            if sig == FAST_SIG:
                def still_fast(p):
                    c = dict(case, prog=p, roots=[p[-1]["out"]])
                    f = run_case(ctx, c, count=False)
                    return bool(f) and any(s.startswith("records:") for s, _ in f) and passes_with_slow_records(ctx, c)

                for r in case["roots"]:
                    i = [k for k, st in enumerate(case["prog"]) if st["out"] == r][0]
                    c = dict(case, prog=case["prog"][: i + 1], roots=[r])
                    if still_fast(c["prog"]):
                        p = programs.shrink(c["prog"], still_fast)
                        small = dict(c, prog=p, roots=[p[-1]["out"]])
                        break
            elif not sig.startswith("shared-seen") and "@after-group" not in sig:
                for r in case["roots"]:
                    i = [k for k, st in enumerate(case["prog"]) if st["out"] == r][0]
                    c = dict(case, prog=case["prog"][: i + 1], roots=[r])
                    f = run_case(ctx, c, count=False)
                    if f and any(s == sig for s, _ in f):
                        def still(p, sig=sig):
                            f = run_case(ctx, dict(case, prog=p, roots=[p[-1]["out"]]), count=False)
                            return bool(f) and any(s == sig for s, _ in f)

                        p = programs.shrink(c["prog"], still)
                        small = dict(c, prog=p, roots=[p[-1]["out"]])
                        f2 = run_case(ctx, small, count=False)
                        detail = next((d for s, d in (f2 or []) if s == sig), detail)
                        break
        except Exception:
            pass
        ctx.fail(sig, small, detail)


# --------------------------------------------------------------- correspondence with the model

class Enc:
    """Compact one-token encoding of a `_task_spec` node (see Drv/Graph.lean):
       key    := name(:comp)*   comp := int | 'str        bare string key := $name
       node   := R<key>  TaskRef | A<key> Alias | D<n> DataNode | V<n> literal
               | L[n;n;…] List | T[n;…] Tuple | l[…] plain list | t[…] plain tuple
               | K<f>(kw1,kw2|n;n;…) Task with function id f; the last len(kws) nodes are the kwargs
    """

    def __init__(self):
        self.funcs = {}
        self.lits = {}
        self.opaque = {}  # id(DataNode value) -> literal id: passed through unchanged, never traversed

    def fid(self, f):
        import toolz

        if f is toolz.identity:
            return "id"
        return "f%d" % self.funcs.setdefault(id(f), len(self.funcs))

    def lid(self, v):
        try:
            k = (type(v).__name__, graphs.fingerprint(v), repr(v)[:60])
        except Exception:
            k = (type(v).__name__, id(v))
        return self.lits.setdefault(k, len(self.lits))

    @staticmethod
    def key(k):
        import numbers
        import re

        def okname(s):
            return isinstance(s, str) and re.fullmatch(r"[A-Za-z0-9_.\-]+", s) is not None

        if isinstance(k, str):
            if not okname(k):
                raise ValueError
            return "$" + k
        if not (isinstance(k, tuple) and k and okname(k[0])):
            raise ValueError
        out = [k[0]]
        for c in k[1:]:
            if isinstance(c, numbers.Integral) and not isinstance(c, bool):
                out.append(str(int(c)))
            elif okname(c):
                out.append("'" + c)
            else:
                raise ValueError
        return ":".join(out)

    def node(self, a):
        from dask._task_spec import Alias, DataNode, GraphNode, NestedContainer, Task, TaskRef

        if isinstance(a, TaskRef):
            return "R" + self.key(a.key)
        if isinstance(a, Alias):
            return "A" + self.key(a.target)
        if isinstance(a, DataNode):
            n = self.lid(a.value)
            self.opaque[id(a.value)] = n
            return "D%d" % n
        if isinstance(a, NestedContainer) and a.klass in (list, tuple):
            return ("L" if a.klass is list else "T") + "[" + ";".join(self.node(x) for x in a.args) + "]"
        if isinstance(a, Task):
            kws = list(a.kwargs or {})
            for n in kws:
                if not n.isidentifier():
                    raise ValueError
            parts = [self.node(x) for x in a.args] + [self.node(a.kwargs[n]) for n in kws]
            return "K" + self.fid(a.func) + "(" + ",".join(kws) + "|" + ";".join(parts) + ")"
        if isinstance(a, GraphNode):
            raise ValueError
        if isinstance(a, list):
            return "l[" + ";".join(self.node(x) for x in a) + "]"
        if isinstance(a, tuple):
            return "t[" + ";".join(self.node(x) for x in a) + "]"
        if isinstance(a, dict):
            # a plain dict of literals is data for the model (one literal); with references inside it has no model form
            from harness.props_ext.c21_nested import leftover_nodes

            def has_ref(o):
                if isinstance(o, TaskRef):
                    return True
                if isinstance(o, (list, tuple)):
                    return any(has_ref(x) for x in o)
                if isinstance(o, dict):
                    return any(has_ref(x) for x in o.values())
                return False

            if leftover_nodes(a) or has_ref(a):
                raise ValueError
            return "V%d" % self.lid(a)
        return "V%d" % self.lid(a)

    # canonical rendering of the REAL records with the same tables
    def arg(self, a):
        from dask._task_spec import TaskRef

        if isinstance(a, TaskRef):
            return "R" + (a.key if isinstance(a.key, str) else str(a.key))
        if id(a) in self.opaque:
            return "V%d" % self.opaque[id(a)]
        if isinstance(a, list):
            return "l[" + ";".join(self.arg(x) for x in a) + "]"
        if isinstance(a, tuple):
            return "t[" + ";".join(self.arg(x) for x in a) + "]"
        return "V%d" % self.lid(a)

    def records(self, recs):
        out = []
        for key, func, args, kwargs, deps in recs:
            kws = list(kwargs or {})
            parts = [self.arg(x) for x in args] + [self.arg(kwargs[n]) for n in kws]
            out.append("#".join([key, self.fid(func), ",".join(kws) + "|" + ";".join(parts), "+".join(deps)]))
        return "ok " + "##".join(out)


def flatten_pairs(ctx, xs, limit):
    """(request, impl) pairs for the real `_records` on the tasks of the real layers of xs."""
    from dask._task_spec import convert_legacy_graph
    from dask.core import flatten
    from dask_array._frisky.graph_records import _norm_key, _records

    pairs = []
    skipped = 0
    for x in xs:
        for node in x._lowered_expr.walk():
            local = node._layer()
            allk = set(local)
            for d in node.dependencies():
                allk.update(flatten(d.__dask_keys__()))
            dsk = convert_legacy_graph(local, allk)
            for key, t in dsk.items():
                if len(pairs) >= limit:
                    return pairs, skipped
                enc = Enc()
                try:
                    req = f"gr.flatten {enc.key(_norm_key(key))} {enc.node(t)}"
                    if len(req) > 6000:
                        raise ValueError
                except ValueError:
                    skipped += 1
                    continue
                try:
                    impl = enc.records(_records(key, t))
                except NotImplementedError:
                    impl = "err NotImplementedError"
                pairs.append((req, impl))
    return pairs, skipped


def synthetic_pairs(ctx, n):
    """Random nested nodes (deeper / wider than real layers produce)."""
    from dask._task_spec import Alias, DataNode, List, Task, TaskRef, Tuple
    from dask_array._frisky.graph_records import _records

    rng = ctx.rng
    funcs = [lambda *a, **k: 0, lambda *a, **k: 1, lambda *a, **k: 2]

    def key():
        nm = rng.choice(["a", "b-1", "x_y"])
        if rng.random() < 0.15:
            return nm
        return (nm,) + tuple(rng.choice([0, 1, 2, 10, "extra"]) for _ in range(rng.randint(0, 3)))

    def node(d):
        r = rng.random()
        if d <= 0 or r < 0.25:
            return TaskRef(key())
        if r < 0.32:
            return Alias(("inl", 0), key())
        if r < 0.4:
            return DataNode(None, rng.randint(0, 5))
        if r < 0.5:
            return rng.randint(0, 5)
        if r < 0.62:
            return List(*[node(d - 1) for _ in range(rng.randint(0, 3))])
        if r < 0.7:
            return Tuple(*[node(d - 1) for _ in range(rng.randint(0, 3))])
        if r < 0.78:
            return [node(d - 1) for _ in range(rng.randint(0, 3))]
        if r < 0.84:
            return tuple(node(d - 1) for _ in range(rng.randint(0, 3)))
        kw = {n: node(d - 1) for n in rng.sample(["p", "q", "r"], rng.randint(0, 2))}
        return Task(None, rng.choice(funcs), *[node(d - 1) for _ in range(rng.randint(0, 3))], **kw)

    pairs = []
    for _ in range(n):
        k = key()
        top = rng.random()
        if top < 0.1:
            t = Alias(k, key() if rng.random() < 0.8 else k)
        elif top < 0.2:
            t = DataNode(k, rng.randint(0, 5))
        elif top < 0.3:
            t = List(*[node(2) for _ in range(rng.randint(0, 3))])
        elif top < 0.35:
            t = rng.randint(0, 9)  # bare data
        else:
            kw = {n: node(2) for n in rng.sample(["p", "q"], rng.randint(0, 2))}
            t = Task(k, rng.choice(funcs), *[node(rng.randint(0, 3)) for _ in range(rng.randint(0, 4))], **kw)
        enc = Enc()
        try:
            req = f"gr.flatten {enc.key(k)} {enc.node(t)}"
        except ValueError:
            continue
        pairs.append((req, enc.records(_records(k, t))))
    return pairs


def run(ctx, replay=None):
    from harness.props_ext import c21_nested as CN

    rng = ctx.rng
    t_run = time.time()  # budgets are relative to the start of the search, not to the Lean build/audit
    ctx.rule = (
        "seeded random array programs (harness.programs incl. creation ops with irregular chunks, concatenate=True blockwise / "
        "apply_along_axis / apply_gufunc / dask-array indexers, masked setitem, persist; depth 2-6, optimize-graph on/off), each "
        "alone and as a group of 2-3 collections sharing subtrees walked with one shared `seen` (root first or last), with the "
        "histories group / group-then-each-member-alone / each-member-alone-then-group on the SAME collection objects; records executed by an in-process executor (random "
        "topological order, dependency matching by key string, only declared deps visible) and compared block by block with an "
        "execution of __dask_graph__; correspondence: every task of every real layer expressible in the mini-AST + random "
        "synthetic nested nodes, real _records/_Flattener vs the Lean model; distinct = (optimize, grouped?, layer classes) / model output prefix. "
        "PLUS (harness.props_ext.c21_nested) container cases: dask objects (delayed, chained delayed, 0-d / 1-d dask arrays) nested up to 3 deep in "
        "list/tuple/dict arguments and keyword arguments of map_blocks / Array.map_blocks / blockwise (1-2 arrays) / map_overlap / apply_gufunc / "
        "from_delayed / store targets — every container skeleton x leaf kind enumerated in every run + seeded random ones, alone and grouped with "
        "the nested arrays, a position-sensitive fold as block function, records ~ dask graph ~ NumPy, records must be flat (no graph node left); "
        "history cases: early read (output keys / dask keys / records / graph / chunks / name / compute / lowering) x in-place update (masked, "
        "slice, integer-list setitem with scalar / ndarray / dask values, ufunc out= via np and da, out= from another array, where=, cumsum / "
        "reduction out=, compute_chunk_sizes) enumerated + random sequences with copy.copy forks, dependents built before the update, "
        "optimize-graph flips: advertised output keys defined by the records and computing the post-update NumPy values (== an unread twin). "
        "PLUS (harness.props_ext.c21_fused) fused-layer programs: map_blocks / Array.map_blocks / blockwise with functions taking block_id= / block_info= / "
        "positional ArrayChunkShapeDep / ArrayBlockIdDep arguments (0-3 at once) x extra positional literals x keyword literals with defaults, on ragged "
        "chunks, below / above fusing and non-fusing neighbours, chained; one source read at several sites with equal / transposed / permuted / broadcast "
        "block maps (x*x + x.T, (x - x.T)*x, x @ x.T, outer(v, v), 3-d permutations; square and non-square grids); ragged creation ops and map_overlap "
        "inside fused chains — enumerated cross + seeded random, records ~ dask graph ~ per-block NumPy on ALL blocks, distinct = (operators, reads, "
        "block maps, post, optimize, ragged, non-square, fast-path taken); same-name histories: 2-3 arrays created in one process under one "
        "user-supplied name= (from_array / map_blocks(name=)) with different grids and/or data, coarser first / finer first / all created before any walk, "
        "each consumed through cumsum / cumprod / arg-reductions / map_overlap / reductions / slicing / take / rechunk / reshape / concatenate / "
        "map_blocks(block_id) — every consumer x both orders enumerated + seeded random, every case under a name of its own. "
        "PLUS (harness.props_ext.c21_catalog) the public-API catalogue: the table of Array methods / da functions of harness.props_ext.c03_layout + "
        "directed entries feeding NumPy-typed indices / axes / offsets / depths / block numbers / chunk sizes to diag, diagonal, vindex (all forms), "
        "tril / triu, take, getitem, blocks, overlap, tsqr / qr / svd, arg-reductions, bincount, histogram, searchsorted, random choice, shuffle — "
        "directed entries in every run, the rest swept in seeded order inside a budget; operand from from_array / a blockwise layer / a rechunk; "
        "several outputs of one entry walked as a group; EVERY executed record set is audited first: embedded TaskRef keys of canonical types (str "
        "names, plain int coordinates), set of str(embedded key) == declared deps, no NumPy scalar repr in key / dep strings (references are resolved "
        "by key string, never through Python equality of key tuples)"
    )
    ctx.assumptions = [
        "the native Rust extension is absent: _frisky_layer() always falls back to GraphRecordsLayer, the only path checked; "
        "binary record chunks (to_records_chunk) never occur offline and could not be decoded",
        "frisky.Future branches of _records (live futures, self-alias of a persisted block) are untestable offline (no frisky package)",
        "the in-process executor stands for Frisky's worker-side resolution (lower_dep_refs): TaskRefs resolved recursively in "
        "lists, tuples and dict values, dependencies matched by the string of the key",
        "C21_flatten_eval assumes sub-key strings are injective in N and never equal an outer key string (tuple keys end in ')', "
        "sub keys end in '-sub<N>'); the interpretation of task functions is abstract (any functions)",
    ]
    if replay is not None:
        case = replay["case"] if "case" in replay else replay
        if "request" in case:
            ctx.correspond("replay", [(case["request"], case["impl"])])
            return
        if case.get("kind") == "history":
            for sig, detail in CN.run_history(ctx, case, exec_records) or []:
                ctx.fail(sig, case, detail)
            return
        if case.get("kind") == "samename":
            from harness.props_ext import c21_fused as CF

            for sig, detail in CF.run_samename(ctx, case, exec_records) or []:
                ctx.fail(sig, case, detail)
            return
        for sig, detail in run_case(ctx, case) or []:
            ctx.fail(sig, case, detail)
        return

    import dask

    corr_pairs = []
    import warnings

    with warnings.catch_warnings():
        warnings.simplefilter("ignore")  # "Computing mixed collections …" for every Delayed next to an array expression
        nested_streams(ctx, corr_pairs)
        fused_streams(ctx, corr_pairs)
        catalog_streams(ctx, corr_pairs)
        from harness.props_ext import c21_keys  # key normalisation / reference resolution at the string level (Props/C21Keys.lean; rky.*)

        c21_keys.run(ctx)
    t_run = time.time()
    n = ctx.scale(160, 3000)
    budget = ctx.scale(26, 400)
    ctx.walk_pairs = []
    corr_skipped = 0
    corr_limit = ctx.scale(2500, 30000)
    for it in range(n):
        if time.time() - t_run > budget:
            ctx.notes["stopped_early_at"] = it
            break
        prog, npenv = programs.gen_clean_program2(rng, rng.randint(2, 6))
        names = [st["out"] for st in prog]
        group = [names[-1]] + rng.sample(names[:-1], min(len(names) - 1, rng.randint(1, 2)))
        if rng.random() < 0.5:
            group.reverse()  # the root as a LATER member of the group
        for opt in (True, False):
            for roots in ([names[-1]], group):
                if len(roots) == 1 and roots is group:
                    continue
                case = {"prog": prog, "roots": roots, "optimize": opt, "shared": True, "oseed": rng.randrange(10**6),
                        "history": rng.choice(["group", "group-then-alone", "group-then-alone", "alone-then-group"])}
                fails = run_case(ctx, case)
                if it < 2 and opt:
                    ctx.sample({"roots": roots, "optimize": opt, "ops": [st["op"] for st in prog]})
                if fails:
                    report(ctx, case, fails)
            if len(corr_pairs) < corr_limit and it % 2 == 0:
                try:
                    with dask.config.set({"array.optimize-graph": opt}):
                        env = programs.run_da_ext(prog)
                        p, s = flatten_pairs(ctx, [env[names[-1]]], 60)
                    corr_pairs += p
                    corr_skipped += s
                except Exception:
                    pass
    known_probe(ctx)
    # ---- correspondence (after the search so that the same programs feed both)
    ctx.notes["flatten_tasks_not_expressible"] = corr_skipped
    nd = ctx.correspond("_records(real layers)", corr_pairs, branch_key=lambda req, model: (req.count("K"), req.count("L["), model.count("-sub")))
    nd += ctx.correspond("_records(synthetic)", synthetic_pairs(ctx, ctx.scale(1500, 20000)), branch_key=lambda req, model: (req.count("K"), model.count("-sub"), model.count("##")))
    walk_pairs, ctx.walk_pairs = ctx.walk_pairs, None
    nd += ctx.correspond("_walk_records(shared seen)", walk_pairs, branch_key=lambda req, model: (len(model) // 6, req.count(";") // 4))
    if nd:
        targeted(ctx)


def catalog_streams(ctx, corr_pairs):
    """(0) the public-API catalogue through the records path (harness.props_ext.c21_catalog): the directed entries (NumPy-typed
    indices / axes / offsets / block numbers into diag, vindex, tril/triu, take, blocks, overlap, tsqr/svd, arg-reductions, bincount,
    histogram, searchsorted, random choice, shuffle) in every run, then the sweep over the rest of the table inside a time budget"""
    import dask
    from harness.props_ext import c21_catalog as CC

    rng = ctx.rng
    reported = {}
    t0 = time.time()
    directed, sweep = CC.catalog_cases(rng, full=ctx.tier != "quick")
    budget = ctx.scale(7.5, 90)
    done = 0
    for i, case in enumerate(directed + sweep):
        if i >= len(directed) and time.time() - t0 > budget:
            break
        if time.time() - t0 > 2 * budget:
            break
        done += 1
        if i in (0, 30):
            ctx.sample({k: v for k, v in case.items() if k in ("kind", "name", "profile", "pre", "optimize")})
        fails = run_case(ctx, case)
        if fails:
            sigs = tuple(sorted({s for s, _ in fails}))
            reported[sigs] = reported.get(sigs, 0) + 1
            if reported[sigs] > 3:
                ctx.notes["further_failing_cases_of_reported_classes"] = ctx.notes.get("further_failing_cases_of_reported_classes", 0) + 1
                continue
            report(ctx, case, fails)
        if i % 3 == 0 and len(corr_pairs) < 600:
            try:
                with dask.config.set({"array.optimize-graph": case["optimize"]}):
                    env = CC.build_catalog(case)
                    p, _ = flatten_pairs(ctx, [env[env["_roots"][0]]], 20)
                corr_pairs += p
            except Exception:
                pass
    ctx.notes["catalog_cases"] = f"{len(directed)} directed + {max(0, done - len(directed))} of {len(sweep)} sweep entries in {time.time() - t0:.1f}s"


def nested_streams(ctx, corr_pairs):
    """(a) dask objects nested in container arguments, (b) in-place update histories (harness.props_ext.c21_nested):
    the enumerated grids in every run + seeded random cases inside a time budget"""
    import dask
    from harness.props_ext import c21_nested as CN

    rng = ctx.rng
    reported = {}

    def one(case, runner):
        fails = runner(case)
        if fails:
            sigs = tuple(sorted({s for s, _ in fails}))
            reported[sigs] = reported.get(sigs, 0) + 1
            if reported[sigs] > 3:
                ctx.notes["further_failing_cases_of_reported_classes"] = ctx.notes.get("further_failing_cases_of_reported_classes", 0) + 1
                return  # the same class was reported with three shrunk inputs already
            report(ctx, case, fails)

    t0 = time.time()
    cases = CN.container_grid(rng, full=ctx.tier != "quick")
    budget = ctx.scale(9, 60)
    nrand = 0
    for i, case in enumerate(cases):
        if i in (0, 40):
            ctx.sample({k: v for k, v in case.items() if k in ("kind", "api", "kwargs", "args", "pre", "post", "optimize", "roots")})
        one(case, lambda c: run_case(ctx, c))
        if i % 3 == 0 and len(corr_pairs) < 900:
            try:
                with dask.config.set({"array.optimize-graph": case["optimize"]}):
                    p, _ = flatten_pairs(ctx, [CN.build_container(case)["y"]], 30)
                corr_pairs += p
            except Exception:
                pass
    while time.time() - t0 < budget and nrand < ctx.scale(400, 20000):
        nrand += 1
        one(CN.random_container(rng), lambda c: run_case(ctx, c))
    ctx.notes["container_cases"] = f"{len(cases)} enumerated + {nrand} random in {time.time() - t0:.1f}s"
    t0 = time.time()
    budget = ctx.scale(7, 45)
    cases = CN.history_grid(rng)
    nrand = 0
    for i, case in enumerate(cases):
        if i in (1, 60):
            ctx.sample({k: v for k, v in case.items() if k in ("kind", "base", "steps", "optimize")})
        one(case, lambda c: CN.run_history(ctx, c, exec_records))
    while time.time() - t0 < budget and nrand < ctx.scale(400, 20000):
        nrand += 1
        one(CN.random_history(rng), lambda c: CN.run_history(ctx, c, exec_records))
    ctx.notes["history_cases"] = f"{len(cases)} enumerated + {nrand} random in {time.time() - t0:.1f}s"


def fused_streams(ctx, corr_pairs):
    """(c) fused-layer programs (per-block function arguments x extra arguments, one source at several sites, library block
    literals), (d) same-name histories (harness.props_ext.c21_fused): the enumerated grids in every run + seeded random
    cases inside a time budget"""
    import dask
    from harness.props_ext import c21_fused as CF

    rng = ctx.rng
    reported = {}

    def one(case, runner):
        fails = runner(case)
        if fails:
            sigs = tuple(sorted({s for s, _ in fails}))
            reported[sigs] = reported.get(sigs, 0) + 1
            if reported[sigs] > 2:
                ctx.notes["further_failing_cases_of_reported_classes"] = ctx.notes.get("further_failing_cases_of_reported_classes", 0) + 1
                return
            report(ctx, case, fails)

    t0 = time.time()
    budget = ctx.scale(7, 40)
    cases = CF.fused_grid(rng, full=ctx.tier != "quick")
    nrand = 0
    for i, case in enumerate(cases):
        if i in (3, 70):
            ctx.sample({k: v for k, v in case.items() if k in ("kind", "srcs", "expr", "post", "optimize", "roots")})
        one(case, lambda c: run_case(ctx, c))
        if i % 4 == 0 and len(corr_pairs) < 1500:
            try:
                with dask.config.set({"array.optimize-graph": case["optimize"]}):
                    p, _ = flatten_pairs(ctx, [CF.build_fused(case)["y"]], 20)
                corr_pairs += p
            except Exception:
                pass
    while time.time() - t0 < budget and nrand < ctx.scale(300, 20000):
        nrand += 1
        one(CF.random_fused(rng), lambda c: run_case(ctx, c))
    ctx.notes["fused_cases"] = f"{len(cases)} enumerated + {nrand} random in {time.time() - t0:.1f}s"
    t0 = time.time()
    budget = ctx.scale(5, 25)
    tag = "nm%d" % rng.randrange(10**6)
    cases = CF.samename_grid(rng, tag)
    nrand = 0
    for i, case in enumerate(cases):
        if i == 0:
            ctx.sample({k: v for k, v in case.items() if k != "oseed"})
        one(case, lambda c: CF.run_samename(ctx, c, exec_records))
    while time.time() - t0 < budget and nrand < ctx.scale(200, 10000):
        nrand += 1
        one(CF.random_samename(rng, tag, nrand), lambda c: CF.run_samename(ctx, c, exec_records))
    ctx.notes["samename_cases"] = f"{len(cases)} enumerated + {nrand} random in {time.time() - t0:.1f}s"


def known_probe(ctx):
    """FusedBlockwise's pure-Python fast records validate block-independence on sampled blocks only
    (first / middle / last per axis): a creation op whose interior block has another size."""
    prog = [
        {"op": "create", "fn": "ones", "shape": [5], "chunks": [[1, 2, 1, 1]], "dtype": "int64", "fill": 0, "out": "v1"},
        {"op": "affine", "args": ["v1"], "out": "v2"},
    ]
    case = {"prog": prog, "roots": ["v2"], "optimize": True, "shared": False, "oseed": 0}
    fails = run_case(ctx, case, count=False)
    if fails:
        if passes_with_slow_records(ctx, case):
            ctx.fail(FAST_SIG, case, fails[0][0] + ": " + fails[0][1])
        else:
            ctx.fail(fails[0][0], case, fails[0][1])
    # a fused task embedded in a SetItem layer + a second collection that produces the fused-away keys
    prog = [
        {"op": "src", "shape": [5, 1], "chunks": [[1, 1, 1, 1, 1], [1]], "mul": 1, "off": -1, "mod": 5, "out": "v1"},
        {"op": "src", "shape": [5, 1], "chunks": [[1, 2, 1, 1], [1]], "mul": 3, "off": -4, "mod": 11, "out": "v2"},
        {"op": "maximum", "args": ["v2", "v1"], "out": "v3"},
        {"op": "astype", "args": ["v3"], "dtype": "int32", "out": "v4"},
        {"op": "rechunk", "args": ["v4"], "chunks": [[2, 2, 1], [1]], "out": "v7"},
        {"op": "rechunk", "args": ["v4"], "chunks": [[5], [1]], "out": "v8"},
        {"op": "setitem", "args": ["v7"], "index": [["s", None, 6, None], ["s", None, 1, 3]], "value": "v8", "out": "v9"},
    ]
    case = {"prog": prog, "roots": ["v3", "v9"], "optimize": True, "shared": True, "oseed": 0, "history": "group"}
    for sig, detail in run_case(ctx, case, count=False) or []:
        ctx.fail(sig, case, detail)


def targeted(ctx):
    """A model/implementation disagreement on `_records`: look for an observable failure of the
    records path on the real code (programs whose layers contain nested tasks)."""
    from harness.props_ext import c21_nested as CN

    rng = ctx.rng
    tried = 0
    # tasks with nested containers of references first (lists / tuples / dicts of delayed objects and dask arrays in
    # arguments and keyword arguments): the shapes the real layers seldom produce and the synthetic nodes do
    if not ctx.failures:
        import warnings

        with warnings.catch_warnings():
            warnings.simplefilter("ignore")
            for case in CN.container_grid(rng) + [CN.random_container(rng) for _ in range(ctx.scale(100, 1500))]:
                tried += 1
                fails = run_case(ctx, case, count=False)
                if fails:
                    report(ctx, case, fails)
                    ctx.notes["targeted_search"] = f"{tried} container-argument programs executed through the records path"
                    return
    else:
        ctx.notes["targeted_search_note"] = "the search already reported concrete failing inputs on the records path"
    for _ in range(ctx.scale(150, 1500)):
        prog, _ = programs.gen_clean_program2(rng, rng.randint(2, 5), ops=("reduce", "concatenate", "rechunk", "getitem", "take", "stack", "cumsum", "setitem", "binary", "blockwise_concat", "apply_along_axis", "take_dask_index"))
        names = [st["out"] for st in prog]
        for opt in (True, False):
            case = {"prog": prog, "roots": [names[-1]], "optimize": opt, "shared": False, "oseed": 0}
            tried += 1
            fails = run_case(ctx, case, count=False)
            if fails:
                report(ctx, case, fails)
                ctx.notes["targeted_search"] = f"{tried} programs with nested-task layers executed through the records path"
                return
    ctx.notes["targeted_search"] = f"{tried} programs with nested-task layers executed through the records path: all complete and equal to the dask graph"
