"""C04 — graphs are closed, acyclic and produce exactly the advertised keys.

Tie between the Lean theorems (Props/C04.lean: layer contract on every node + walk-closed
node set  =>  closed / acyclic union, root keys, RootAlias pin) and the code: the LAYER
CONTRACT is monitored on every real layer of every generated program (optimize-graph on
and off).  Independent search: direct closure / cycle / key-grid / name checks of the
merged real graph.
"""
from __future__ import annotations

import itertools
import numbers

import time

import numpy as np

from harness import graphs, programs

LITERAL_PREFIXES = ("shuffle-sorter-", "shuffle-taker-")
STATS = {"walks": 0, "walks_key_disjoint": 0, "keys_defined_by_several_layers": 0,
         "keys_redefined_by_embedded_subgraph_with_other_task": 0}


# ------------------------------------------------------------------------ utilities

def grid_keys(name, numblocks):
    return [(name,) + idx for idx in itertools.product(*(range(int(nb)) for nb in numblocks))]


def _first(k):
    return k[0] if isinstance(k, tuple) else k


def _is_public_shape(k, name, ndim):
    return (
        isinstance(k, tuple) and len(k) == ndim + 1 and k[0] == name
        and all(isinstance(i, numbers.Integral) for i in k[1:])
    )


def same_task(a, b):
    """Two definitions of one key denote the same task (used for keys defined by more than
    one layer: content-addressed literals and sub-graphs embedded in a layer)."""
    from dask._task_spec import Alias, DataNode

    if type(a) is not type(b):
        return False
    if isinstance(a, DataNode):
        return graphs.fingerprint(a.value) == graphs.fingerprint(b.value)
    if isinstance(a, Alias):
        return a.target == b.target
    if set(a.dependencies) != set(b.dependencies):
        return False
    try:
        if a == b:
            return True
    except Exception:
        pass
    return getattr(a, "func", None) is getattr(b, "func", 1) and graphs.fingerprint(list(a.args)) == graphs.fingerprint(list(b.args))


def layer_contract(node, defs):
    """Check the layer contract on one materialized node.  Returns a list of
    (kind, detail) violations.  `defs`: dict key -> list[(layer name, task, own?)] shared by the
    walk: a key defined by more than one layer must denote the same task everywhere
    (content-addressed literal keys; a sub-expression graph embedded in a layer)."""
    from dask._task_spec import convert_legacy_graph

    out = []
    name = node._name
    layer = node._layer()
    nb = tuple(node.numblocks)
    grid = grid_keys(name, nb)
    gset = set(grid)
    own = set(layer)
    miss = [k for k in grid if k not in own]
    if miss:
        out.append(("grid-key-undefined", f"{miss[:3]} of {len(miss)}"))
    token = name.rsplit("-", 1)[-1]
    deps = [d for d in node.dependencies() if hasattr(d, "numblocks")]
    depgrid = set()
    for d in deps:
        depgrid.update(grid_keys(d._name, d.numblocks))
    foreign = set()
    for k in own - gset:
        f = _first(k)
        if _is_public_shape(k, name, len(nb)):
            out.append(("key-outside-grid", repr(k)))
        elif isinstance(f, str) and (name in f or (len(token) >= 8 and token in f)):
            pass  # private key derived from the node's name / token
        else:
            foreign.add(k)  # literal / embedded: must agree with every other definition
    allkeys = own | depgrid
    try:
        tasks = convert_legacy_graph(dict(layer), allkeys)
    except Exception as e:  # pragma: no cover
        out.append(("layer-not-convertible", repr(e)[:200]))
        return out
    for k, t in tasks.items():
        defs.setdefault(k, []).append((name, t, k not in foreign))
        if isinstance(_first(k), str) and _first(k).startswith(LITERAL_PREFIXES) and t.dependencies:
            out.append(("literal-key-with-deps", repr(k)))
        for d in t.dependencies:
            if d not in allkeys:
                out.append(("foreign-reference", f"{k!r} -> {d!r}"))
    return out


def check_defs(defs):
    """Keys defined by several layers: at most one layer owns the key; a content-addressed
    literal has one value.  Returns (violations, n_shared_keys, n_conflicting) where
    n_conflicting counts keys that an embedded sub-graph (SetItem embeds the materialized
    graph of `value[idx]`) defines by a different task than the owning layer — outside the
    hypothesis of C04_acyclic (key-disjoint layers), covered by the direct check only."""
    out = []
    nshared = 0
    nconf = 0
    for k, lst in defs.items():
        if len(lst) < 2:
            continue
        nshared += 1
        owners = [n for n, _, o in lst if o]
        if len(owners) > 1:
            out.append(("key-owned-by-two-layers", f"{k!r}: {owners}"))
        for n, t, _ in lst[1:]:
            if not same_task(lst[0][1], t):
                if isinstance(_first(k), str) and _first(k).startswith(LITERAL_PREFIXES):
                    out.append(("literal-key-two-values", f"{k!r}: layers {lst[0][0]} and {n}"))
                else:
                    nconf += 1
                break
    return out, nshared, nconf


def check_array(x, label, info=None):
    """All C04 facts on one collection.  Returns list of (signature, detail).  `info` (a dict) receives the
    executed block values (`values`) or the exception a task raised (`execute_error`)."""
    from dask.core import flatten

    bad = []
    name0 = x.name
    keys0 = list(flatten(x.__dask_keys__()))
    want = grid_keys(name0, x.numblocks)
    if keys0 != want:
        bad.append(("keys-not-grid", f"{label}: __dask_keys__ {keys0[:3]}… != grid of {name0} over {x.numblocks}"))
    dsk = x.__dask_graph__()
    if x.name != name0:
        bad.append(("name-changed", f"{label}: after __dask_graph__ {name0} -> {x.name}"))
    tasks = graphs.to_tasks(dsk)
    undefined = [k for k in want if k not in tasks]
    if undefined:
        bad.append(("advertised-key-undefined", f"{label}: {undefined[:3]} ({len(undefined)} of {len(want)})"))
    wset = set(want)
    extra = [k for k in tasks if _is_public_shape(k, name0, len(x.numblocks)) and k not in wset]
    if extra:
        bad.append(("extra-key-under-collection-name", f"{label}: graph defines {extra[:3]} outside the advertised grid {x.numblocks}"))
    missing, cycle = graphs.check_closed_acyclic(tasks)
    if missing:
        bad.append(("not-closed", f"{label}: {missing[:2]} ({len(missing)})"))
    if cycle:
        bad.append(("cycle", f"{label}: {cycle[:6]}"))
    # every advertised key holds the block the advertised chunks describe (a key mapped to a shifted
    # block — e.g. across a zero-width chunk — has another shape)
    if not missing and not cycle and not undefined and len(tasks) <= 400:
        try:
            values, _ = graphs.execute(tasks, rng=None, order="fifo")
        except Exception as e:
            values = None  # a task raising at run time is not a statement about the graph's structure
            STATS["execute_raised"] = STATS.get("execute_raised", 0) + 1
            if info is not None:
                info["execute_error"] = e
        if info is not None:
            info["values"] = values
        if values is not None:
            for k in want:
                shp = tuple(x.chunks[d][i] for d, i in enumerate(k[1:]))
                got = getattr(values[k], "shape", None)
                if got is not None and not any(c != c for c in shp) and tuple(got) != tuple(int(c) for c in shp):
                    bad.append(("advertised-key-wrong-block", f"{label}: key {k} holds a block of shape {tuple(got)}, advertised chunks say {shp}"))
                    break
    # layer contract on every node of the materialized expression
    defs = {}
    nlayers = 0
    seen = {}
    for node in x._lowered_expr.walk():
        nlayers += 1
        if node._name in seen and seen[node._name] is not node:
            bad.append(("two-nodes-one-name", f"{label}: {node._name}"))
        seen[node._name] = node
        for kind, detail in layer_contract(node, defs):
            if kind == "key-outside-grid" and node._name != name0:
                # an INNER layer defining a key outside its own advertised grid (seen with zero-width source
                # chunks under x[<dask int array>]): extra, unreferenced or internally referenced keys; the
                # property constrains the keys a COLLECTION advertises -> counted, not a failure
                STATS["inner_layer_key_outside_its_grid"] = STATS.get("inner_layer_key_outside_its_grid", 0) + 1
                continue
            bad.append(("layer-contract:" + kind, f"{label}: layer {type(node).__name__} {node._name} numblocks={tuple(node.numblocks)} "
                        f"deps={[d._name for d in node.dependencies()]}: {detail}"))
    b2, nshared, nconf = check_defs(defs)
    for kind, detail in b2:
        bad.append(("layer-contract:" + kind, f"{label}: {detail}"))
    STATS["walks"] += 1
    STATS["walks_key_disjoint"] += nshared == 0
    STATS["keys_defined_by_several_layers"] += nshared
    STATS["keys_redefined_by_embedded_subgraph_with_other_task"] += nconf
    # walk-closedness: every dependency of a walked node is walked
    for node in list(seen.values()):
        for d in node.dependencies():
            if d._name not in seen:
                bad.append(("walk-not-closed", f"{label}: {node._name} -> {d._name}"))
    return bad, nlayers, len(tasks)


def check_names(x, label):
    """The collection's name never changes because of optimization."""
    from dask.core import flatten

    bad = []
    name0 = x.name
    keys0 = list(flatten(x.__dask_keys__()))
    o = x.optimize()
    if x.name != name0:
        bad.append(("name-changed", f"{label}: after optimize() {name0} -> {x.name}"))
    try:
        x.compute(scheduler="sync")
        p = x.persist(scheduler="sync")
    except Exception as e:
        # a task raising at run time is not a statement about the graph's structure (C01/C11)
        STATS["compute_raised_" + type(e).__name__] = STATS.get("compute_raised_" + type(e).__name__, 0) + 1
        return bad, o, None
    if x.name != name0:
        bad.append(("name-changed", f"{label}: after compute {name0} -> {x.name}"))
    if x.name != name0 or p.name != name0:
        bad.append(("name-changed", f"{label}: persist {name0} -> x:{x.name} persisted:{p.name}"))
    if list(flatten(x.__dask_keys__())) != keys0 or list(flatten(p.__dask_keys__())) != keys0:
        bad.append(("keys-changed", f"{label}: keys differ after compute/persist"))
    return bad, o, p


ZERO_OPS = ("unary", "unary", "getitem", "getitem", "getitem", "diff", "roll", "flip", "rechunk", "map_blocks", "astype",
            "transpose", "expand_dims", "clip", "where_scalar", "cumsum")
# (no binary ops in this stream: broadcasting a length-1 axis that carries a zero-width chunk raises
#  "Chunks do not add up to same value" on the unchanged tree — reported, a unify-chunks limitation)

ZOO = {
    "ones_add": lambda da, x: x + da.ones(x.shape, chunks=x.chunks, dtype=x.dtype),
    "arange_mul": lambda da, x: x * da.arange(x.shape[-1], chunks=max(1, x.shape[-1] // 2)) if x.ndim else x,
    "argmax": lambda da, x: x.argmax(axis=0) if x.ndim and 0 not in x.shape else x,
    "tensordot": lambda da, x: da.tensordot(x, x.T, axes=1) if x.ndim == 2 else x,
    "map_overlap": lambda da, x: x.map_overlap(lambda b: b + 1, depth=1, boundary="none", dtype=x.dtype) if x.ndim and min(min(c) for c in x.chunks) >= 1 else x,
    "where": lambda da, x: da.where(x > 2, x, -x),
    "mean_std": lambda da, x: x.mean(axis=-1) if x.ndim else x,
    "ravel": lambda da, x: x.ravel(),
    "T_dot": lambda da, x: x.T.dot(x) if x.ndim == 2 else x,
    "topk": lambda da, x: da.topk(x, 1, axis=-1) if x.ndim and 0 not in x.shape else x,
    "pad": lambda da, x: da.pad(x, 1, mode="constant") if x.ndim else x,
    "random": lambda da, x: x + da.random.default_rng(3).integers(0, 5, size=x.shape, chunks=x.chunks),
    "blocks": lambda da, x: x.blocks[(0,) * x.ndim] if x.ndim else x,
    "vindex": lambda da, x: x.vindex[[0, -1], [0, -1]] if x.ndim == 2 and 0 not in x.shape else x,
    "boolmask": lambda da, x: x[x % 2 == 0] if x.ndim == 1 else x,
    "coarsen": lambda da, x: da.coarsen(np.sum, x, {0: 2}, trim_excess=True) if x.ndim and x.shape[0] >= 2 and all(c % 2 == 0 for c in x.chunks[0]) else x,
    "diagonal": lambda da, x: da.diagonal(x) if x.ndim >= 2 else x,
    "unique": lambda da, x: da.unique(x) if x.ndim == 1 else x,
    "frozen": lambda da, x: x.freeze_chunks(),
}


# ------------------------------------------------------------------------ one case

def run_case(ctx, case, count=True):
    """case: {prog, roots:[names], optimize:bool, zoo:[name|None per root]}; returns list of failures
    (signature, detail) for this case."""
    import dask
    import dask_array as da

    prog = case["prog"]
    fails = []
    with dask.config.set({"array.optimize-graph": case["optimize"]}):
        try:
            env = programs.run_da_ext(prog)
        except NotImplementedError:
            ctx.notes["refused_at_construction"] = ctx.notes.get("refused_at_construction", 0) + 1
            return None
        except Exception as e:
            # raising while the program is BUILT is not a statement about graphs / schedules / records
            # (e.g. broadcasting a length-1 axis chunked (0, 1)); counted with an example, reported
            ctx.notes["construction_raised"] = ctx.notes.get("construction_raised", 0) + 1
            ctx.notes.setdefault("construction_raised_example", f"{type(e).__name__}: {str(e)[:100]} :: {[st['op'] for st in prog]}")
            return None
        for r, z in zip(case["roots"], case.get("zoo") or [None] * len(case["roots"])):
            x = env[r]
            label = r if not z else f"{z}({r})"
            if z and 0 in x.shape:
                z = None  # zoo ops over zero-size arrays hit unrelated value/refusal defects (e.g. .blocks of an
                label = r  # empty slice of a broadcast elementwise raises under optimization: reported)
            if z:
                try:
                    x = ZOO[z](da, x)
                except Exception:
                    # construction-time refusal/defect of a zoo op (e.g. ravel of a zero-size array): not a graph
                    ctx.notes["zoo_construction_raised"] = ctx.notes.get("zoo_construction_raised", 0) + 1
                    continue
            try:
                bad, nl, nt = check_array(x, label)
                fails += bad
                if count:
                    kinds = tuple(sorted({type(n).__name__ for n in x._lowered_expr.walk()}))
                    ctx.count(("arr", case["optimize"], kinds))
                    ctx.notes["layers_monitored"] = ctx.notes.get("layers_monitored", 0) + nl
                    ctx.notes["tasks_checked"] = ctx.notes.get("tasks_checked", 0) + nt
                if case.get("inplace") and x.ndim and 0 not in x.shape and not any(c != c for d in x.chunks for c in d):
                    # in-place update that keeps the block grid, AFTER keys and graph were touched
                    # (Array._replace_expr must drop the cached keys / lowered expression)
                    idx = tuple(slice(0, max(1, d // 2)) for d in x.shape)
                    try:
                        x[idx] = -1
                    except (NotImplementedError, ValueError, TypeError):
                        ctx.notes["inplace_refused"] = ctx.notes.get("inplace_refused", 0) + 1
                    else:
                        bad, nl, nt = check_array(x, label + " after in-place x[...] = -1")
                        fails += [(s2 + "@inplace", d2) for s2, d2 in bad]
                        if count:
                            ctx.count(("inplace", case["optimize"]))
                if case.get("names", True):
                    bad, o, p = check_names(x, label)
                    fails += bad
                    for y, lab in ((o, f"optimize({label})"), (p, f"persist({label})")):
                        if y is None:
                            continue
                        if y is p and not case["optimize"] and case.get("zero_stream"):
                            continue  # documented: see known_probe `persist-unoptimized:zero-width-chunk`
                        b2, nl, nt = check_array(y, lab)
                        fails += b2
                        if count:
                            ctx.count(("derived", lab.split("(")[0], case["optimize"]))
            except NotImplementedError as e:
                ctx.notes["refused_later"] = ctx.notes.get("refused_later", 0) + 1
            except Exception as e:
                msg = f"{type(e).__name__}: {e}"
                sig = programs.classify_known(prog, msg) or f"graph-raises:{type(e).__name__}"
                fails.append((sig, f"{label}: building/inspecting the graph raised {msg[:300]}"))
    return fails


def report(ctx, case, fails):
    """Shrink and record failures of one case."""
    by_sig = {}
    for sig, detail in fails:
        by_sig.setdefault(sig, detail)
    for sig, detail in by_sig.items():
        small = dict(case)

        def still(p, sig=sig):
            c = dict(case, prog=p, roots=[p[-1]["out"]], zoo=None)
            if case.get("zoo"):
                # keep the zoo op of the failing root
                zs = [z for r, z in zip(case["roots"], case["zoo"]) if z]
                c["zoo"] = [zs[0]] if zs else None
            f = run_case(ctx, c, count=False)
            return bool(f) and any(s == sig for s, _ in f)

        try:
            # first make the failing root the program's last step
            for r, z in zip(case["roots"], case.get("zoo") or [None] * len(case["roots"])):
                i = [k for k, st in enumerate(case["prog"]) if st["out"] == r][0]
                c = dict(case, prog=case["prog"][: i + 1], roots=[r], zoo=[z] if z else None)
                f = run_case(ctx, c, count=False)
                if f and any(s == sig for s, _ in f):
                    p = programs.shrink(c["prog"], still)
                    small = dict(c, prog=p, roots=[p[-1]["out"]])
                    f2 = run_case(ctx, small, count=False)
                    detail = next((d for s, d in (f2 or []) if s == sig), detail)
                    break
        except Exception:
            pass
        ctx.fail(sig, small, detail)


def run(ctx, replay=None):
    rng = ctx.rng
    t_run = time.time()  # budgets are relative to the start of the search, not to the Lean build/audit
    ctx.rule = (
        "seeded random array programs (harness.programs: ~40 ops incl. setitem/astype/map_blocks/rechunk/"
        "sliding-window/cumsum/take/creation ops/concatenate=True blockwise/persist, sources with zero-width chunks, "
        "in-place x[...] = v after keys and graph were touched, depth 2-6, 1-3 roots per program sharing subtrees, plus a zoo of 19 further "
        "constructions applied to a root) x array.optimize-graph in {True, False}; every collection and its "
        "optimize()/persist() derivatives; a case is distinct by (optimize flag, set of materialized layer classes). "
        "Configuration-drift stream: aligned multi-operand nodes (elementwise / where / blockwise / stack / concatenate / "
        "tensordot over nested, interleaved, equal and broadcasting operand chunkings, chunks='auto' sources, rechunk('auto'), "
        "config-driven tree reductions) built under setting A, metadata (.chunks/.numblocks/keys/.name/graph/compute) read or not, "
        "graph taken under setting B = one lazily read planner option changed (options enumerated from the source: every "
        "config.get reachable from chunks/_lower/_simplify/_layer; all ordered value pairs of the two unify options on fresh "
        "nested chunkings in every run) x optimize-graph on/off at graph build; distinct by (option, flavour, optimize flag, reads). "
        "Repeated-operand stream: ONE consumer (50 forms: einsum / blockwise with permuted labels, tensordot, matmul, dot, outer, vdot, "
        "where / elementwise / stack / concatenate / map_blocks with the operand and its transpose, self-broadcast) using the same "
        "operand twice or three times under different index maps, the operand produced by 16 fusable / non-fusable producers, second "
        "operand same / derived / transposed / independent, tied axes chunked alike or differently, optional consumer above; every "
        "consumer and every producer walked in every run, then random cases. Array-parameter stream: 17 random distributions at "
        "degenerate parameter values (exact NumPy value per block) x Generator / RandomState / module front ends x parameters scalar / "
        "NumPy / dask (output-shaped, row, column, vector; rows / columns / irregular chunkings; parameter expressions; one array for two "
        "parameters; keyword) x size given / derived x chunks auto / omitted / bytes / explicit under array.chunk-size 64B..128MiB, and the "
        "*_like family; both x optimize-graph on/off; distinct by (consumer family, second, optimize, fused) / (distribution, front end, "
        "parameter kinds, auto/explicit, optimize). Stage stream: nodes whose layer is assembled from several internal stages driven "
        "into their deepest configuration over non-absorbing sources (cumsum / map_blocks / persisted): rechunks whose REAL plan_rechunk "
        "plan has >= 3 stages (transpose-style, irregular 2-d, 3-d, 1-d / 2-d under array.rechunk.degree-limit 2..4, threshold= / "
        "block_size_limit= as keywords or through array.rechunk.threshold / array.chunk-size; candidates scored by the planner, the "
        "deepest of 8 taken), reductions / arg-reductions / topk / bincount with split_every=2 over 16-40 blocks, blelloch / sequential "
        "scans, shuffle / take with split groups and repeated indices, map_overlap with depth > chunk width, reshape, tensordot / matmul / "
        "einsum / vdot trees, sliding-window reductions, tsqr / svd; per node the stages are rebuilt with the real _compute_rechunk and "
        "their key sets compared (pairwise disjoint, total = merged layer), every toolz.merge inside _layer() observed, task.key = dict key, "
        "values = NumPy, and the __frisky_graph__ records of the same collection executed; distinct by (family, flavour/op, stages, optimize, layer classes)"
    )
    ctx.assumptions = [
        "the layer contract is MONITORED (every real layer of every generated program), not proved for each layer class; "
        "the Lean theorems lift the monitored local facts to closure/acyclicity/root keys of the union for every expression DAG",
        "private keys are recognised by the node's name or its trailing token appearing in the key's first component; "
        "content-addressed literal keys (shuffle-sorter-/shuffle-taker-) are modelled as dependency-free literal nodes "
        "(monitored: no dependencies, same key => same value)",
        "legacy (func, *args) tuple layers are converted with dask's convert_legacy_graph against own keys + dependency grids, "
        "exactly as the code does; a reference to a key outside that set is indistinguishable from data at this level "
        "(it would surface as a wrong value in C01)",
        "programs in the documented defect families (swv-layout-drift, take-through-broadcast, minmax-zero-size) are not generated; "
        "reshape refusals (NotImplementedError at construction) are skipped",
    ]
    if replay is not None:
        case = replay["case"] if "case" in replay else replay
        if case.get("kind") == "drift":  # configuration-drift stream (harness/props_ext/c04_drift.py)
            from harness.props_ext import c04_drift

            for sig, detail in c04_drift.run_c04(ctx, case) or []:
                ctx.fail(sig, case, detail)
            return
        if case.get("kind") in ("multiuse", "arrayparam"):  # repeated operands / array-valued parameters (c04_operands.py)
            from harness.props_ext import c04_operands

            c04_operands.replay(ctx, case)
            return
        if case.get("kind") == "stages":  # layers built from several internal stages, deepest configuration (c04_stages.py)
            from harness.props_ext import c04_stages

            c04_stages.replay(ctx, case)
            return
        fails = run_case(ctx, case) or []
        for sig, detail in fails:
            ctx.fail(sig, case, detail)
        return

    # ---- correspondence: __dask_keys__ grid and the RootAlias/materialize model vs the Lean model
    correspondence(ctx)
    t_run = time.time()

    # ---- search + contract monitoring
    n = ctx.scale(400, 6000)
    budget = ctx.scale(40, 480)
    zoo_names = sorted(ZOO)
    # the zero-width-chunk class first, ENUMERATED (every run, whatever the seed and the load): a source with a zero-width chunk
    # at the start / in the middle / at the end of an axis (1-d and 2-d) under each operation whose raw chunks drop or move
    # the empty block while the optimized form may keep it: unit / stepped / reversed slices cutting before, at and after
    # the empty block, an elementwise op below the slice, diff, roll, flip, rechunk
    def _zsrc(shape, chunks):
        return {"op": "src", "shape": shape, "chunks": chunks, "mul": 3, "off": 1, "mod": 1 << 20, "out": "v1"}

    zprogs = []
    for shape, chunks in (([10], [[2, 3, 0, 5]]), ([10], [[0, 4, 6]]), ([10], [[4, 6, 0]]), ([6, 4], [[2, 0, 4], [4]]), ([3, 8], [[3], [3, 0, 5]])):
        ax = 0 if len(shape) == 1 or 0 in chunks[0] else 1
        n_ax = shape[ax]
        full = [["s", None, None, 1]] * len(shape)

        def idx(sl, ax=ax, full=full):
            return [sl if k == ax else full[k] for k in range(len(full))]

        for sl in (["s", None, 7, 1], ["s", 3, None, 1], ["s", 5, None, 1], ["s", 2, 5, 1], ["s", None, None, 2], ["s", None, None, -1], ["s", 6, 1, -1]):
            zprogs.append([_zsrc(shape, chunks), {"op": "getitem", "args": ["v1"], "index": idx(sl), "out": "v2"}])
            zprogs.append([_zsrc(shape, chunks), {"op": "affine", "args": ["v1"], "out": "v2"}, {"op": "getitem", "args": ["v2"], "index": idx(sl), "out": "v3"}])
        zprogs.append([_zsrc(shape, chunks), {"op": "diff", "args": ["v1"], "axis": ax, "out": "v2"}])
        for shift in (2, -3):
            zprogs.append([_zsrc(shape, chunks), {"op": "roll", "args": ["v1"], "shift": shift, "axis": ax, "out": "v2"}])
        zprogs.append([_zsrc(shape, chunks), {"op": "flip", "args": ["v1"], "axis": ax, "out": "v2"}])
        zprogs.append([_zsrc(shape, chunks), {"op": "rechunk", "args": ["v1"], "chunks": [[n] for n in shape], "out": "v2"},
                       {"op": "getitem", "args": ["v2"], "index": idx(["s", 3, None, 1]), "out": "v3"}])
    for k, prog in enumerate(zprogs):
        names = [st["out"] for st in prog]
        for opt in (True, False):
            case = {"prog": prog, "roots": [names[-1]], "zoo": None, "optimize": opt, "names": k % 3 == 0, "inplace": False, "zero_stream": True}
            try:
                fails = run_case(ctx, case)
            except Exception:  # noqa: BLE001  (a program the DSL refuses: not part of the class)
                break
            if fails is None:
                break
            if fails:
                report(ctx, case, fails)
    for it in range(n):
        if time.time() - t_run > budget:
            ctx.notes["stopped_early_at"] = it
            break
        depth = rng.randint(2, 6)
        if it % 5 == 4:
            # dedicated stream: sources with a zero-width chunk under slicing / elementwise / diff / roll / flip
            # (the advertised grid keeps the zero-width block; other ops over zero-width chunks hit unrelated
            # documented limitations: broadcasting, min/max of empty blocks, persist)
            prog, npenv = programs.gen_clean_program2(rng, depth, zero_chunks=1.0, ops=ZERO_OPS)
        else:
            prog, npenv = programs.gen_clean_program2(rng, depth)
        names = [st["out"] for st in prog]
        roots = [names[-1]] + rng.sample(names[:-1], min(len(names) - 1, rng.randint(0, 2)))
        anc = programs.prog_ancestry(prog)
        # zoo ops capture the advertised layout: over a sliding-window reduction that is the documented
        # swv-layout-drift family (.blocks / boolean mask / vindex above the native-layout rewrite)
        zoo = [rng.choice(zoo_names) if rng.random() < 0.25 and "swv_reduce" not in anc[r] and it % 5 != 4 else None for r in roots]
        for opt in (True, False):
            case = {"prog": prog, "roots": roots, "zoo": zoo if any(zoo) else None, "optimize": opt, "names": it % 3 == 0,
                    "inplace": it % 4 == 1, "zero_stream": it % 5 == 4}
            fails = run_case(ctx, case)
            if fails is None:
                break
            if it < 3 and opt:
                ctx.sample({"roots": roots, "optimize": opt, "ops": [st["op"] for st in prog]})
            if fails:
                report(ctx, case, fails)
    # ---- configuration drift: every lazily read planner option changed between construction / first metadata
    # read and graph build, optimize-graph on and off at graph build (harness/props_ext/c04_drift.py)
    from harness.props_ext import c04_drift

    c04_drift.run_c04_stream(ctx)
    # ---- one consumer using the same operand under several index maps (fusable producers below); creation / random
    # functions with array-valued parameters under chunks="auto" that really splits (harness/props_ext/c04_operands.py)
    from harness.props_ext import c04_operands

    c04_operands.run_stream(ctx)
    # ---- layers assembled from several internal stages under one node (multi-stage rechunk chosen by the real planner's
    # stage count, split_every=2 trees, blelloch scans, shuffle groups, overlap / reshape pipelines under small planner
    # options, contraction trees, tsqr) checked stage by stage at the source (harness/props_ext/c04_stages.py)
    from harness.props_ext import c04_stages

    c04_stages.run_stream(ctx)
    known_probe(ctx)
    ctx.notes.update(STATS)
    if ctx.disagreements:
        ctx.notes["targeted_search"] = "the end-to-end search above exercises the same key grids / alias pins on every generated collection"


def correspondence(ctx):
    """Model (Lean, Drv/Graph.lean) vs implementation on key grids and on the materialize/RootAlias
    decision (alias layer shape, embedded-root guard)."""
    import dask
    import dask_array as da
    from dask.core import flatten

    rng = ctx.rng
    pairs = []
    for _ in range(ctx.scale(150, 1500)):
        nd = rng.randint(0, 3)
        shape = tuple(rng.randint(1, 5) for _ in range(nd))
        chunks = programs.rand_chunks_nd(rng, shape)
        x = da.from_array(np.zeros(shape, dtype="i8"), chunks=chunks)
        nb = x.numblocks
        impl = "ok " + (";".join(",".join(str(i) for i in k[1:]) or "_" for k in flatten(x.__dask_keys__())) or "-")
        pairs.append((f"gr.grid {','.join(map(str, nb)) or '_'}", impl))
    ctx.correspond("keys-grid", pairs)
    # RootAlias: alias layer of the real RootAlias vs model
    from dask_array._expr import RootAlias
    from dask_array._materialize import _lower, _materialize

    pairs = []
    for _ in range(ctx.scale(60, 600)):
        nd = rng.randint(1, 3)
        shape = tuple(rng.randint(1, 4) for _ in range(nd))
        x = da.from_array(np.zeros(shape, dtype="i8"), chunks=programs.rand_chunks_nd(rng, shape))
        y = (x + 1)[tuple(slice(0, rng.randint(1, s)) for s in shape)]
        with dask.config.set({"array.optimize-graph": True}):
            m = _materialize(y.expr)
            # did optimization rename the root?  (decided independently of what _materialize returned)
            opt_name = _lower(y.expr, True).fuse()._name
        nb = ",".join(map(str, y.numblocks))
        if isinstance(m, RootAlias):
            layer = m._layer()
            # canonical: out-index>in-index pairs sorted, names replaced by R(aw)/O(pt)
            items = []
            for k, t in layer.items():
                tgt = t.target
                a = "R" if k[0] == y.name else "?"
                b = "O" if tgt[0] == m.array._name else "?"
                items.append(f"{a}{','.join(map(str, k[1:]))}>{b}{','.join(map(str, tgt[1:]))}")
            impl = "ok alias " + ";".join(items)
            inner = "0"
        else:
            impl = "ok same"
            inner = "0"
        renamed = "1" if opt_name != y.expr._name else "0"
        pairs.append((f"gr.materialize {renamed} {inner} {nb}", impl))
    # the embedded-root guard (cannot be reached through the public API today): exercise the guard condition
    pairs.append(("gr.materialize 1 1 2,2", "err RuntimeError"))
    ctx.correspond("materialize-rootalias", pairs)


def known_probe(ctx):
    """Dedicated probes for the documented defect families (print KNOWN-FINDING while they fail)."""
    import dask
    import dask_array as da

    probes = {
        "swv-layout-drift": lambda: da.broadcast_to(
            da.sliding_window_view(da.from_array(np.arange(20).reshape(4, 5), chunks=((2, 2), (3, 2))), 2, axis=1).max(-1), (2, 4, 4)
        ),
        "take-through-broadcast": lambda: da.broadcast_to(da.ones((4, 5), chunks=(2, 3)), (2, 4, 5))[:, :, [-4, 1, 2, 0, -5, 4]],
    }
    # Array.persist() with array.optimize-graph=False hands an unsimplified expression to dask's generic optimizer;
    # when its slice pushdown meets a zero-width source chunk the rebuilt (from_graph) collection cannot locate its
    # blocks: its __dask_graph__() raises
    try:
        with dask.config.set({"array.optimize-graph": False}):
            y = da.from_array(np.arange(10), chunks=((2, 3, 0, 5),))[:7]
            p = y.persist(scheduler="sync")
            bad, _, _ = check_array(p, "persist(x[:7])")
        if bad:
            ctx.fail("persist-unoptimized:zero-width-chunk", {"probe": "persist-unoptimized:zero-width-chunk"}, bad[0][0] + ": " + bad[0][1])
    except Exception as e:
        ctx.fail("persist-unoptimized:zero-width-chunk", {"probe": "persist-unoptimized:zero-width-chunk"},
                 f"da.from_array(np.arange(10), chunks=((2,3,0,5),))[:7].persist() with array.optimize-graph=False: {type(e).__name__}: {str(e)[:160]}")
    for sig, mk in probes.items():
        try:
            with dask.config.set({"array.optimize-graph": True}):
                x = mk()
                bad, _, _ = check_array(x, sig)
            if bad:
                ctx.fail(sig, {"probe": sig}, bad[0][0] + ": " + bad[0][1])
        except Exception as e:
            ctx.fail(sig, {"probe": sig}, f"{type(e).__name__}: {str(e)[:200]}")
    # regression probe (repaired in /repo 85d14bd): one operand carrying the same label on two axes chunked differently
    # was not unified, so the diagonal blocks were not square (found by the repeated-operand stream,
    # harness/props_ext/c04_operands.py, which keeps generating such inputs)
    from harness.props_ext import c04_operands

    sig = c04_operands.SIG_REPEATED_LABEL
    what = "da.blockwise(np.diagonal, 'i', da.from_array(np.arange(16.).reshape(4, 4), chunks=((1, 3), (2, 2))), 'ii', dtype=float)"
    try:
        with dask.config.set({"array.optimize-graph": True}):
            x = da.blockwise(np.diagonal, "i", da.from_array(np.arange(16.0).reshape(4, 4), chunks=((1, 3), (2, 2))), "ii", dtype=float)
            bad, _, _ = check_array(x, "diagonal-blockwise")
        if bad:
            ctx.fail(sig, {"probe": sig, "program": what}, bad[0][0] + ": " + bad[0][1])
    except Exception as e:
        ctx.fail(sig, {"probe": sig, "program": what}, f"{type(e).__name__}: {str(e)[:200]}")
