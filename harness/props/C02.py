"""C02 — every optimization phase and every fired rewrite preserves values.

Theorems: Props/C02.lean (soundness of each modelled rewrite rule, any rule sequence).
Correspondence (harness/export.py, driver family ru.*): the (before, after) OBJECTS of every fired
rewrite are exported to the mini-language; when both sides export, the model must agree that the
pair is sound (`ru.equiv` = den equal on the concrete data; a 0 is a model/implementation
disagreement).  Evidence only (never a verdict): how many real rewrite instances are instances of a
modelled, PROVED rule (`ru.accepts`: the model rule applied to `before` gives the shape, chunks and
values of `after`) — `rule_instances_covered` / `rule_instances_uncovered` by real rule name.
Search: raw / simplified / lowered / fused forms and every (before, after) pair of every fired
rewrite are computed on the real code and compared (values, shape, dtype), incl. shared subtrees;
fused vs unfused graphs are compared block by block.
"""
from __future__ import annotations

import itertools
import warnings

import numpy as np

from harness import classify, export as X, graphs as G, progcheck as PC, programs as P, trace as T

KNOWN = ("swv-layout-drift", "take-through-broadcast", "slice-through-generic-blockwise", "swv-nested-wrong-values", "broadcast-axis-zero-width-chunk", "eye:offset:first-row-chunk-shorter")
def compute_expr(e):
    import dask
    from dask_array._new_collection import new_collection

    with warnings.catch_warnings():
        warnings.simplefilter("ignore")
        with dask.config.set({"array.optimize-graph": False}):
            return np.asarray(new_collection(e).compute(scheduler="sync"))


def blocks_of(e):
    import dask
    from dask_array._new_collection import new_collection

    with warnings.catch_warnings():
        warnings.simplefilter("ignore")
        with dask.config.set({"array.optimize-graph": False}):
            x = new_collection(e)
            values, _ = G.execute(G.to_tasks(x.__dask_graph__()))
    out = {}
    for bid in itertools.product(*[range(len(c)) for c in x.chunks]):
        out[bid] = np.asarray(values[(x.name, *bid)])
    return out


def eq(a, b):
    return a.shape == b.shape and a.dtype == b.dtype and np.array_equal(a, b)


def check_program(ctx, prog, want):
    env, exc = PC.build(prog)
    if exc is not None:
        if not classify.is_refusal(exc):
            ctx.fail(classify.classify(prog, ("exc", exc)), {"program": prog, "outcome": repr(exc)[:200]}, "construction raises")
        return
    x = env[prog[-1]["out"]]
    raw = x.expr
    T.clear_caches()
    try:
        with T.trace_objects() as recs:
            with warnings.catch_warnings():
                warnings.simplefilter("ignore")
                simp = raw.simplify()
                low = simp.lower_completely()
                fused = low.fuse()
    except Exception as e:  # noqa: BLE001
        sig = classify.classify(prog, ("exc", e))
        ctx.fail(sig, {"program": prog, "phase": "optimize", "outcome": repr(e)[:300]}, "optimization raises")
        return
    # phases
    forms = {"raw": raw, "simplified": simp, "lowered": low, "fused": fused}
    vals = {}
    for nm, e in forms.items():
        try:
            vals[nm] = compute_expr(e)
        except Exception as ex:  # noqa: BLE001
            if nm == "raw":
                # the property compares the phases of a computable program; a program whose RAW form
                # does not compute is C01's business (e.g. min/max over an empty selection)
                ctx.notes["raw_not_computable"] = ctx.notes.get("raw_not_computable", 0) + 1
                return
            sig = classify.classify(prog, ("exc", ex))
            ctx.fail(sig if sig in KNOWN else f"phase-raises:{nm}", {"program": prog, "phase": nm, "outcome": repr(ex)[:300]}, f"{nm} form raises when computed")
            return
        ctx.count(("phase", nm, type(e).__name__))
        if nm == "raw":
            if not (vals[nm].shape == want.shape and np.array_equal(vals[nm], want)):
                # the raw form already differs from NumPy: C01's finding, not a phase problem; the
                # phases below are compared with the RAW value
                ctx.notes["raw_differs_from_numpy"] = ctx.notes.get("raw_differs_from_numpy", 0) + 1
            want = vals["raw"]
            continue
        if not (vals[nm].shape == want.shape and np.array_equal(vals[nm], want) and vals[nm].dtype.kind == want.dtype.kind):
            sig = classify.classify(prog, ("value", nm))
            ctx.fail(sig if sig in KNOWN else f"phase-differs:{nm}", {"program": prog, "phase": nm, "got_shape": list(vals[nm].shape), "want_shape": list(want.shape)},
                     f"{nm} form computes different values/shape/dtype than NumPy")
            return
    # fused vs lowered, block by block (same output grid unless layouts differ legitimately)
    try:
        bl, bf = blocks_of(low), blocks_of(fused)
        if set(bl) == set(bf):
            for bid in bl:
                ctx.count(("fuse-block", len(bl) > 1))
                if not eq(bl[bid], bf[bid]):
                    ctx.fail("fusion-block-differs", {"program": prog, "block": list(bid)}, "a fused output block differs from the unfused block")
                    break
    except Exception as ex:  # noqa: BLE001
        ctx.fail("fusion-raises", {"program": prog, "outcome": repr(ex)[:300]}, "executing lowered/fused graphs raises")
    # every fired rewrite
    seen = set()
    for r in recs:
        key = (r["before"]._name, r["after"]._name)
        if key in seen:
            continue
        seen.add(key)
        ctx.count(("rewrite", r["rule"], type(r["before"]).__name__, type(r["after"]).__name__))
        ctx.notes["rewrites_checked"] = ctx.notes.get("rewrites_checked", 0) + 1
        try:
            b = compute_expr(r["before"])
        except Exception:  # the 'before' of a lower step may be a partially lowered node that cannot run alone
            ctx.notes["rewrite_before_not_computable"] = ctx.notes.get("rewrite_before_not_computable", 0) + 1
            continue
        try:
            a = compute_expr(r["after"])
        except Exception as ex:  # noqa: BLE001
            sig = classify.classify(prog, ("exc", ex))
            ctx.fail(sig if sig in KNOWN else f"rewrite-after-raises:{r['rule']}", {"program": prog, "rule": r["rule"], "before": type(r["before"]).__name__, "after": type(r["after"]).__name__, "outcome": repr(ex)[:300]},
                     "the product of a fired rewrite raises where its input computes")
            continue
        if not eq(a, b):
            ctx.fail(f"rewrite-differs:{r['rule']}", {"program": prog, "rule": r["rule"], "before": type(r["before"]).__name__, "after": type(r["after"]).__name__,
                                                      "before_shape": list(b.shape), "after_shape": list(a.shape), "before_dtype": str(b.dtype), "after_dtype": str(a.dtype)},
                     "a fired rewrite replaced a subexpression by one denoting a different array")
    # model correspondence: export every fired rewrite; the driver is consulted once, in run()
    X.collect(ctx, prog, recs)


def kernel_substitution_stream(ctx):
    """Sliding-window kernel substitution is a named rewrite of C02: exhaustive small domain of
    chunkings x windows x reducers (non-idempotent ones included), 1-D and as one axis of a 2-D array."""
    from harness import gen

    rng = ctx.rng
    nmax = ctx.scale(7, 9)
    cases = []
    for n in range(2, nmax + 1):
        for cks in gen.compositions(n):
            for w in range(1, n + 1):
                cases.append((n, cks, w))
    if len(cases) > ctx.scale(900, 12000):
        cases = rng.sample(cases, ctx.scale(900, 12000))
    for n, cks, w in cases:
        fn = rng.choice(["sum", "sum", "max", "min"])
        two_d = rng.random() < 0.3
        shape = [n, 2] if two_d else [n]
        chunks = [list(cks), [1, 1]] if two_d else [list(cks)]
        prog = [{"op": "src", "shape": shape, "chunks": chunks, "mul": 3, "off": 1, "mod": 17, "out": "v1"},
                {"op": "swv_reduce", "args": ["v1"], "window": w, "axis": 0, "fn": fn, "out": "v2"}]
        if rng.random() < 0.3:
            prog.append({"op": "affine", "args": ["v2"], "out": "v3"})
        want = P.run_np(prog)[prog[-1]["out"]]
        ctx.count(("swv", fn, len(cks) > 1, w > max(cks), w in cks))
        for opt in (True, False):
            f = PC.check_values(ctx, prog, want, opt)
            if f is not None:
                ctx.fail(f["sig"] if f["sig"] in KNOWN else "kernel-substitution:" + f["sig"], {"program": prog, **f},
                         "sliding-window reduction differs from NumPy (kernel substitution)")
                break


class _Directed(P.ProgGen):
    """ProgGen whose operand choice is the most recent variable: builds chains."""

    last = None

    def pick(self):
        return self.last

    def add(self, step, tags=()):
        self.last = super().add(step, tags)
        return self.last


DIRECTED = (
    ("getitem", "getitem"), ("unary", "getitem", "getitem"), ("getitem", "unary", "getitem"),
    ("transpose", "getitem"), ("unary", "transpose", "getitem"), ("transpose", "rechunk"),
    ("concatenate", "getitem"), ("concatenate", "getitem", "getitem"), ("stack", "getitem"),
    ("expand_dims", "getitem"), ("expand_dims", "rechunk"),
    ("reduce", "getitem"), ("unary", "reduce", "getitem"),
    ("rechunk", "rechunk"), ("unary", "rechunk"), ("binary_new", "rechunk"), ("binary_new", "getitem"),
    ("getitem", "rechunk"), ("rechunk", "getitem"), ("squeeze_any", "getitem"),
)


def rule_directed_stream(ctx):
    """Short chains built to fire the rewrites that the Lean model covers (slice∘slice fusion, slice
    through transpose / concatenate / stack / expand_dims / reductions / elemwise, the rechunk
    family), so that each of them is exercised in every run: same oracle as the main stream (NumPy),
    same per-rewrite comparison, same model correspondence."""
    rng = ctx.rng
    n = ctx.scale(260, 2600)
    for i in range(n):
        g = _Directed(rng, maxrank=3, maxdim=6, zero_axes=0.0, basic_only=True)
        g.new_source()
        g.last = list(g.env)[-1]
        pat = DIRECTED[i % len(DIRECTED)]
        ok = True
        for kind in pat:
            try:
                if kind == "squeeze_any":
                    # a keepdims reduction followed by squeeze of the reduced axis
                    x = g.env[g.last]
                    ax = rng.randrange(x.ndim)
                    g.add({"op": "reduce", "fn": rng.choice(P.REDUCE), "args": [g.last], "axis": [ax], "keepdims": True, "split_every": None})
                    g.add({"op": "squeeze", "args": [g.last], "axis": ax})
                else:
                    getattr(g, "g_" + kind)()
            except P._Skip:
                ok = False
                break
        if not ok or not g.prog:
            continue
        ctx.count(("directed", pat))
        check_program(ctx, g.prog, g.env[g.prog[-1]["out"]])


def run(ctx, replay=None):
    rng = ctx.rng
    ctx.rule = (
        "seeded random programs (shared subtrees arise from variable reuse); for each: 4 phase forms computed and compared "
        "with NumPy, fused vs lowered graphs compared block by block, and EVERY rewrite fired by simplify/lower "
        "(hooks _simplify_down/_simplify_up/_lower wrapped from the harness) has its before/after objects computed and "
        "compared; distinct = (rule, before class, after class) and (phase, root class)"
    )
    if replay is not None:
        if replay.get("case", {}).get("fusion"):  # failures of the fusion section (harness/props_ext/c02_fusion.py)
            from harness.props_ext import c02_fusion
            return c02_fusion.run_fusion(ctx, replay)
        if "operands" in replay.get("case", {}) or "tree" in replay.get("case", {}):  # harness/props_ext/c02_lower.py
            from harness.props_ext import c02_lower
            return c02_lower.run(ctx, replay)
        if replay.get("case", {}).get("rawfree"):  # rewrite-free phase comparison (harness/props_ext/c02_rawfree.py)
            from harness.props_ext import c02_rawfree
            return c02_rawfree.run(ctx, replay)
        if replay.get("case", {}).get("rsl"):  # harness/props_ext/c02_redslice.py
            from harness.props_ext import c02_redslice
            return c02_redslice.run(ctx, replay)
        if replay.get("case", {}).get("crt"):  # harness/props_ext/c02_creation.py
            from harness.props_ext import c02_creation
            return c02_creation.run(ctx, replay)
        if replay.get("case", {}).get("prm"):  # harness/props_ext/c02_perm.py
            from harness.props_ext import c02_perm
            return c02_perm.run(ctx, replay)
        if replay.get("case", {}).get("ovs"):  # harness/props_ext/c02_overlap.py
            from harness.props_ext import c02_overlap
            return c02_overlap.run(ctx, replay)
        if replay.get("case", {}).get("crs"):  # harness/props_ext/c02_coarse.py
            from harness.props_ext import c02_coarse
            return c02_coarse.run(ctx, replay)
        if replay.get("case", {}).get("bwg"):  # harness/props_ext/c02_gate.py
            from harness.props_ext import c02_gate
            return c02_gate.run(ctx, replay)
        if replay.get("case", {}).get("grid"):  # grid-sensitive consumers (harness/props_ext/c02_grid.py)
            from harness.props_ext import c02_grid
            return c02_grid.run_grid(ctx, replay)
        prog = replay["case"]["program"]
        check_program(ctx, prog, P.run_np(prog)[prog[-1]["out"]])
        X.flush(ctx)
        return
    PC.probe_known(ctx, KNOWN)
    N = ctx.scale(400, 4000)
    for i in range(N):
        prog, g = P.gen_program(rng, depth=rng.randint(2, ctx.scale(6, 9)), avoid=("swv-consumer",), zero_axes=0.0)
        want = g.env[prog[-1]["out"]]
        check_program(ctx, prog, want)
        if i < 3:
            ctx.sample({"program": prog})
    kernel_substitution_stream(ctx)
    rule_directed_stream(ctx)
    # third-round directed chains (rank-4/5 permutations under integer indices, creation functions with name= / dtype= /
    # chunks forms, ufunc(out=[, where=]) under every index kind) with a rewrite-free phase comparison
    from harness.props_ext import c02_rawfree
    c02_rawfree.run(ctx)
    rules = sorted({k[1] for k in ctx.distinct if k and k[0] == "rewrite"})
    ctx.extra["rules_fired"] = rules
    # model correspondence for all collected rewrites (one driver batch)
    X.flush(ctx)
    ctx.assumptions.append(
        "model correspondence covers the rewrites whose two sides export to the mini-language (FromArray over program "
        "sources, Elemwise over programs.UNARY/BINARY, basic slices, transpose, rechunk, concatenate/stack, expand_dims, "
        "squeeze, broadcast_to, sum/max/min incl. lowered PartialReduce, sequential cumsum); the others are checked by "
        "the computed before/after comparison only"
    )
    # fusion clause (Props/C02Fusion.lean, driver family fu.*): see harness/props_ext/c02_fusion.py
    from harness.props_ext import c02_fusion
    c02_fusion.run_fusion(ctx)
    from harness.props_ext import c02_rules2  # phase 3 rules (Props/C02Ext.lean; ru2.*)
    c02_rules2.run_ext(ctx)
    from harness.props_ext import c02_grid  # block-layout-sensitive consumers over pushdown targets (grid contract)
    c02_grid.run_grid(ctx)
    from harness.props_ext import c02_lower  # chunk unification at lowering (Props/C02Lower.lean, C17Lower.lean; lwu.*)
    c02_lower.run(ctx)
    from harness.props_ext import c02_gate  # generic Blockwise pushdown gates (Props/C02Gate.lean; bwg.*)
    c02_gate.run(ctx)
    from harness.props_ext import c02_overlap  # slice through map_overlap (Props/C02Overlap.lean; ovs.*)
    c02_overlap.run(ctx)
    from harness.props_ext import c02_coarse  # coarse slice pushdown through adjust_chunks blockwise (Props/C02Coarse.lean; crs.*)
    c02_coarse.run(ctx)
    from harness.props_ext import c02_perm  # axis permutation rules (Props/C02Perm.lean; prm.*)
    c02_perm.run(ctx)
    from harness.props_ext import c02_creation  # slices / takes folded into creation arrays (Props/C02Creation.lean; crt.*)
    c02_creation.run(ctx)
    from harness.props_ext import c02_redslice  # slice pushdown through reductions (Props/C02ReduceSlice.lean; rsl.*)
    c02_redslice.run(ctx)
