"""C22 — native Rust layers vs Python layers (PARTIAL: pure planning kernels + the declining wrappers).

The extension `dask_array._rust` cannot be built offline (pyo3 is not in the cargo registry), so
NOT executed by this check: the expansion code inside `#[pymethods]` / `impl …Layer { fn expand }`
(cartesian products, key assembly, nesting), `to_dask_graph` / `to_task_records` /
`to_records_chunk` (encoding), and the build-generation guard.

What is tied, on every run:
  1. the std-only planning kernels are EXTRACTED by brace matching from the current
     crates/dask-array-python/src/*.rs (top-level `fn`s that mention no pyo3 / crate types), wrapped in a
     std-only main.rs speaking a line protocol, compiled with `rustc -O` in a temp dir under /tmp, and
     compared THREE-WAY  Rust kernel  vs  Lean model  vs  Python original:
        cum + breakpoints + intersect_1d  ~ rc.old_to_new      ~ _rechunk.old_to_new (one axis)
        partition_all(size, n)            ~ py.partition_all    ~ tlz.partition_all(size, range(n))
        searchsorted_right                ~ py.bisect_right     ~ bisect.bisect_right
     and two-way (Rust vs Python, no Lean model): for_each_non_axis_position (generic collecting wrapper, vs
     itertools.product over the non-sliding grid), argsort_i64/usize, key_string, grid_nbytes, expected_nbytes_for,
     advance, full_coord, product_u32, getitem_coord_from_choice, intern, w_u32/w_i64/w_str/w_bytes/w_opt_i64.
     Evidence lists every std-only fn found (compared / not compared) and every other top-level fn with the reason.
  2. with the extension absent, every expression kind that has a `_frisky_layer` declines
     (ImportError / NotImplementedError only) and `x.__dask_graph__()` / `collect_task_records(x)` fall back
     to the Python `_layer()` and compute NumPy's values.
  3. "declines instead of emitting a different graph": for every lowered node, the records of the layer the records walk
     then uses (the generic GraphRecordsLayer adapter, or the pure-Python side of FusedBlockwiseLayer) define exactly the
     keys of the node's Python `_layer()` (plus `<key>-subN` helpers) with the same external dependencies per key and
     carry no graph node in their arguments (harness.props_ext.c21_nested.layer_fidelity), and the collection's records
     execute to the values of its dask graph.  Nodes come from the catalogue, from seeded random programs and from the
     container cases of harness.props_ext.c21_nested (dask objects nested in list / tuple / dict arguments and keyword
     arguments of map_blocks / blockwise / map_overlap / apply_gufunc / from_delayed / store: the variants the native
     BlockwiseLayer declines with "dask collection in a keyword argument" / "… in a literal argument").
"""
from __future__ import annotations

import bisect
import hashlib
import importlib
import itertools
import pkgutil
import re
import shutil
import subprocess
import tempfile
import warnings

import numpy as np

from harness import core, gen
from harness.core import f_list, f_ll

# ------------------------------------------------------------------------- extraction

STD_CAPS = {
    "Vec", "String", "HashMap", "HashSet", "BTreeMap", "Option", "Some", "None", "Ok", "Err", "Result", "Box",
    "IntoIterator", "Iterator", "Item", "MAX", "MIN", "Ordering", "Self", "Default", "Clone", "Copy", "ToString",
    "Fn", "FnMut", "FnOnce",
}
FN_RE = re.compile(r"^(?:pub(?:\([^)]*\))?\s+)?fn\s+([A-Za-z_][A-Za-z0-9_]*)", re.M)


def _match_braces(src, i):
    """Index just past the `}` closing the first `{` at or after i (skips strings, chars, comments)."""
    n = len(src)
    depth = 0
    started = False
    while i < n:
        c = src[i]
        if src.startswith("//", i):
            j = src.find("\n", i)
            i = n if j < 0 else j
            continue
        if src.startswith("/*", i):
            j = src.find("*/", i + 2)
            i = n if j < 0 else j + 2
            continue
        if c == '"':
            i += 1
            while i < n and src[i] != '"':
                i += 2 if src[i] == "\\" else 1
            i += 1
            continue
        if c == "'":
            # char literal or lifetime
            if i + 2 < n and src[i + 1] == "\\":
                j = src.find("'", i + 2)
                i = j + 1
                continue
            if i + 2 < n and src[i + 2] == "'":
                i += 3
                continue
            i += 1
            continue
        if c == "{":
            depth += 1
            started = True
        elif c == "}":
            depth -= 1
            if started and depth == 0:
                return i + 1
        elif c == ";" and not started:
            return None  # declaration without body
        i += 1
    return None


def extract_kernels(srcdir):
    """{name: (file, text)} for the top-level fns that use std types only."""
    found = {}
    skipped = {}
    for f in sorted(srcdir.glob("*.rs")):
        src = f.read_text()
        for m in FN_RE.finditer(src):
            name = m.group(1)
            end = _match_braces(src, m.start())
            if end is None:
                continue
            text = src[m.start():end]
            body = re.sub(r'"(?:\\.|[^"\\])*"', '""', text)  # ignore string contents
            body = re.sub(r"//[^\n]*", "", body)
            caps = set(re.findall(r"\b[A-Z][A-Za-z0-9_]*\b", body))
            impure = (caps - STD_CAPS) or ("crate::" in body) or ("pyo3" in body) or ("'py" in body)
            if impure:
                skipped[f"{f.name}:{name}"] = sorted(caps - STD_CAPS)[:4]
                continue
            text = re.sub(r"^pub(?:\([^)]*\))?\s+", "", text)
            if name in found:
                if found[name][1] == text:
                    continue
                name2 = f"{name}__{f.stem}"
                text = re.sub(r"\bfn\s+" + name + r"\b", "fn " + name2, text, count=1)
                name = name2
            found[name] = (f.name, text)
    return found, skipped


MAIN_HEAD = """#![allow(dead_code, unused_variables, unused_mut, unused_imports, unused_assignments)]
use std::collections::HashMap;
use std::io::{self, BufRead, Write};

"""

MAIN_HELPERS = """
fn parse_list(s: &str) -> Vec<i64> {
    if s == "_" { Vec::new() } else { s.split(',').map(|t| t.parse::<i64>().unwrap()).collect() }
}
fn fmt_list<T: ToString>(v: &[T]) -> String {
    if v.is_empty() { "_".to_string() } else { v.iter().map(|x| x.to_string()).collect::<Vec<_>>().join(",") }
}
"""

HANDLERS = {
    "o2n": (("cum", "breakpoints", "intersect_1d"), """
            "o2n" => {
                let old = parse_list(t[1]); let new = parse_list(t[2]);
                let r = intersect_1d(&breakpoints(&cum(&old), &cum(&new)));
                if r.is_empty() { "ok -".to_string() } else {
                    format!("ok {}", r.iter().map(|blk| if blk.is_empty() { "_".to_string() } else {
                        blk.iter().map(|p| format!("{}@{}:{}", p.0, p.1, p.2)).collect::<Vec<_>>().join(",") })
                        .collect::<Vec<_>>().join(";"))
                }
            }"""),
    "cum": (("cum",), """
            "cum" => { let c = parse_list(t[1]); format!("ok {}", fmt_list(&cum(&c))) }"""),
    "pa": (("partition_all",), """
            "pa" => {
                let size: usize = t[1].parse().unwrap(); let n: usize = t[2].parse().unwrap();
                let r = partition_all(size, n);
                if r.is_empty() { "ok -".to_string() } else {
                    format!("ok {}", r.iter().map(|p| fmt_list(p)).collect::<Vec<_>>().join(";")) }
            }"""),
    "ssr": (("searchsorted_right",), """
            "ssr" => { let b = parse_list(t[1]); let v: i64 = t[2].parse().unwrap(); format!("ok {}", searchsorted_right(&b, v)) }"""),
    "argsort": (("argsort_i64",), """
            "argsort" => { let b = parse_list(t[1]); format!("ok {}", fmt_list(&argsort_i64(&b))) }"""),
    "key": (("key_string",), """
            "key" => { let c: Vec<u32> = parse_list(t[2]).iter().map(|&x| x as u32).collect(); format!("ok {}", key_string(t[1], &c)) }"""),
    "nbytes": (("grid_nbytes",), """
            "nbytes" => { let it: i64 = t[1].parse().unwrap(); format!("ok {}", grid_nbytes(it, parse_list(t[2]))) }"""),
    "advance": (("advance",), """
            "advance" => {
                let mut pos: Vec<u32> = parse_list(t[1]).iter().map(|&x| x as u32).collect();
                let lim: Vec<u32> = parse_list(t[2]).iter().map(|&x| x as u32).collect();
                advance(&mut pos, &lim); format!("ok {}", fmt_list(&pos))
            }"""),
    "fullcoord": (("full_coord",), """
            "fullcoord" => {
                let na: Vec<u32> = parse_list(t[1]).iter().map(|&x| x as u32).collect();
                let av: u32 = t[2].parse().unwrap(); let ax: usize = t[3].parse().unwrap(); let nd: usize = t[4].parse().unwrap();
                format!("ok {}", fmt_list(&full_coord(&na, av, ax, nd)))
            }"""),
    "nonaxis": (("for_each_non_axis_position",), """
            "nonaxis" => {
                // generic wrapper: collect the full coordinate the closure builds at every visited position
                let nb: Vec<usize> = parse_list(t[1]).iter().map(|&x| x as usize).collect();
                let ax: usize = t[2].parse().unwrap(); let blk: u32 = t[3].parse().unwrap();
                let mut seen: Vec<Vec<u32>> = Vec::new();
                for_each_non_axis_position(&nb, ax, |full| { seen.push(full(blk)); });
                seen.sort();
                if seen.is_empty() { "ok -".to_string() } else {
                    format!("ok {}", seen.iter().map(|c| fmt_list(c)).collect::<Vec<_>>().join(";")) }
            }"""),
    "argsortu": (("argsort_usize",), """
            "argsortu" => { let b: Vec<usize> = parse_list(t[1]).iter().map(|&x| x as usize).collect(); format!("ok {}", fmt_list(&argsort_usize(&b))) }"""),
    "gcoord": (("getitem_coord_from_choice",), """
            "gcoord" => {
                let firsts = parse_list(t[1]); let seconds = parse_list(t[2]); let lens = parse_list(t[3]);
                let pos: Vec<u32> = parse_list(t[4]).iter().map(|&x| x as u32).collect();
                let mut choices: Vec<Vec<(u32, u32)>> = Vec::new(); let mut k = 0usize;
                for &l in lens.iter() { let mut row = Vec::new(); for _ in 0..l { row.push((firsts[k] as u32, seconds[k] as u32)); k += 1; } choices.push(row); }
                format!("ok {}", fmt_list(&getitem_coord_from_choice(&choices, &pos)))
            }"""),
    "intern": (("intern",), """
            "intern" => {
                let mut names: Vec<String> = Vec::new(); let mut index: HashMap<String, usize> = HashMap::new();
                let ids: Vec<usize> = t[1].split(',').map(|s| intern(s.to_string(), &mut names, &mut index)).collect();
                format!("ok {} {}", fmt_list(&ids), names.join(","))
            }"""),
    "wprim": (("w_u32", "w_i64", "w_str", "w_bytes", "w_opt_i64"), """
            "wprim" => {
                let mut buf: Vec<u8> = Vec::new();
                match t[1] {
                    "u32" => w_u32(&mut buf, t[2].parse().unwrap()),
                    "i64" => w_i64(&mut buf, t[2].parse().unwrap()),
                    "str" => w_str(&mut buf, t[2]),
                    "bytes" => w_bytes(&mut buf, t[2].as_bytes()),
                    "opt" => w_opt_i64(&mut buf, if t[2] == "N" { None } else { Some(t[2].parse().unwrap()) }),
                    _ => {}
                }
                format!("ok {}", buf.iter().map(|b| format!("{:02x}", b)).collect::<Vec<_>>().join(""))
            }"""),
    "expnb": (("expected_nbytes_for", "grid_nbytes"), """
            "expnb" => {
                let coord: Vec<u32> = parse_list(t[2]).iter().map(|&x| x as u32).collect();
                let chunks: Vec<Vec<i64>> = if t[4] == "-" { Vec::new() } else { t[4].split(';').map(|d| parse_list(d)).collect() };
                format!("ok {}", expected_nbytes_for(t[1], &coord, t[3], &chunks, t[5].parse().unwrap()))
            }"""),
    "product": (("product_u32",), """
            "product" => { let v: Vec<u32> = parse_list(t[1]).iter().map(|&x| x as u32).collect(); format!("ok {}", product_u32(&v)) }"""),
}


def build_rust(kernels, tmp):
    have = [h for h, (need, _) in HANDLERS.items() if all(k in kernels for k in need)]
    arms = "".join(HANDLERS[h][1] for h in have)
    main = (
        MAIN_HEAD + "\n\n".join(text for _, text in kernels.values()) + "\n" + MAIN_HELPERS + """
fn main() {
    let stdin = io::stdin();
    let stdout = io::stdout();
    let mut out = io::BufWriter::new(stdout.lock());
    for line in stdin.lock().lines() {
        let line = line.unwrap();
        let t: Vec<&str> = line.split_whitespace().collect();
        if t.is_empty() { writeln!(out, "bad-op").unwrap(); continue; }
        let r: String = match t[0] {""" + arms + """
            _ => "bad-op".to_string(),
        };
        writeln!(out, "{}", r).unwrap();
    }
}
"""
    )
    (tmp / "main.rs").write_text(main)
    p = subprocess.run(["rustc", "-O", "--edition", "2021", "-o", str(tmp / "kern"), str(tmp / "main.rs")],
                       capture_output=True, text=True, timeout=600, cwd=tmp)
    if p.returncode != 0:
        raise RuntimeError("rustc failed on the extracted kernels:\n" + p.stderr[-3000:])
    return tmp / "kern", have


def run_rust(binary, lines):
    if not lines:
        return []
    p = subprocess.run([str(binary)], input="\n".join(lines) + "\n", capture_output=True, text=True, timeout=3600)
    if p.returncode != 0:
        # a panic (e.g. an out-of-bounds index introduced by a change) : find the offending line by bisection
        return None
    out = p.stdout.split("\n")
    if out and out[-1] == "":
        out.pop()
    return out


def run_rust_safe(binary, lines):
    """Like run_rust but survives a panicking kernel: the output of a crashing line is `panic`."""
    out = run_rust(binary, lines)
    if out is not None and len(out) == len(lines):
        return out
    if len(lines) == 1:
        return ["panic"]
    mid = len(lines) // 2
    return run_rust_safe(binary, lines[:mid]) + run_rust_safe(binary, lines[mid:])


# ------------------------------------------------------------------------ python originals

def f_cross(ax):
    if not ax:
        return "-"
    return ";".join(("_" if not blk else ",".join(f"{i}@{s.start}:{s.stop}" for i, s in blk)) for blk in ax)


def py_o2n(R, old, new):
    return "ok " + f_cross(R.old_to_new((tuple(old),), (tuple(new),))[0])


def py_grid_nbytes(itemsize, sizes):
    if itemsize <= 0:
        return 0
    n = itemsize
    for s in sizes:
        if s <= 0:
            return 0
        n *= s
        if n > 2**63 - 1:
            return 2**63 - 1
    return n


def py_advance(pos, lim):
    pos = list(pos)
    for d in reversed(range(len(pos))):
        pos[d] += 1
        if pos[d] < lim[d]:
            break
        pos[d] = 0
    return pos


# ------------------------------------------------------------------------------ checks

def three_way(ctx, fam, triples):
    """triples: (lean_request, rust_request, python_output).  Lean vs Python goes through ctx.correspond; Rust is
    compared with both (a Rust deviation is a model/implementation disagreement of the Rust implementation)."""
    triples = list(triples)
    ctx.correspond(fam + "[lean~python]", [(lq, py) for lq, _, py in triples if lq is not None])
    routs = run_rust_safe(ctx._rust_bin, [rq for _, rq, _ in triples])
    nd = 0
    for (lq, rq, py), ro in zip(triples, routs):
        ctx.traces += 1
        ctx.evaluations += 1
        ctx.distinct.add((fam, "rust", ro[:24], len(rq) // 8))
        if ro != py:
            nd += 1
            if len(ctx.disagreements) < 200:
                ctx.disagree(fam + "[rust~python]", rq, ro, py)
    ctx.notes[f"corr.{fam}[rust~python]"] = ctx.notes.get(f"corr.{fam}[rust~python]", 0) + len(triples)
    if triples:
        ctx.sample({"family": fam, "rust_request": triples[len(triples) // 2][1], "rust": routs[len(triples) // 2],
                    "python": triples[len(triples) // 2][2]})
    return nd


def rand_chunks_big(rng, zeros):
    style = rng.random()
    if style < 0.6:
        n = rng.choice([1, 2, 5, 17, 100, 1000])
        return list(gen.rand_chunks(rng, n, zeros=zeros, maxparts=12))
    k = rng.randint(1, 12)
    return [rng.choice([0, 1, 2, 7, 2**20, 2**40]) if rng.random() < 0.5 else rng.randint(0, 10**6) for _ in range(k)]


def kernel_corr(ctx, R, have):
    import tlz

    rng = ctx.rng
    N = ctx.scale(10_000, 1_000_000)
    # split of the budget between families
    n_o2n = N * 6 // 10
    n_pa = N * 2 // 10
    n_ss = N - n_o2n - n_pa
    if "o2n" in have:
        tr = []
        # exhaustive small
        for n in range(0, 5):
            comps = list(gen.compositions(n, zeros=True, maxparts=3)) if n else [(0,), (0, 0)]
            for o in comps:
                for nw in comps:
                    tr.append((f"rc.old_to_new {f_list(o)} {f_list(nw)}", f"o2n {f_list(o)} {f_list(nw)}", py_o2n(R, o, nw)))
        # MANY blocks per axis (25-200) with many coinciding old/new boundaries: std's unstable sort is an insertion
        # sort (ties keep their order) up to 20 elements, so a lost stability of `breakpoints` only shows here
        for _ in range(max(400, n_o2n // 8)):
            k = rng.randint(25, 200)
            o = [rng.choice([0, 1, 1, 2, 3, 7]) for _ in range(k)]
            cuts = [0]
            for c in o:
                cuts.append(cuts[-1] + c)
            keep = sorted(set(b_ for b_ in cuts[1:-1] if rng.random() < rng.choice([0.3, 0.6, 0.9])) |
                          {rng.randint(0, cuts[-1]) for _ in range(rng.randint(0, 5))})
            bounds = [0] + keep + [cuts[-1]]
            nw = [b2 - b1 for b1, b2 in zip(bounds, bounds[1:])]
            if rng.random() < 0.3:
                for _ in range(rng.randint(1, 3)):
                    nw.insert(rng.randint(0, len(nw)), 0)
            if rng.random() < 0.5:
                o, nw = nw, o
            tr.append((f"rc.old_to_new {f_list(o)} {f_list(nw)}", f"o2n {f_list(o)} {f_list(nw)}", py_o2n(R, o, nw)))
        while len(tr) < n_o2n:
            o = rand_chunks_big(rng, 0.3)
            if rng.random() < 0.9:
                # same total: re-chunk the same length
                tot = sum(o)
                nw = list(gen.rand_chunks(rng, tot, zeros=0.3, maxparts=12)) if tot <= 10**6 else [tot // 2, tot - tot // 2]
            else:
                nw = rand_chunks_big(rng, 0.3)  # malformed stream: totals differ
            tr.append((f"rc.old_to_new {f_list(o)} {f_list(nw)}", f"o2n {f_list(o)} {f_list(nw)}", py_o2n(R, o, nw)))
        three_way(ctx, "cum+breakpoints+intersect_1d", tr)
    if "pa" in have:
        tr = []
        for n in range(0, 9):
            for k in range(1, 11):
                tr.append((f"py.partition_all {k} {f_list(range(n))}", f"pa {k} {n}", "ok " + f_ll(tlz.partition_all(k, range(n)))))
        while len(tr) < n_pa:
            n = rng.choice([0, 1, 2, 3, 7, 16, 33, 100, rng.randint(0, 300)])
            k = rng.choice([1, 2, 3, 4, 8, 16, rng.randint(1, 400)])
            tr.append((f"py.partition_all {k} {f_list(range(n))}", f"pa {k} {n}", "ok " + f_ll(tlz.partition_all(k, range(n)))))
        three_way(ctx, "partition_all", tr)
    if "ssr" in have:
        tr = []
        while len(tr) < n_ss:
            l = sorted(rng.choice([rng.randint(0, 12), rng.randint(-5, 10**12)]) for _ in range(rng.randint(0, 10)))
            v = rng.choice(l) if l and rng.random() < 0.5 else rng.randint(-6, 13)
            tr.append((f"py.bisect_right {f_list(l)} {v}", f"ssr {f_list(l)} {v}", f"ok {bisect.bisect_right(l, v)}"))
        three_way(ctx, "searchsorted_right", tr)
    # two-way families (no Lean model)
    M = ctx.scale(1500, 50_000)
    tr = []
    for _ in range(M):
        if "argsort" in have:
            l = [rng.randint(-5, 5) for _ in range(rng.randint(0, 12))]
            tr.append((None, f"argsort {f_list(l)}", "ok " + f_list(np.argsort(np.array(l, dtype=np.int64), kind="stable").tolist())))
        if "key" in have:
            nm = rng.choice(["x", "rechunk-merge-ab12", "sum-aggregate-0f"])
            co = [rng.randint(0, 2**31) if rng.random() < 0.1 else rng.randint(0, 20) for _ in range(rng.randint(0, 4))]
            tr.append((None, f"key {nm} {f_list(co)}", "ok " + str((nm, *co))))
        if "nbytes" in have:
            it = rng.choice([0, 1, 2, 4, 8, 16, -1])
            sz = [rng.choice([0, 1, 3, 100, 2**20, 2**31, -2]) for _ in range(rng.randint(0, 5))]
            tr.append((None, f"nbytes {it} {f_list(sz)}", f"ok {py_grid_nbytes(it, sz)}"))
        if "advance" in have:
            lim = [rng.randint(1, 4) for _ in range(rng.randint(0, 4))]
            pos = [rng.randint(0, l - 1) for l in lim]
            tr.append((None, f"advance {f_list(pos)} {f_list(lim)}", "ok " + f_list(py_advance(pos, lim))))
        if "fullcoord" in have:
            nd = rng.randint(1, 5)
            ax = rng.randrange(nd)
            na = [rng.randint(0, 9) for _ in range(nd - 1)]
            av = rng.randint(0, 9)
            full = na[:ax] + [av] + na[ax:]
            tr.append((None, f"fullcoord {f_list(na)} {av} {ax} {nd}", "ok " + f_list(full)))
        if "argsortu" in have:
            l = [rng.randint(0, 6) for _ in range(rng.randint(0, 30))]
            tr.append((None, f"argsortu {f_list(l)}", "ok " + f_list(np.argsort(np.array(l, dtype=np.int64), kind="stable").tolist())))
        if "gcoord" in have:
            lens = [rng.randint(1, 3) for _ in range(rng.randint(1, 4))]
            ch = [[(rng.randint(0, 9), rng.randint(0, 9)) for _ in range(l)] for l in lens]
            pos = [rng.randrange(l) for l in lens]
            flat = [p_ for row in ch for p_ in row]
            want = [ch[d][pos[d]][0] for d in range(len(lens))] + [ch[d][pos[d]][1] for d in range(len(lens))]
            tr.append((None, f"gcoord {f_list(p_[0] for p_ in flat)} {f_list(p_[1] for p_ in flat)} {f_list(lens)} {f_list(pos)}", "ok " + f_list(want)))
        if "intern" in have:
            nms = [rng.choice(["a", "b", "sum-1", "x-merge", "x-split"]) for _ in range(rng.randint(1, 8))]
            tab = {}
            ids = [tab.setdefault(n_, len(tab)) for n_ in nms]
            tr.append((None, f"intern {','.join(nms)}", f"ok {f_list(ids)} {','.join(tab)}"))
        if "wprim" in have:
            import struct

            kind = rng.choice(["u32", "i64", "str", "bytes", "opt"])
            if kind == "u32":
                v = rng.choice([0, 1, 255, 256, 2**32 - 1, rng.randint(0, 2**32 - 1)])
                tr.append((None, f"wprim u32 {v}", "ok " + struct.pack("<I", v).hex()))
            elif kind == "i64":
                v = rng.choice([0, -1, 2**63 - 1, -2**63, rng.randint(-2**40, 2**40)])
                tr.append((None, f"wprim i64 {v}", "ok " + struct.pack("<q", v).hex()))
            elif kind in ("str", "bytes"):
                v = rng.choice(["a", "rechunk-merge-ab12", "x" * rng.randint(1, 40), "é-ü"])
                bts = v.encode()
                tr.append((None, f"wprim {kind} {v}", "ok " + (struct.pack("<I", len(bts)) + bts).hex()))
            else:
                v = rng.choice([None, 0, -5, 2**40])
                tr.append((None, f"wprim opt {'N' if v is None else v}", "ok " + (b"\x00" if v is None else b"\x01" + struct.pack("<q", v)).hex()))
        if "expnb" in have:
            nd_ = rng.randint(0, 3)
            chs = [[rng.choice([0, 1, 3, 100, 2**31]) for _ in range(rng.randint(1, 3))] for _ in range(nd_)]
            co = [rng.randint(0, 3) for _ in range(rng.choice([nd_, nd_, max(0, nd_ - 1)]))]
            tn, on = rng.choice([("a", "a"), ("a", "b")])
            it = rng.choice([0, 1, 8])
            if tn != on or len(co) != len(chs):
                want = 0
            else:
                want = py_grid_nbytes(it, [chs[d][co[d]] if co[d] < len(chs[d]) else 0 for d in range(nd_)])
            tr.append((None, f"expnb {tn} {f_list(co)} {on} {f_ll(chs)} {it}", f"ok {want}"))
        if "product" in have:
            v = [rng.randint(0, 50) for _ in range(rng.randint(0, 5))]
            tr.append((None, f"product {f_list(v)}", f"ok {int(np.prod(v, dtype=object)) if v else 1}"))
    if tr:
        three_way(ctx, "two-way(small kernels)", tr)
    # for_each_non_axis_position (shared by the sliding-window / moving-window layers): the visited block coordinates
    # must be exactly the grid of the non-sliding dimensions (itertools.product, as the Python _layer enumerates)
    if "nonaxis" in have:
        tr = []
        grids = [(5, 2, 3, 2), (2, 3, 2, 2), (3, 2, 2, 3, 2), (1,), (4,), (2, 2), (1, 3, 1, 2), (2, 1, 2, 1, 2)]
        for _ in range(ctx.scale(300, 20_000)):
            grids.append(tuple(rng.randint(1, 4) for _ in range(rng.randint(1, 5))))
        for nb in grids:
            for ax in (range(len(nb)) if len(grids) < 400 or rng.random() < 0.3 else [rng.randrange(len(nb))]):
                blk = rng.randrange(nb[ax])
                want = sorted(tuple(blk if d == ax else o[d - (d > ax)] for d in range(len(nb)))
                              for o in itertools.product(*(range(nb[d]) for d in range(len(nb)) if d != ax)))
                tr.append((None, f"nonaxis {f_list(nb)} {ax} {blk}", "ok " + f_ll(want)))
        three_way(ctx, "for_each_non_axis_position", tr)
    # advance enumerates itertools.product order: walk a whole grid
    if "advance" in have:
        tr = []
        for lim in ((2, 3), (3, 1, 2), (1,), (2, 2, 2, 2)):
            cells = list(itertools.product(*(range(l) for l in lim)))
            for a, b in zip(cells, cells[1:] + cells[:1]):
                tr.append((None, f"advance {f_list(a)} {f_list(lim)}", "ok " + f_list(b)))
        three_way(ctx, "advance=itertools.product order", tr)


# ---- the wrappers decline without the extension

def frisky_classes():
    import dask_array

    out = {}
    for m in pkgutil.walk_packages(dask_array.__path__, "dask_array."):
        if ".tests" in m.name or m.name.startswith("dask_array._frisky") or m.name.endswith("._rust"):
            continue
        try:
            mod = importlib.import_module(m.name)
        except Exception:
            continue
        for k, v in vars(mod).items():
            if isinstance(v, type) and "_frisky_layer" in v.__dict__ and v.__module__ == mod.__name__:
                out[f"{v.__module__}.{v.__name__}"] = v
    return out


def catalogue():
    """(label, builder) pairs; each builder returns (dask array, numpy reference)."""
    import dask_array as da

    d = np.arange(24, dtype=np.int64).reshape(4, 6)

    def src(chunks=((1, 3), (2, 2, 2))):
        return da.from_array(d, chunks=chunks)

    C = []
    add = lambda name, f: C.append((name, f))
    add("from_array", lambda: (src(), d))
    add("elemwise", lambda: (src() * 2 + 1, d * 2 + 1))
    add("elemwise-broadcast", lambda: (src() + da.from_array(d[0], chunks=3), d + d[0]))
    add("map_blocks", lambda: (src().map_blocks(lambda b: b * 3), d * 3))
    add("sum", lambda: (src().sum(axis=0), d.sum(axis=0)))
    add("sum-split", lambda: (da.from_array(d, chunks=(1, 1)).sum(split_every=2), d.sum()))
    add("max-keepdims", lambda: (src().max(axis=1, keepdims=True), d.max(axis=1, keepdims=True)))
    add("mean", lambda: (src().mean(axis=1), d.mean(axis=1)))
    add("argmax", lambda: (src().argmax(axis=1), d.argmax(axis=1)))
    add("rechunk", lambda: (src().map_blocks(lambda b: b).rechunk(((2, 2), (3, 3))), d))
    add("slice", lambda: (src().map_blocks(lambda b: b)[1:4, ::2], d[1:4, ::2]))
    add("slice-int", lambda: (src().map_blocks(lambda b: b)[2, 1:5], d[2, 1:5]))
    add("take", lambda: (src().map_blocks(lambda b: b)[:, [5, 0, 3, 3]], d[:, [5, 0, 3, 3]]))
    add("blocks", lambda: (src().blocks[1, 1:3], d[1:4, 2:6]))
    add("concatenate", lambda: (da.concatenate([src(), src() + 1], axis=0), np.concatenate([d, d + 1], axis=0)))
    add("stack", lambda: (da.stack([src(), src() + 1], axis=1), np.stack([d, d + 1], axis=1)))
    add("transpose", lambda: (src().T + 0, d.T))
    add("expand_dims", lambda: (da.expand_dims(src().map_blocks(lambda b: b), 1), np.expand_dims(d, 1)))
    add("squeeze", lambda: (da.squeeze(src()[:, 0:1].map_blocks(lambda b: b), axis=1), d[:, 0]))
    add("reshape", lambda: (src(((2, 2), (6,))).map_blocks(lambda b: b).reshape(4, 2, 3), d.reshape(4, 2, 3)))
    add("reshape-merge", lambda: (da.from_array(d.reshape(4, 2, 3), chunks=(2, 2, 3)).map_blocks(lambda b: b).reshape(4, 6), d))
    add("reshape-blockwise", lambda: (da.reshape_blockwise(da.from_array(d.reshape(4, 2, 3), chunks=(2, 2, 3)), (4, 6)), d))
    add("moving-window", lambda: (da.sliding_window_view(src(), 3, axis=0).max(-1),
                                  np.lib.stride_tricks.sliding_window_view(d, 3, axis=0).max(-1)))
    add("from_map", lambda: (da.from_map(lambda i: np.full((2,), i), [0, 1, 2], chunks=((2, 2, 2),), dtype="int64"),
                             np.repeat(np.arange(3), 2)))
    add("reshape-flat", lambda: (src().map_blocks(lambda b: b).reshape(24), d.reshape(24)))
    add("broadcast_to", lambda: (da.broadcast_to(src(), (2, 4, 6)), np.broadcast_to(d, (2, 4, 6))))
    add("ones", lambda: (da.ones((4, 6), chunks=(2, 3), dtype="int64"), np.ones((4, 6), dtype="int64")))
    add("zeros", lambda: (da.zeros((5,), chunks=2), np.zeros((5,))))
    add("full", lambda: (da.full((3, 3), 7, chunks=2), np.full((3, 3), 7)))
    add("arange", lambda: (da.arange(2, 30, 3, chunks=4), np.arange(2, 30, 3)))
    add("linspace", lambda: (da.linspace(0, 1, 9, chunks=4), np.linspace(0, 1, 9)))
    add("eye", lambda: (da.eye(5, chunks=2, k=1), np.eye(5, k=1)))
    add("diag-1d", lambda: (da.diag(da.arange(5, chunks=2)), np.diag(np.arange(5))))
    add("diag-2d", lambda: (da.diag(da.from_array(d[:4, :4], chunks=2)), np.diag(d[:4, :4])))
    add("diag-2d-ragged", lambda: (da.diag(src(((1, 3), (2, 2, 2)))), np.diag(d)))
    add("diag-2d-k", lambda: (da.diag(src(), k=np.int64(1)), np.diag(d, k=1)))
    add("diagonal-3d", lambda: (da.diagonal(da.from_array(d.reshape(2, 3, 4), chunks=(1, 2, 3)), offset=1, axis1=1, axis2=2), np.diagonal(d.reshape(2, 3, 4), 1, 1, 2)))
    add("vindex", lambda: (src().vindex[[0, 3, 1, 3], [5, 0, 2, 2]], d[[0, 3, 1, 3], [5, 0, 2, 2]]))
    add("vindex-arrays", lambda: (src().map_blocks(lambda b: b).vindex[np.array([[0], [3]]), np.array([[5, 0, 2]])], d[np.array([[0], [3]]), np.array([[5, 0, 2]])]))
    add("vindex-slice", lambda: (src().vindex[[0, 3, 1], :], d[[0, 3, 1], :]))
    add("tril", lambda: (da.tril(src(), k=1), np.tril(d, k=1)))
    add("triu", lambda: (da.triu(src(), k=np.int64(-1)), np.triu(d, k=-1)))
    add("take-np", lambda: (da.take(src(), np.array([5, 0, 3, 3], dtype=np.int64), axis=1), d[:, [5, 0, 3, 3]]))
    add("blocks-np", lambda: (src().blocks[np.int64(1), np.int64(2)], d[1:4, 4:6]))
    add("getitem-np-int", lambda: (src()[np.int64(2), np.int64(1):np.int64(5)], d[2, 1:5]))
    add("bincount", lambda: (da.bincount(da.from_array(d.ravel() % 5, chunks=7), minlength=6), np.bincount(d.ravel() % 5, minlength=6)))
    add("histogram", lambda: (da.histogram(src(), bins=4, range=(0, 23))[0], np.histogram(d, bins=4, range=(0, 23))[0]))
    add("searchsorted", lambda: (da.searchsorted(da.arange(0, 24, 3, chunks=3), src()), np.searchsorted(np.arange(0, 24, 3), d)))
    add("tsqr-r", lambda: (da.linalg.tsqr(da.from_array(d.astype("f8"), chunks=((1, 3), (6,))))[1], None))
    add("svd-s", lambda: (da.linalg.svd(da.from_array(d.astype("f8"), chunks=((2, 2), (6,))))[1], np.linalg.svd(d.astype("f8"), compute_uv=False)))
    add("argmax-flat", lambda: (da.argmax(da.from_array(d, chunks=(2, 6))), d.argmax()))
    add("cumsum-seq", lambda: (da.cumsum(src(), axis=1, method="sequential"), np.cumsum(d, axis=1)))
    add("cumsum-blelloch", lambda: (da.cumsum(src(), axis=0, method="blelloch"), np.cumsum(d, axis=0)))
    add("cumprod", lambda: (da.cumprod(src() % 3 + 1, axis=1), np.cumprod(d % 3 + 1, axis=1)))
    add("overlap-map", lambda: (src().map_overlap(lambda b: b, depth=1, boundary="reflect"), d))
    add("sliding-window-sum", lambda: (da.sliding_window_view(src(), 3, axis=1).sum(-1),
                                       np.lib.stride_tricks.sliding_window_view(d, 3, axis=1).sum(-1)))
    add("sliding-window-view", lambda: (da.sliding_window_view(src(), 2, axis=0),
                                        np.lib.stride_tricks.sliding_window_view(d, 2, axis=0)))
    add("coarsen", lambda: (da.coarsen(np.sum, src(((2, 2), (2, 2, 2))), {0: 2, 1: 2}), d.reshape(2, 2, 3, 2).sum(axis=(1, 3))))
    add("from_map-like(fromfunction)", lambda: (da.fromfunction(lambda i, j: i + j, shape=(4, 6), chunks=(2, 3), dtype="int64"),
                                                np.fromfunction(lambda i, j: i + j, (4, 6), dtype="int64")))
    add("random", lambda: ((lambda r: (r, None))(da.random.default_rng(3).random((4, 6), chunks=(2, 3)))))
    add("gufunc", lambda: (da.apply_gufunc(lambda a: a.sum(-1), "(i)->()", src(((1, 3), (6,))), output_dtypes="int64"), d.sum(-1)))
    add("where", lambda: (da.where(src() % 2 == 0, src(), -src()), np.where(d % 2 == 0, d, -d)))
    add("tile", lambda: (da.tile(src(), 2), np.tile(d, 2)))
    add("repeat", lambda: (da.repeat(src(), 2, axis=0), np.repeat(d, 2, axis=0)))
    add("flip", lambda: (da.flip(src(), 1), np.flip(d, 1)))
    add("roll", lambda: (da.roll(src(), 2, axis=1), np.roll(d, 2, axis=1)))
    add("bool-index", lambda: ((lambda x1: x1[x1 % 2 == 0])(da.from_array(np.arange(10), chunks=3)), np.arange(10)[::2]))
    add("fused-chain", lambda: (((src() + 1) * 2 - src()).sum(axis=1), ((d + 1) * 2 - d).sum(axis=1)))
    return C


def walk_exprs(e, seen=None):
    seen = {} if seen is None else seen
    stack = [e]
    while stack:
        n = stack.pop()
        if n._name in seen:
            continue
        seen[n._name] = n
        stack.extend(n.dependencies())
    return list(seen.values())


def check_python_side_layer(ctx, case, node, cname, layer):
    from dask_array._frisky.graph_records import GraphRecordsLayer

    try:
        to_chunk = getattr(layer, "to_records_chunk", None)  # the records walk treats a missing method as declining
        if to_chunk is not None:
            to_chunk()
            ctx.fail("frisky:binary-chunk-without-extension", dict(case, node=cname),
                     "to_records_chunk() produced a binary chunk although dask_array._rust is not importable")
            return
    except NotImplementedError:
        pass
    except Exception as e:
        ctx.fail("frisky:wrapper-raises", dict(case, node=cname, error=repr(e), where="to_records_chunk"),
                 "to_records_chunk() raises something other than NotImplementedError without the extension")
        return
    try:
        recs = layer.to_task_records()
        pyl = node._layer()
        g = layer.to_dask_graph() if hasattr(layer, "to_dask_graph") else pyl
    except NotImplementedError:
        ctx.count(("python-side-layer", cname, "declined"))
        return
    except Exception as e:
        ctx.fail("frisky:wrapper-raises", dict(case, node=cname, error=repr(e), where="to_task_records"),
                 "the Python-side records path raises without the extension")
        return
    got = {str(r[0]): sorted(map(str, r[4])) for r in recs}
    want = {str(k): sorted(str(d) for d in getattr(t, "dependencies", ())) for k, t in pyl.items()}
    ctx.count(("python-side-layer", cname, len(got) > 1))
    if got != want or set(map(str, g)) != set(map(str, pyl)):
        ctx.fail("frisky:records-differ", dict(case, node=cname, got=dict(list(got.items())[:6]), want=dict(list(want.items())[:6])),
                 "a `_frisky_layer` emits other keys/dependencies than the expression's Python _layer()")


def adapter_fidelity(ctx, case, node, count=True):
    """the records the walk emits for this node (generic adapter when the native layer declines / is absent) vs `_layer()`"""
    from harness.props_ext import c21_nested as CN

    cname = f"{type(node).__module__}.{type(node).__name__}"
    try:
        fails, how = CN.layer_fidelity(node)
    except Exception as e:
        ctx.notes["adapter_fidelity_raised"] = ctx.notes.get("adapter_fidelity_raised", 0) + 1
        ctx.notes.setdefault("adapter_fidelity_raised_example", f"{cname}: {type(e).__name__}: {str(e)[:120]}")
        return []
    if count:
        ctx.count(("adapter", type(node).__name__, how.split(":")[0][:40]))
    for sig, detail in fails:
        if count:
            ctx.fail(sig, dict(case, node=cname), detail)
    return fails


def records_values(ctx, case, y, recs, ref):
    """the collection's records execute (flat arguments, declared dependencies only) to the reference values"""
    from dask.core import flatten
    from harness.props.C21 import exec_records
    from harness.props_ext import c21_nested as CN

    values, problems, _ = exec_records(recs, None)
    if problems:
        ctx.fail("frisky:records-do-not-execute:" + problems[0][0], dict(case, problem=problems[0][1][:200]),
                 "the records of collect_task_records(x) do not execute: " + problems[0][1][:200])
        return
    if ref is None:
        return
    try:
        keys = [str(CN._norm(k)) for k in flatten(y.__dask_keys__())]
        got = CN._blocks_in_order(y, values, keys)
    except Exception as e:
        ctx.fail("frisky:records-output-keys", dict(case, error=repr(e)[:200]), "the records do not define / assemble the collection's output keys")
        return
    ref = np.asarray(ref)
    if np.asarray(got).shape != ref.shape or not np.allclose(got, ref, equal_nan=True):
        ctx.fail("frisky:records-values", dict(case, got=np.asarray(got).ravel()[:8].tolist(), want=ref.ravel()[:8].tolist()),
                 "the records of collect_task_records(x) compute other values than NumPy")


def _adapter_source_nodes(source):
    """the lowered nodes of a replayable source: a container case or {prog, optimize}"""
    import dask
    from harness import programs
    from harness.props_ext import c21_nested as CN

    with dask.config.set({"array.optimize-graph": source["optimize"]}):
        if source.get("kind") == "container":
            y = CN.build_container(source)[source["roots"][0]]
        elif source.get("kind") == "catalog":
            from harness.props_ext import c21_catalog as CC

            env = CC.build_catalog(source)
            seen = {}
            for r in env["_roots"]:  # an entry with several outputs (qr, unique(return_counts), nonzero, …): every output's lowered nodes
                walk_exprs(env[r]._lowered_expr, seen)
            return env[env["_roots"][0]], list(seen.values())
        elif source.get("kind") == "fused":
            from harness.props_ext import c21_fused as CF

            y = CF.build_fused(source)[source["roots"][0]]
        else:
            env = programs.run_da_ext(source["prog"])
            y = env[source["prog"][-1]["out"]]
        return y, walk_exprs(y._lowered_expr)


def adapter_source(ctx, source, count=True):
    """[(sig, detail, node class)] over all lowered nodes of the source; construction problems are not this property's"""
    try:
        y, nodes = _adapter_source_nodes(source)
    except Exception:
        ctx.notes["adapter_source_not_built"] = ctx.notes.get("adapter_source_not_built", 0) + 1
        return None
    out = []
    for n in nodes:
        for sig, detail in adapter_fidelity(ctx, {}, n, count=False):
            out.append((sig, detail, f"{type(n).__module__}.{type(n).__name__}"))
        if count:
            ctx.count(("adapter", type(n).__name__, source.get("api", "fused" if source.get("kind") == "fused" else "program") if source.get("kind") != "catalog"
                       else "catalog:" + source["name"].split(":")[0], source["optimize"]))
    return out


def samename_case(ctx, case, count=True):
    """[(sig, detail)] of one same-name history: per (array, consumer) layer fidelity of every lowered node + record values"""
    from harness.props import C21
    from harness.props_ext import c21_fused as CF

    fails = CF.run_samename(ctx, case, C21.exec_records, count=count, fidelity=True)
    return [(sig if sig.startswith("samename:layer-records") else "frisky:" + sig, d) for sig, d in fails or []]


def adapter_stream(ctx):
    """layer fidelity + record values over container cases (enumerated grid + random) and seeded random programs"""
    import time
    import warnings

    import dask
    from harness import programs
    from harness.props import C21
    from harness.props_ext import c21_fused as CF
    from harness.props_ext import c21_nested as CN

    rng = ctx.rng
    t0 = time.time()
    budget = ctx.scale(16, 150)
    reported = {}

    def report(source, fails):
        sigs = tuple(sorted({s for s, _, _ in fails}))
        reported[sigs] = reported.get(sigs, 0) + 1
        if reported[sigs] > 3:
            return
        for sig in sigs:
            small = source
            if source.get("kind") in ("container", "fused", "catalog"):
                def still(c, sig=sig):
                    f = adapter_source(ctx, c, count=False)
                    return bool(f) and any(s == sig for s, _, _ in f)

                try:
                    from harness.props_ext import c21_catalog as CC

                    small = (CN.shrink_container if source["kind"] == "container" else CF.shrink_fused if source["kind"] == "fused" else CC.shrink_catalog)(source, still)
                except Exception:
                    small = source
            f2 = adapter_source(ctx, small, count=False) or fails
            hit = next(((d, n) for s, d, n in f2 if s == sig), None) or next((d, n) for s, d, n in fails if s == sig)
            ctx.fail(sig, {"kind": "adapter", "source": {k: v for k, v in small.items() if k != "grid"}, "node": hit[1]}, hit[0])

    with warnings.catch_warnings():
        warnings.simplefilter("ignore")
        cases = CN.container_grid(rng, full=ctx.tier != "quick")
        n_c = n_p = 0
        it = iter(cases)
        while time.time() - t0 < budget * 0.6:
            case = next(it, None)
            if case is None:
                if n_c >= len(cases) + ctx.scale(250, 10000):
                    break
                case = CN.random_container(rng)
            n_c += 1
            case = dict(case, roots=[case["roots"][0] if case["roots"][0] in ("y", "core") else "y"], history="group")
            fails = adapter_source(ctx, case)
            if fails:
                report(case, fails)
                continue
            # values: the collection's records vs its dask graph (the C21 executor)
            vf = C21.run_case(ctx, case, count=False)
            if vf and any(sig.startswith("records-path-raises:collection-meta-raises") for sig, _ in vf):
                # the collection's own metadata raises before any layer is asked for records: C21's finding, not a layer's
                ctx.notes["collection_meta_raises(reported by C21)"] = ctx.notes.get("collection_meta_raises(reported by C21)", 0) + 1
                vf = []
            for sig, detail in (vf or [])[:1]:
                reported[(sig,)] = reported.get((sig,), 0) + 1
                if reported[(sig,)] <= 3:
                    ctx.fail("frisky:adapter-" + sig, {"kind": "adapter-values", "source": {k: v for k, v in case.items() if k != "grid"}}, detail)
        while time.time() - t0 < budget and n_p < ctx.scale(120, 5000):
            n_p += 1
            prog, _ = programs.gen_clean_program2(rng, rng.randint(2, 5))
            for opt in (True, False):
                src = {"prog": prog, "optimize": opt}
                fails = adapter_source(ctx, src)
                if fails:
                    def still(p, sig=fails[0][0], opt=opt):
                        f = adapter_source(ctx, {"prog": p, "optimize": opt}, count=False)
                        return bool(f) and any(s == sig for s, _, _ in f)

                    try:
                        src = {"prog": programs.shrink(prog, still), "optimize": opt}
                    except Exception:
                        pass
                    report(src, adapter_source(ctx, src, count=False) or fails)
        # ---- the public-API catalogue (harness.props_ext.c21_catalog): every lowered node of the directed entries (NumPy-typed indices /
        # axes / offsets / block numbers into diag, vindex, tril/triu, take, blocks, overlap, tsqr/svd, arg-reductions, bincount, histogram,
        # searchsorted, random choice, shuffle) in every run, the rest of the table swept in seeded order inside the budget
        from harness.props_ext import c21_catalog as CC

        t1 = time.time()
        cbudget = ctx.scale(6.5, 80)
        directed, sweep = CC.catalog_cases(rng, full=ctx.tier != "quick")
        n_k = 0
        for i, case in enumerate(directed + sweep):
            if (i >= len(directed) and time.time() - t1 > cbudget) or time.time() - t1 > 2 * cbudget:
                break
            n_k += 1
            fails = adapter_source(ctx, case)
            if fails:
                report(case, fails)
        ctx.notes["catalog_stream"] = f"{len(directed)} directed + {max(0, n_k - len(directed))} of {len(sweep)} sweep catalogue entries in {time.time() - t1:.1f}s"
        ctx.notes["adapter_stream"] = f"{n_c} container cases ({len(cases)} enumerated) + {n_p} random programs x optimize on/off in {time.time() - t0:.1f}s"
        # ---- fused-layer programs (harness.props_ext.c21_fused): the pure-Python FusedBlockwiseLayer shares ONE block's fused subgraph
        # between all blocks (analytical / uniform / site-based / seeded derivations): per key the dependencies of _layer(), then values
        t1 = time.time()
        budget = ctx.scale(8, 60)
        cases = CF.fused_grid(rng, full=ctx.tier != "quick")
        it = iter(cases)
        n_f = 0
        while time.time() - t1 < budget:
            case = next(it, None)
            if case is None:
                if n_f >= len(cases) + ctx.scale(300, 20000):
                    break
                case = CF.random_fused(rng)
            n_f += 1
            case = dict(case, roots=["y"], history="group")
            fails = adapter_source(ctx, case)
            if fails:
                report(case, fails)
                continue
            vf = C21.run_case(ctx, case, count=False)
            for sig, detail in (vf or [])[:1]:
                reported[(sig,)] = reported.get((sig,), 0) + 1
                if reported[(sig,)] > 2:
                    continue

                def still(c, sig=sig):
                    f = C21.run_case(ctx, c, count=False)
                    return bool(f) and any(s == sig for s, _ in f)

                try:
                    small = CF.shrink_fused(case, still)
                    detail = next((d for s_, d in C21.run_case(ctx, small, count=False) or [] if s_ == sig), detail)
                except Exception:
                    small = case
                ctx.fail("frisky:adapter-" + sig, {"kind": "adapter-values", "source": {k: v for k, v in small.items() if k != "grid"}}, detail)
            if not vf:
                with dask.config.set({"array.optimize-graph": case["optimize"]}):
                    try:
                        ctx.count(("fused-values",) + CF.fused_class(case, CF.fused_paths(CF.build_fused(case)["y"]))[1:])
                    except Exception:
                        pass
        ctx.notes["fused_stream"] = f"{n_f} fused-layer programs ({len(cases)} enumerated) in {time.time() - t1:.1f}s"
        # ---- same-name histories: arrays created in one process under one user-supplied name= with different grids / data
        t1 = time.time()
        budget = ctx.scale(5, 30)
        tag = "nm%d" % rng.randrange(10**6)
        cases = CF.samename_grid(rng, tag)
        it = iter(cases)
        n_s = 0
        while time.time() - t1 < budget:
            case = next(it, None)
            if case is None:
                if n_s >= len(cases) + ctx.scale(200, 10000):
                    break
                case = CF.random_samename(rng, tag, n_s)
            n_s += 1
            fails = samename_case(ctx, case)
            if fails:
                sigs = tuple(sorted({s_ for s_, _ in fails}))
                reported[sigs] = reported.get(sigs, 0) + 1
                if reported[sigs] > 2:
                    continue
                fresh = lambda: "%s~%d" % (case["name"].split("~")[0], rng.randrange(10**9))
                sig = fails[0][0]

                def still(c, sig=sig):
                    f = samename_case(ctx, c, count=False)
                    return bool(f) and any(s_ == sig for s_, _ in f)

                try:
                    small = dict(CF.shrink_samename(dict(case, name=fresh()), still, fresh), name=fresh())
                    f2 = samename_case(ctx, small, count=False) or []
                    if not any(s_ == sig for s_, _ in f2):
                        small = dict(case, name=fresh())
                        f2 = samename_case(ctx, small, count=False) or fails
                except Exception:
                    small, f2 = case, fails
                ctx.fail(sig, {k: v for k, v in small.items() if k != "grid"}, next((d for s_, d in f2 if s_ == sig), fails[0][1]))
        ctx.notes["samename_stream"] = f"{n_s} same-name histories ({len(cases)} enumerated) in {time.time() - t1:.1f}s"


def declines(ctx):
    """Without the extension every `_frisky_layer` declines and the Python path serves the graph."""
    from dask_array._frisky import collect as FC

    try:
        import dask_array._rust  # noqa: F401

        ext = True
    except ImportError:
        ext = False
    ctx.extra["native_extension_importable"] = ext
    if ext:
        ctx.notes["declines"] = "skipped: dask_array._rust is importable in this environment (parity would need the built extension)"
        return
    classes = frisky_classes()
    exercised = set()
    nodes = 0
    with warnings.catch_warnings():
        warnings.simplefilter("ignore")
        for label, build in catalogue():
            case = {"kind": "declines", "program": label}
            try:
                y, ref = build()
            except Exception as e:
                ctx.notes.setdefault("catalogue_build_errors", []).append(f"{label}: {e!r}"[:160])
                continue
            for lowered_from, root in (("optimized", lambda: y.expr.optimize()), ("lowered", lambda: y.expr.lower_completely())):
                try:
                    root_e = root()
                except Exception as e:
                    ctx.fail("frisky:lowering-raises", dict(case, error=repr(e), stage=lowered_from), "lowering raises")
                    continue
                for n in walk_exprs(root_e):
                    adapter_fidelity(ctx, {"kind": "declines", "program": label, "stage": lowered_from}, n)
                    mk = getattr(n, "_frisky_layer", None)
                    if mk is None:
                        continue
                    nodes += 1
                    cname = f"{type(n).__module__}.{type(n).__name__}"
                    for k, cls in classes.items():
                        if isinstance(n, cls):
                            exercised.add(k)
                    try:
                        layer = mk()
                        outcome = "returned"
                    except (ImportError, NotImplementedError) as e:
                        outcome = type(e).__name__
                    except Exception as e:
                        ctx.fail("frisky:wrapper-raises", dict(case, node=cname, error=repr(e)),
                                 "_frisky_layer() raises something other than ImportError/NotImplementedError (would break the records walk instead of falling back)")
                        continue
                    ctx.count(("declines", cname, outcome))
                    if outcome == "returned":
                        # a Python-side layer with an optional Rust fast path (FusedBlockwiseLayer): without the
                        # extension it must decline the binary chunk and emit the SAME keys/dependencies as _layer()
                        check_python_side_layer(ctx, case, n, cname, layer)
            # the collection still builds its graph through the Python layers and computes NumPy's values
            try:
                g = y.__dask_graph__()
                keys = y.__dask_keys__()
                val = y.compute()
                ok = ref is None or (np.asarray(val).shape == np.asarray(ref).shape and np.allclose(val, ref))
                if not g or not keys or not ok:
                    ctx.fail("frisky:fallback-graph", dict(case, got=np.asarray(val).tolist()), "graph through the Python fallback is empty or computes other values")
            except Exception as e:
                ctx.fail("frisky:fallback-graph", dict(case, error=repr(e)), "__dask_graph__ / compute raises with the extension absent")
            try:
                recs = FC.collect_task_records(y)
                ctx.count(("records", label, "ok" if recs else "empty"))
                records_values(ctx, case, y, recs, ref)
            except NotImplementedError:
                ctx.count(("records", label, "whole-graph-fallback"))
            except Exception as e:
                ctx.fail("frisky:records-raises", dict(case, error=repr(e)),
                         "collect_task_records raises something other than NotImplementedError with the extension absent")
    ctx.notes["frisky_layer_classes"] = len(classes)
    ctx.notes["frisky_layer_classes_exercised"] = len(exercised)
    ctx.notes["frisky_layer_nodes_checked"] = nodes
    ctx.extra["frisky_layer_classes_not_exercised"] = sorted(set(classes) - exercised)


def replay_requests(ctx, R, reqs, stored=None):
    import tlz

    stored = stored or {}
    tr = []
    for rq in reqs:
        t = rq.split()
        pl = lambda s: [] if s == "_" else [int(v) for v in s.split(",")]
        if t[0] in ("o2n", "rc.old_to_new"):
            o, n = pl(t[1]), pl(t[2])
            tr.append((f"rc.old_to_new {t[1]} {t[2]}", f"o2n {t[1]} {t[2]}", py_o2n(R, o, n)))
        elif t[0] == "pa":
            k, n = int(t[1]), int(t[2])
            tr.append((f"py.partition_all {k} {f_list(range(n))}", rq, "ok " + f_ll(tlz.partition_all(k, range(n)))))
        elif t[0] == "ssr":
            l, v = pl(t[1]), int(t[2])
            tr.append((f"py.bisect_right {t[1]} {v}", rq, f"ok {bisect.bisect_right(l, v)}"))
        elif t[0] == "nonaxis":
            nb, ax, blk = pl(t[1]), int(t[2]), int(t[3])
            want = sorted(tuple(blk if d == ax else o[d - (d > ax)] for d in range(len(nb)))
                          for o in itertools.product(*(range(nb[d]) for d in range(len(nb)) if d != ax)))
            tr.append((None, rq, "ok " + f_ll(want)))
        elif rq in stored:
            # small two-way kernels: the reference output recorded with the failure (a pure-Python reference)
            tr.append((None, rq, stored[rq]))
    if tr:
        three_way(ctx, "replay", tr)


def targeted(ctx, R):
    """A Rust kernel that deviates from the Python original: show the consequence on the layer the kernel
    plans (the Python layer is the specification of the native one).  The native layer itself cannot be run."""
    n = 0
    for d in ctx.disagreements[:50]:
        t = d["request"].split()
        if t[0] == "o2n" and "rust" in d["family"]:
            n += 1
            ctx.fail("rust-kernel:intersect_1d", {"kind": "kernel", "request": d["request"], "rust": d["model"], "python": d["impl"]},
                     "the extracted Rust crosswalk kernel plans other pieces than the Python _intersect_1d: the native RechunkLayer "
                     "would emit split/merge tasks with other dependencies/slices than TasksRechunk._layer()")
        elif t[0] == "pa" and "rust" in d["family"]:
            n += 1
            ctx.fail("rust-kernel:partition_all", {"kind": "kernel", "request": d["request"], "rust": d["model"], "python": d["impl"]},
                     "the extracted Rust partition_all groups other input blocks than tlz.partition_all: the native PartialReduceLayer "
                     "would give aggregate tasks other dependencies than PartialReduce._layer()")
        elif t[0] == "nonaxis" and "rust" in d["family"]:
            n += 1
            ctx.fail("rust-kernel:for_each_non_axis_position", {"kind": "kernel", "request": d["request"], "rust": d["model"], "python": d["impl"]},
                     "the extracted Rust walker over the non-sliding block grid visits other coordinates than itertools.product: the native "
                     "SlidingWindowReductionLayer / MovingWindowReductionLayer would emit some block keys twice and others never")
        elif "rust" in d["family"]:
            n += 1
            ctx.fail("rust-kernel:" + t[0], {"kind": "kernel", "request": d["request"], "rust": d["model"], "python": d["impl"]},
                     "an extracted Rust kernel deviates from its Python original")
    ctx.notes["targeted_search"] = f"{n} Rust-kernel deviations reported with the concrete kernel input (the native layer cannot be executed offline)"


def run(ctx, replay=None):
    from dask_array import _rechunk as R

    ctx.rule = (
        "kernels: exhaustive small domain (all chunkings of n ≤ 4 with zero-width chunks, ≤ 3 parts; partition_all for "
        "n ≤ 8 × size ≤ 10) + seeded random incl. values up to 2^40 and totals that differ (malformed stream); distinct = "
        "(family, side, output prefix, size class); declines: a fixed catalogue of programs covering the expression kinds "
        "with a `_frisky_layer`; distinct = (node class, outcome); adapter: every lowered node of the catalogue, of the container cases of "
        "harness.props_ext.c21_nested (every container skeleton x dask leaf kind enumerated + seeded random) and of seeded random programs "
        "(optimize-graph on/off): records of the layer the walk uses vs the node's _layer(): keys, external dependencies, flat arguments; "
        "distinct = (node class, which layer, api, optimize); fused: the fused-layer programs of harness.props_ext.c21_fused (per-block function "
        "arguments block_id / block_info / chunk-shape / block-id deps x extra positional and keyword arguments on ragged chunks; one source at "
        "several sites with equal / transposed / permuted / broadcast block maps, square and non-square grids; ragged creation ops / map_overlap in "
        "fused chains): every lowered node's records vs _layer() per key, then records ~ dask graph ~ per-block NumPy on all blocks; distinct = "
        "(operators, reads, block maps, ragged, non-square, fast path taken); same-name: 2-3 arrays under one user-supplied name= with different "
        "grids / data in both orders, every consumer kind: same two oracles per (array, consumer); catalogue (harness.props_ext.c21_catalog): the "
        "table of Array methods / da functions of harness.props_ext.c03_layout + directed entries feeding NumPy-typed indices / axes / offsets / depths / "
        "block numbers to diag, diagonal, vindex (all forms), tril / triu, take, getitem, blocks, overlap, tsqr / qr / svd, arg-reductions, bincount, "
        "histogram, searchsorted, random choice, shuffle: every lowered node's records vs _layer(); every layer's records are audited: embedded TaskRef "
        "keys of canonical types (str names, plain int coordinates), set of str(embedded key) == declared deps, no NumPy scalar repr in key strings"
    )
    ctx.assumptions += [
        "PARTIAL: `dask_array._rust` cannot be built offline; the #[pymethods]/expand() code (cartesian products, key assembly, "
        "nesting), to_dask_graph / to_task_records / to_records_chunk encodings and the build-generation guard are NOT executed",
        "the extracted kernels are compiled with rustc from the text found in the current tree (brace matching); the std-only "
        "wrapper main.rs (harness/props/C22.py) is trusted",
        "kernels other than cum/breakpoints/intersect_1d/partition_all/searchsorted_right have no Lean model: compared Rust vs Python only",
    ]
    srcdir = core.REPO / "crates" / "dask-array-python" / "src"
    if not srcdir.is_dir():
        raise RuntimeError(f"Rust sources not found under {srcdir}")
    if shutil.which("rustc") is None:
        raise RuntimeError("rustc not available")
    kernels, skipped = extract_kernels(srcdir)
    required = ("cum", "breakpoints", "intersect_1d", "partition_all")
    ctx.extra["rust_kernels_extracted"] = {k: {"file": f, "sha256": hashlib.sha256(t.encode()).hexdigest()[:16], "lines": t.count("\n") + 1}
                                           for k, (f, t) in kernels.items()}
    ctx.extra["rust_fns_not_std_only"] = {k: "mentions non-std types " + ", ".join(v) if v else "mentions crate:: / pyo3 / a 'py lifetime"
                                          for k, v in sorted(skipped.items())}
    missing = [k for k in required if k not in kernels]
    if missing:
        raise RuntimeError(f"planning kernels not found as std-only top-level fns in {srcdir}: {missing}")
    tmp = tempfile.mkdtemp(prefix="verif-c22-", dir="/tmp")
    try:
        from pathlib import Path

        binary, have = build_rust(kernels, Path(tmp))
        ctx._rust_bin = binary
        ctx.extra["rust_handlers"] = have
        driven = {k for h in have for k in HANDLERS[h][0]}
        three = {"cum", "breakpoints", "intersect_1d", "partition_all", "searchsorted_right"}
        ctx.extra["rust_kernels_compared"] = {
            k: ("three-way (Rust ~ Lean ~ Python)" if k in three else "two-way (Rust ~ Python; no Lean model)") for k in sorted(driven)}
        ctx.extra["rust_kernels_extracted_not_compared"] = {
            k: "std-only and compiled, but the harness has no protocol handler for it" for k in sorted(set(kernels) - driven)}
        ctx.extra["trusted_base"] = ["rustc (compiles the extracted kernels) and the std-only protocol wrapper generated by harness/props/C22.py"]
        if replay is not None:
            case = replay.get("case")
            if case is not None and case.get("kind") == "kernel":
                replay_requests(ctx, R, [case["request"]], {case["request"]: case.get("python")})
            elif case is not None and case.get("kind") == "declines":
                declines(ctx)
            elif case is not None and case.get("kind") == "adapter":
                for sig, detail, node in adapter_source(ctx, case["source"]) or []:
                    ctx.fail(sig, dict(case, node=node), detail)
            elif case is not None and case.get("kind") == "samename":
                for sig, detail in samename_case(ctx, case):
                    ctx.fail(sig, case, detail)
            elif case is not None and case.get("kind") == "adapter-values":
                from harness.props import C21

                for sig, detail in C21.run_case(ctx, case["source"], count=False) or []:
                    ctx.fail("frisky:adapter-" + sig, case, detail)
            else:
                replay_requests(ctx, R, [d["request"] for d in replay.get("disagreements", [])],
                                {d["request"]: d["impl"] for d in replay.get("disagreements", [])})
            if ctx.disagreements:
                targeted(ctx, R)
            return
        ctx.exhaustive = True
        ctx.extra["exhaustive_domain"] = "old_to_new kernels: all pairs of chunkings of n ≤ 4 (zero-width, ≤ 3 parts); partition_all: n ≤ 8 × size ≤ 10"
        kernel_corr(ctx, R, have)
        declines(ctx)
        if not ctx.extra.get("native_extension_importable"):
            adapter_stream(ctx)
        if ctx.disagreements:
            targeted(ctx, R)
    finally:
        shutil.rmtree(tmp, ignore_errors=True)
