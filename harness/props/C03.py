"""C03 — advertised shape, dtype and chunks are what the graph produces.

Theorems: Props/C03.lean (block shape of `blockDen` = advertised chunks; chunks sum to shape).
Correspondence: model `chunks`/`ex.block` vs the real `.chunks` and per-block values.
Search: every output key of the real materialized graph is executed and its np.shape is
compared with `.chunks` at that block index (optimize on/off), on programs biased to
layout-changing rewrites.
Extension streams (harness/props_ext/c03_blocks.py): multi-input map_blocks / blockwise(align_arrays=False) over
inputs of equal block count and different block sizes; every operation taking an explicit dtype= over >= 3 blocks
(every block's dtype, also after the first block is sliced away).
harness/props_ext/c03_layout.py: block layouts — expression families whose optimized root lands on another layout than the
advertised one with the SAME block counts (steered), and every public Array method / da function that derives chunks
arithmetically on arrays whose axes have equal block counts and different sizes; shape, dtype and content of every block.
harness/props_ext/c03_dtypes.py: dtype representations (non-native byte order, widths, units, structured) through every operation that
promotes operands or declares a dtype; every block's dtype compared exactly (byte order included) with the advertised one.
"""
from __future__ import annotations

import itertools
import warnings

import numpy as np

from harness import classify, graphs as G, progcheck as PC, programs as P

KNOWN = ("swv-layout-drift", "take-through-broadcast", "minmax-zero-size", "swv-nested-wrong-values", "broadcast-axis-zero-width-chunk", "eye:offset:first-row-chunk-shorter")
OPS = P.DEFAULT_OPS + ("swv_reduce", "swv_reduce", "rechunk", "getitem", "getitem", "concatenate", "reduce")


def block_failures(x, optimize):
    """Execute the real graph; compare each output block's shape with the advertised chunks."""
    import dask

    out = []
    with warnings.catch_warnings():
        warnings.simplefilter("ignore")
        with dask.config.set({"array.optimize-graph": optimize}):
            tasks = G.to_tasks(x.__dask_graph__())
            values, _ = G.execute(tasks)
    chunks = x.chunks
    name = x.name
    for bid in itertools.product(*[range(len(c)) for c in chunks]):
        key = (name, *bid)
        if key not in values:
            out.append(("missing-output-key", bid, None, None))
            continue
        v = np.asarray(values[key])
        want = tuple(c[i] for c, i in zip(chunks, bid))
        if v.ndim != len(want):
            out.append(("block-rank", bid, v.shape, want))
            continue
        for got_n, want_n in zip(v.shape, want):
            if not (isinstance(want_n, float) and np.isnan(want_n)) and got_n != want_n:
                out.append(("block-shape", bid, v.shape, want))
                break
        if v.dtype != x.dtype and v.size:
            out.append(("block-dtype", bid, str(v.dtype), str(x.dtype)))
    return out, values


def check_program(ctx, prog, want):
    env, exc = PC.build(prog)
    if exc is not None:
        if classify.is_refusal(exc):
            return
        sig = classify.classify(prog, ("exc", exc))
        ctx.fail(sig, {"program": prog, "outcome": repr(exc)[:200]}, "construction raises")
        return
    x = env[prog[-1]["out"]]
    for opt in (True, False):
        try:
            fails, values = block_failures(x, opt)
        except Exception as e:  # noqa: BLE001
            sig = classify.classify(prog, ("exc", e))
            ctx.fail(sig, {"program": prog, "optimize": opt, "outcome": repr(e)[:300]}, "materialization/execution raises")
            continue
        nblocks = int(np.prod([len(c) for c in x.chunks])) if x.ndim else 1
        ctx.count((tuple(sorted(s["op"] for s in prog)), opt, nblocks > 1), nblocks)
        for kind, bid, got, wanted in fails[:1]:
            sig = classify.classify(prog, ("value", kind))
            if sig == "value-mismatch":
                sig = kind
            ctx.fail(sig, {"program": prog, "optimize": opt, "block": list(bid), "got": str(got), "advertised": str(wanted), "chunks": str(x.chunks)},
                     "a block of the materialized graph does not have the advertised size")
        known_shape = not any(isinstance(s, float) and np.isnan(s) for s in x.shape)
        if known_shape and tuple(x.shape) != want.shape:
            ctx.fail("advertised-shape", {"program": prog, "got": str(x.shape), "want": str(want.shape)}, "advertised shape differs from NumPy")
        if x.dtype.kind != want.dtype.kind:
            ctx.fail("advertised-dtype", {"program": prog, "got": str(x.dtype), "want": str(want.dtype)}, "advertised dtype kind differs from NumPy")


def run(ctx, replay=None):
    rng = ctx.rng
    ctx.rule = (
        "seeded random programs biased to layout-changing rewrites (sliding-window reductions, slices, rechunks, "
        "concatenate, reductions); every output block of the real graph is executed (optimize on and off); "
        "evaluations = blocks checked; distinct = (op multiset, optimize flag, multi-block).  Plus (props_ext/c03_blocks): "
        "multi-input map_blocks / blockwise(align_arrays=False) over inputs of equal block count and different block sizes "
        "(implicit/explicit chunks=, drop_axis, new_axis, adjust_chunks, new_axes, block_id, inferred dtype) with an honest "
        "shape-only block function and a brute-force positional oracle; every public op taking dtype= (cumulative ops both "
        "methods, reductions, astype, ufuncs, creation, einsum/trace/cov, mixed-dtype products, map_blocks/map_overlap/"
        "apply_gufunc/apply_along_axis/reduction) over >= 3 blocks, whole and after tail-slice/.blocks/take/rechunk: each block's "
        "dtype and shape vs advertised; distinct = (stream, api/family, fn, method, narrowing/widening, consumer).  Plus "
        "(props_ext/c03_layout): (drift) selections (integer lists, slices of any step, flips, rolls) over elementwise combinations of 2-3 "
        "operands whose chunkings along the selected axis have EQUAL block counts and different cuts (also other counts / equal), with "
        "astype/negation/cumsum/reductions/transposes/concatenate/stack/rechunk in between, sliding-window reductions over ragged chunkings "
        "with a chunk shorter than the window, each under a consumer that trusts the layout (none, elementwise, map_blocks with block_info, "
        ".blocks, reduction); candidates are steered (not judged) by the layout the optimizer settles on so that every run holds a quota of "
        "cases per family whose optimized root has the advertised block COUNTS and other block SIZES; every block's shape, dtype and content "
        "(vs NumPy at the advertised extents) is checked; distinct = (family, drift class, consumer).  (method) ~430 entries: every public "
        "Array method / da function that derives chunks (view with both orders x 14 itemsize pairs, astype, real/imag, ravel/reshape, repeat, "
        "tile, pad modes, insert/delete/append, diff, cumulative ops, to_delayed/from_delayed/store round trips, axis permutations, flips/"
        "rot90, squeeze/expand_dims/atleast_nd, blocks/partitions, map_blocks/blockwise/map_overlap with adjusted chunks, coarsen, topk, "
        "stacking, tri*/diag*, reductions, products, fft, linalg, creation, all ufuncs) on arrays of rank 1-3 whose AXES have equal block "
        "counts and different block sizes, against the same NumPy call; distinct = (entry, rank).  Plus (props_ext/c03_dtypes): dtype REPRESENTATIONS — sources "
        "in non-native byte order ('>i4','>f8','>c16','>u2','>M8[s]',…), other widths, bool, float16, longdouble, datetime/timedelta units, strings, structured "
        "(from_array / astype node / map_blocks / from_delayed) through every promoting or dtype-declaring operation (concatenate/stack/hstack/vstack/dstack/block/"
        "append/insert, where with array/Python/NumPy-scalar condition, choose, select, binary ufuncs with arrays / Python scalars / NumPy scalars / 0-d arrays in "
        "both orders and spellings and dtype=, unary ufuncs, astype with every casting form / copy=False / same dtype / byte-order-only, view, reductions and "
        "cumulative ops with dtype= (also non-native), tensordot/dot/matmul/einsum/outer, pad, diff, round/clip, isin, searchsorted, digitize, setitem, *_like, "
        "creation with dtype=, structure-only ops, map_blocks/map_overlap/store), then a selection/rechunk/concatenate on top: every block's dtype compared "
        "EXACTLY (byte order included) with the advertised one, optimized and not, plus .blocks[i], to_delayed() and compute(); advertised dtype vs NumPy's "
        "(kind everywhere; byte order exactly except on the operations where dask_array normalises deliberately, which are noted as control); a deterministic "
        "core holds every operand-promoting operation on (swapped, native) pairs of the same type in both orders; distinct = (op, fn, operand representations, "
        "dtype= given, follow-up)"
    )
    if replay is not None and replay.get("case", {}).get("reshape"):  # harness/props_ext/c01_reshape.py
        from harness.props_ext import c01_reshape
        return c01_reshape.replay(ctx, replay["case"])
    if replay is not None and replay.get("case", {}).get("layout"):  # harness/props_ext/c03_layout.py
        from harness.props_ext import c03_layout
        return c03_layout.replay(ctx, replay["case"])
    if replay is not None and replay.get("case", {}).get("dtypes"):  # harness/props_ext/c03_dtypes.py
        from harness.props_ext import c03_dtypes
        return c03_dtypes.replay(ctx, replay["case"])
    if replay is not None and (replay.get("case", {}).get("mbshape") or replay.get("case", {}).get("xdtype")):  # harness/props_ext/c03_blocks.py
        from harness.props_ext import c03_blocks
        return c03_blocks.replay(ctx, replay["case"])
    if replay is not None:
        prog = replay["case"]["program"]
        check_program(ctx, prog, P.run_np(prog)[prog[-1]["out"]])
        return
    import time as _time

    _t = [_time.time()]

    def lap(name):
        ctx.notes["seconds." + name] = round(_time.time() - _t[0], 1)
        _t[0] = _time.time()

    PC.probe_known(ctx, KNOWN)
    lap("probe_known")
    N = ctx.scale(700, 4000)
    corr = []
    for i in range(N):
        prog, g = P.gen_program(rng, depth=rng.randint(2, ctx.scale(6, 9)), ops=OPS, avoid=("swv-consumer",), zero_axes=0.0)
        want = g.env[prog[-1]["out"]]
        # optionally finish with a data-dependent selection (unknown chunk sizes: block COUNT is advertised)
        if want.ndim == 1 and want.size and rng.random() < 0.15:
            g.add({"op": "boolmask_1d", "args": [prog[-1]["out"]], "mod": rng.choice([2, 3])})
            want = g.env[prog[-1]["out"]]
        check_program(ctx, prog, want)
        if i < 3:
            ctx.sample({"program": prog})
        if i % 3 == 0:
            corr.append(prog)
    for i in range(ctx.scale(500, 3000)):
        prog, g = P.gen_program(rng, depth=rng.randint(2, ctx.scale(6, 9)), ops=P.MINI_OPS, zero_axes=0.0, basic_only=True)
        corr.append(prog)
    lap("programs")
    block_correspondence(ctx, corr)
    lap("block_correspondence")
    dtype_stream(ctx)
    lap("dtype_stream")
    from harness.props_ext import c03_expr2  # phase 3: second-layer model (Props/C03Ext.lean; ex2.block)
    c03_expr2.run_ext(ctx, corr)
    lap("expr2")
    # every output block (shape AND dtype) of multi-input map_blocks / blockwise(align_arrays=False) with mismatched block
    # sizes, and of every operation taking an explicit dtype= over >= 3 blocks (also with the first block sliced away)
    from harness.props_ext import c03_blocks
    c03_blocks.run(ctx)
    lap("c03_blocks")
    # block layouts: optimized root on another layout than advertised (same block counts, other sizes); every Array method /
    # da function that re-derives chunks arithmetically, on arrays whose axes have equal block counts and different sizes
    from harness.props_ext import c03_layout
    c03_layout.run(ctx)
    lap("c03_layout")
    # dtype REPRESENTATION variants (non-native byte order, widths, units, structured) through every promoting / dtype-declaring operation:
    # every block's dtype (byte order included) vs advertised, advertised vs NumPy, .blocks / to_delayed / compute
    from harness.props_ext import c03_dtypes
    c03_dtypes.run(ctx)
    lap("c03_dtypes")
    from harness.props_ext import c01_reshape  # reshape planner: per-block shapes vs advertised chunks (Props/C03Reshape.lean; rsh.*)
    c01_reshape.run(ctx)
    lap("reshape")


def dtype_stream(ctx):
    """Advertised dtype vs computed dtype of the result and of every block, on programs whose
    advertised dtype differs from the input dtype (explicit dtype=, promoting reductions, nan-reductions
    over sliding windows, astype) followed by rewrites that rebuild the node (take, slices, rechunk)."""
    import dask
    import dask_array as da

    rng = ctx.rng
    N = ctx.scale(260, 3000)
    # every run, whatever the seed: each promoting (input dtype, nan-reduction) pair over a sliding window on the native
    # plan (chunks larger than window-1) and on the overlap plan, so that these classes do not depend on the random draws
    forced = [(dt, fn, w, ch) for dt in ("i4", "u1", "i2", "f4") for fn in ("nansum", "nanprod", "sum")
              for w, ch in ((2, ((4, 4), (3,))), (3, ((5, 3), (2, 1))), (1, ((2, 3, 3), (3,))))]
    for i in range(N + len(forced)):
        f = forced[i] if i < len(forced) else None
        dt = f[0] if f else rng.choice(["i4", "u1", "f4", "i8", "f8", "i2"])
        n0, n1 = (8, 3) if f else (rng.randint(3, 9), rng.randint(2, 6))
        data = ((np.arange(n0 * n1) * 7 + 3) % 23).reshape(n0, n1).astype(dt)
        chunks = f[3] if f else tuple(P.rand_chunks_nd(rng, (n0, n1)))
        x = da.from_array(data, chunks=chunks)
        kind = "swv-nan" if f else rng.choice(["elem-dtype", "reduce", "swv-nan", "astype", "mean", "cumsum"])
        case = {"dtype": dt, "shape": [n0, n1], "chunks": [list(c) for c in chunks], "kind": kind}
        try:
            with warnings.catch_warnings():
                warnings.simplefilter("ignore")
                if kind == "elem-dtype":
                    od = rng.choice(["f4", "f8", "i8", "c8"])
                    y = da.add(x, x, dtype=od) if rng.random() < 0.5 else da.multiply(x, 2, dtype=od)
                    ref = np.add(data, data, dtype=od) if False else None
                    case["out_dtype"] = od
                elif kind == "reduce":
                    fn = rng.choice(["sum", "prod", "nansum", "max"])
                    ax = rng.choice([0, 1, None])
                    y = getattr(da, fn)(x, axis=ax)
                    case.update(fn=fn, axis=ax)
                elif kind == "swv-nan":
                    fn = f[1] if f else rng.choice(["nansum", "nanprod", "sum", "nanmax"])
                    w = f[2] if f else rng.randint(1, n0)
                    kw = {"dtype": "f8"} if dt == "f4" and fn in ("nansum", "nanprod", "sum") and (f or rng.random() < 0.5) else {}
                    y = getattr(da, fn)(da.sliding_window_view(x, w, axis=0), axis=-1, **kw)
                    case.update(fn=fn, window=w, kw=kw)
                elif kind == "astype":
                    od = rng.choice(["f4", "i8", "u2"])
                    y = x.astype(od) + 1
                    case["out_dtype"] = od
                elif kind == "mean":
                    y = x.mean(axis=rng.choice([0, 1]))
                else:
                    y = da.cumsum(x, axis=rng.choice([0, 1]))
                post = ("none", "slice", "times")[i % 3] if f else rng.choice(["none", "take", "slice", "rechunk", "times"])
                case["post"] = post
                if post == "take" and y.ndim:
                    d = y.shape[0]
                    y = y[[rng.randint(0, d - 1) for _ in range(rng.randint(1, d + 1))]]
                elif post == "slice" and y.ndim:
                    y = y[::2]
                elif post == "rechunk" and y.ndim:
                    y = y.rechunk(tuple(P.rand_chunks_nd(rng, y.shape)))
                elif post == "times":
                    y = y * 2
                adv = y.dtype
                for opt in (True, False):
                    with dask.config.set({"array.optimize-graph": opt}):
                        got = np.asarray(y.compute(scheduler="sync"))
                        fails, _ = block_failures(y, opt)
                    ctx.count(("dtype", kind, post, dt, opt))
                    if got.dtype != adv:
                        ctx.fail("advertised-dtype-vs-computed", {**case, "optimize": opt, "advertised": str(adv), "computed": str(got.dtype)},
                                 "computed result has a different dtype than advertised")
                        break
                    bad = [f for f in fails if f[0] == "block-dtype"]
                    if bad:
                        ctx.fail("block-dtype", {**case, "optimize": opt, "block": list(bad[0][1]), "got": bad[0][2], "advertised": bad[0][3]},
                                 "a block of the materialized graph has a different dtype than advertised")
                        break
        except Exception as e:  # noqa: BLE001
            ctx.notes["dtype_stream_refusals"] = ctx.notes.get("dtype_stream_refusals", 0) + 1
            ctx.extra.setdefault("dtype_stream_refusal_examples", [])
            if len(ctx.extra["dtype_stream_refusal_examples"]) < 3:
                ctx.extra["dtype_stream_refusal_examples"].append({**case, "error": repr(e)[:160]})


def block_correspondence(ctx, progs):
    """Model blockDen vs the real per-block values (unoptimized graph keys = raw layout)."""
    import dask

    reqs = []
    for prog in progs:
        tok = PC.encode(prog, {k: v.shape for k, v in P.run_np(prog).items()})
        if tok is None:
            continue
        env, exc = PC.build(prog)
        if exc is not None:
            continue
        x = env[prog[-1]["out"]]
        if x.ndim == 0 or any(np.isnan(c) for ax in x.chunks for c in ax):
            continue
        try:
            with warnings.catch_warnings():
                warnings.simplefilter("ignore")
                with dask.config.set({"array.optimize-graph": True}):
                    values, _ = G.execute(G.to_tasks(x.__dask_graph__()))
        except Exception:
            continue
        bids = list(itertools.product(*[range(len(c)) for c in x.chunks]))
        for bid in bids[:6]:
            v = values.get((x.name, *bid))
            if v is None:
                continue
            reqs.append((f"ex.block {tok} {PC._f_l(bid)}", "ok " + PC.f_arr(v)))
    if not reqs:
        return
    outs = ctx.driver.run([r for r, _ in reqs])
    if all(o == "bad-op" for o in outs):
        ctx.notes["ex_driver"] = "not available in this build"
        return
    live = [(r, i) for (r, i), o in zip(reqs, outs) if not (o.startswith("err unsupported") or o.startswith("err illformed") or o == "bad-op")]
    ctx.correspond("expr(blockDen)", live)
