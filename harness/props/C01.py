"""C01 — array programs compute what NumPy computes, whatever the chunking.

Theorems: Props/C01.lean (refinement `blockDen_correct` for the modelled mini-language).
Correspondence: the model's `den`/`chunks`/`blockDen` (driver family ex.*) vs the real
`.compute()`, `.chunks`, per-block values on programs expressible in the mini-language.
Search: generated programs over ~25 ops vs NumPy, optimized and unoptimized, the same
program under several chunkings.
"""
from __future__ import annotations

import copy
import warnings

import numpy as np

from harness import classify, gen, progcheck as PC, programs as P

KNOWN = ("swv-layout-drift", "take-through-broadcast", "minmax-zero-size", "slice-through-generic-blockwise", "swv-nested-wrong-values", "broadcast-axis-zero-width-chunk", "eye:offset:first-row-chunk-shorter")
def rechunked_variant(rng, prog):
    """Same program, different source chunkings (the property quantifies over chunkings)."""
    q = copy.deepcopy(prog)
    for st in q:
        if st["op"] == "src":
            st["chunks"] = [list(c) for c in P.rand_chunks_nd(rng, st["shape"])]
    return q


def lean_correspondence(ctx, progs):
    """Model vs implementation on programs inside the mini-language."""
    import dask_array as da  # noqa: F401

    reqs = []
    by_req = {}
    for prog, want in progs:
        tok = PC.encode(prog, {k: v.shape for k, v in P.run_np(prog).items()})
        if tok is None:
            ctx.notes["outside_mini_language"] = ctx.notes.get("outside_mini_language", 0) + 1
            continue
        env, exc = PC.build(prog)
        if exc is not None:
            continue
        x = env[prog[-1]["out"]]
        try:
            if any(np.isnan(c) for ax in x.chunks for c in ax):
                continue
        except Exception:  # lazily resolved chunks may raise (reported by the value search, not here)
            continue
        by_req[tok] = prog
        reqs.append((f"ex.eval {tok}", "ok " + PC.f_arr(want)))
        reqs.append((f"ex.chunks {tok}", "ok " + PC._f_ll([list(c) for c in x.chunks]) if x.ndim else "ok -"))
    if not reqs:
        return
    outs = ctx.driver.run([r for r, _ in reqs])
    if all(o == "bad-op" for o in outs):
        ctx.notes["ex_driver"] = "not available in this build"
        return
    live = []
    for (req, impl), out in zip(reqs, outs):
        if out.startswith("err unsupported") or out.startswith("err illformed") or out == "bad-op":
            ctx.notes["model_declined"] = ctx.notes.get("model_declined", 0) + 1
            continue
        live.append((req, impl))
    ctx.extra["_by_req"] = by_req
    ctx.correspond("expr(den,chunks)", live, branch_key=lambda req, model: (req.split()[0], req.count(";"), tuple(sorted({s.split("~")[0] for s in req.split()[1].split(";")}))))


def run(ctx, replay=None):
    rng = ctx.rng
    ctx.rule = (
        "seeded random programs over ~25 public ops (depth 2-6 quick / 2-10 thorough, rank<=4, int64 data) each run "
        "optimized and unoptimized and re-run under fresh random source chunkings; distinct = distinct multiset of "
        "ops x rank x (has zero-length axis) x optimize flag; non-trivial = more than one block somewhere"
    )
    ctx.assumptions += [
        "integer data only in the random stream (exact comparison); float tolerance cases live in C18/C19",
        "ops outside the generator (linalg, fft, histogram, gufunc, einsum, percentile, unique, IO backends) are not exercised here",
    ]
    if replay is not None and replay.get("case", {}).get("ctr"):  # harness/props_ext/c01_contract.py
        from harness.props_ext import c01_contract
        return c01_contract.run(ctx, replay_case=replay["case"])
    if replay is not None and replay.get("case", {}).get("reshape"):  # harness/props_ext/c01_reshape.py
        from harness.props_ext import c01_reshape
        return c01_reshape.replay(ctx, replay["case"])
    if replay is not None:
        prog = replay["case"]["program"]
        want = P.run_np(prog)[prog[-1]["out"]]
        for opt in (True, False):
            f = PC.check_values(ctx, prog, want, opt)
            if f:
                ctx.fail(f["sig"], {"program": prog, **f}, "replayed program differs from NumPy")
        return

    PC.probe_known(ctx, KNOWN)

    N = ctx.scale(900, 5000)
    maxdepth = ctx.scale(6, 10)
    corr = []
    for i in range(N):
        zero = 0.06 if rng.random() < 0.3 else 0.0
        if rng.random() < 0.2:
            # wide axes with many blocks (tree reductions / scans over 7..20 blocks)
            prog, g = P.gen_program(rng, depth=rng.randint(1, 4), avoid=("swv-consumer",), zero_axes=0.0, maxrank=2, maxdim=20, maxsize=500)
        else:
            prog, g = P.gen_program(rng, depth=rng.randint(2, maxdepth), avoid=("swv-consumer",), zero_axes=zero, maxrank=3)
        want = g.env[prog[-1]["out"]]
        variants = [prog] + ([rechunked_variant(rng, prog)] if rng.random() < 0.5 else [])
        for q in variants:
            multi = any(len(c) > 1 for st in q if st["op"] == "src" for c in st["chunks"])
            for opt in (True, False):
                ctx.count((tuple(sorted(s["op"] for s in q)), want.ndim, 0 in want.shape, opt) if multi else None)
                f = PC.check_values(ctx, q, want, opt)
                if f is None:
                    continue
                if f["sig"] in KNOWN:
                    ctx.fail(f["sig"], {"program": q, **f}, "known finding reproduced by the random stream")
                    continue

                def still(p, _opt=opt, _sig=f["sig"]):
                    w = P.run_np(p)[p[-1]["out"]]
                    r = PC.check_values(ctx, p, w, _opt)
                    return r is not None and r["sig"] == _sig

                small = P.shrink(q, still)
                w = P.run_np(small)[small[-1]["out"]]
                f2 = PC.check_values(ctx, small, w, opt) or f
                ctx.fail(f2["sig"], {"program": small, **f2}, "dask_array program differs from NumPy")
        if i % 8 == 0:
            corr.append((prog, want))
        if i < 3:
            ctx.sample({"program": prog, "result_shape": list(want.shape)})
    # directed chains (harness/programs.py T6_PATTERNS plus chains of permutations): consecutive axis permutations of
    # rank 3-5 arrays (non-commuting, cycles), permutations under indices / takes / rechunks / reductions
    perm_chains = (("src_hi", "perm", "perm"), ("src_hi", "perm", "perm", "perm"), ("src_hi", "perm", "perm", "unary"),
                   ("src_hi", "perm", "unary", "perm"), ("src_hi", "perm", "perm", "reduce"), ("src_hi", "perm", "perm", "take_len"),
                   ("src_hi", "perm", "perm", "rechunk"), ("src_hi", "perm", "take_len"), ("src_hi", "perm", "take_len", "perm"))
    fams = dict(P.T6_PATTERNS)
    fams["perm-chains"] = ({"maxrank": 5}, perm_chains)
    per = ctx.scale(6, 40)
    for fam, (kw, pats) in fams.items():
        for pat, g in P.directed_programs_t6(rng, per * len(pats), pats, **kw):
            prog = g.prog
            if not prog:
                continue
            want = g.env[prog[-1]["out"]]
            for opt in (True, False):
                ctx.count(("directed", fam, opt))
                f = PC.check_values(ctx, prog, want, opt)
                if f is None:
                    continue
                if f["sig"] in KNOWN:
                    ctx.fail(f["sig"], {"program": prog, **f}, "known finding reproduced by the directed stream")
                    continue

                def still_d(p, _opt=opt, _sig=f["sig"]):
                    w = P.run_np(p)[p[-1]["out"]]
                    r = PC.check_values(ctx, p, w, _opt)
                    return r is not None and r["sig"] == _sig

                small = P.shrink(prog, still_d)
                w = P.run_np(small)[small[-1]["out"]]
                f2 = PC.check_values(ctx, small, w, opt) or f
                ctx.fail(f2["sig"], {"program": small, **f2}, "dask_array program differs from NumPy (directed chain)")
    # scans over many blocks (both methods): 1..24 unit blocks, plus uneven chunkings
    for n in range(1, ctx.scale(25, 70)):
        for method in ("sequential", "blelloch"):
            cks = [1] * n if rng.random() < 0.7 else list(gen.rand_chunks(rng, n))
            prog = [{"op": "src", "shape": [n], "chunks": [cks], "mul": 3, "off": -7, "mod": 1 << 20, "out": "v1"},
                    {"op": "cumsum", "args": ["v1"], "axis": 0, "method": method, "out": "v2"}]
            want = P.run_np(prog)["v2"]
            ctx.count(("scan", method, n))
            f = PC.check_values(ctx, prog, want, True)
            if f is not None:
                ctx.fail("scan:" + f["sig"], {"program": prog, **f}, "cumulative scan differs from NumPy")
    # a second stream restricted to the ops of the Lean mini-language (high model coverage)
    for i in range(ctx.scale(600, 4000)):
        prog, g = P.gen_program(rng, depth=rng.randint(2, maxdepth), ops=P.MINI_OPS, zero_axes=0.0, basic_only=True, maxrank=3)
        corr.append((prog, g.env[prog[-1]["out"]]))
    lean_correspondence(ctx, corr)
    by_req = ctx.extra.pop("_by_req", {})
    for d in ctx.disagreements:
        d["program"] = by_req.get(d["request"].split(" ", 1)[1])
    from harness.props_ext import c01_expr2  # phase 3: second-layer model (Props/C01Ext.lean, C01Derived.lean; ex2.*)
    c01_expr2.run_ext(ctx, corr)
    from harness.props_ext import c01_reshape  # reshape planner (Props/C01Reshape.lean, C03Reshape.lean; rsh.*)
    c01_reshape.run(ctx)
    from harness.props_ext import c01_contract  # matmul / tensordot / dot / einsum contraction plan (Props/C01Contract.lean; ctr.*)
    c01_contract.run(ctx)
