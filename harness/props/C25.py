"""C25 — store writes exactly the array into the requested target regions.

Correspondence: Lean model (Model/SourceIO.lean: `storeIndex`, `storeWrites`, `npyStackChunks`)
vs the real per-block write index (`__setitem__` keys logged by a recording target during a real
`da.store`, and direct `load_store_chunk` / `fuse_slice` calls) and the chunks `to_npy_stack`
records.
Search (independent of the model): `da.store` of 1-3 source/target pairs into sentinel-filled
targets with/without regions (offsets, steps >= 1, integers, unsupported negative bounds), lock
variants, compute=False, return_stored / load_stored, optimized and unoptimized; oracle =
NumPy slice assignment into a sentinel-filled copy.  `to_npy_stack` / `from_npy_stack` round
trips in a temporary directory under /tmp.
"""
from __future__ import annotations

import itertools
import os
import pickle
import shutil
import tempfile
import threading
from numbers import Integral

import numpy as np

from harness import gen
from harness.core import err_name, f_ll, f_slice

SENTINEL = -1


class RecTarget:
    """array-like target: logs every `__setitem__` key (with the first value written, which
    identifies the source block) and every `__getitem__` key"""

    def __init__(self, shape):
        self.a = np.full(shape, SENTINEL, dtype=np.int64)
        self.shape = tuple(shape)
        self.dtype = self.a.dtype
        self.ndim = len(shape)
        self.wlog = []
        self.rlog = []

    def __setitem__(self, key, value):
        v = np.asarray(value)
        self.wlog.append((key, int(v.flat[0]) if v.size else None, v.shape))
        self.a[key] = value

    def __getitem__(self, key):
        self.rlog.append(key)
        return self.a[key]


class KeyLog:
    """target that only records the key of every assignment (for direct load_store_chunk calls)"""

    def __init__(self):
        self.wlog = []

    def __setitem__(self, key, value):
        self.wlog.append(key)


# --------------------------------------------------------------------------- tokens

def f_ridx(t):
    if t is None:
        return "N"
    if len(t) == 0:
        return "_"
    return "|".join(f_slice(i) if isinstance(i, slice) else str(int(i)) for i in t)


def f_pairs(index):
    return "|".join(f"{s.start}:{s.stop}" for s in index) if index else "_"


def enc_region(r):
    if r is None:
        return None
    return [["s", i.start, i.stop, i.step] if isinstance(i, slice) else int(i) for i in r]


def dec_region(e):
    if e is None:
        return None
    return tuple(slice(i[1], i[2], i[3]) if isinstance(i, list) else int(i) for i in e)


# --------------------------------------------------------------------------- generators

def rand_region(rng, shape, unsupported=False):
    """(target_shape, region) with target[region].shape == shape.  Steps >= 1, offsets, sometimes
    an integer entry (extra target axis), sometimes open-ended stops."""
    tshape, region = [], []
    for n in shape:
        if rng.random() < 0.12:
            m = rng.randint(1, 4)
            tshape.append(m)
            region.append(rng.randint(0, m - 1))
        step = rng.choice([1, 1, 1, 2, 3])
        start = rng.randint(0, 3)
        span = 0 if n == 0 else (n - 1) * step + 1
        pad = rng.randint(0, 3)
        size = start + span + pad
        if n == 0:
            stop = start
        elif pad == 0 and rng.random() < 0.4:
            stop = None
        else:
            stop = start + span + (rng.randint(0, step - 1) if step > 1 else 0)
            stop = min(stop, size)
        tshape.append(max(size, 1))
        region.append(slice(start if (start or rng.random() < 0.7) else None, stop, step if (step > 1 or rng.random() < 0.3) else None))
    if rng.random() < 0.08:
        m = rng.randint(1, 3)
        tshape.append(m)
        region.append(rng.randint(0, m - 1))
    if unsupported and region:
        k = rng.choice([i for i, r in enumerate(region) if isinstance(r, slice)])
        r = region[k]
        n = tshape[k]
        kind = rng.choice(["negstart", "negstop", "negstep"])
        if kind == "negstart" and r.start is not None:
            region[k] = slice(r.start - n, r.stop, r.step)
        elif kind == "negstop" and r.stop is not None and r.stop - n < 0:
            region[k] = slice(r.start, r.stop - n, r.step)
        else:
            region[k] = slice(r.stop, r.start, -(r.step or 1))
    return tuple(tshape), tuple(region)


def gen_case(ctx):
    rng = ctx.rng
    npairs = rng.choice([1, 1, 1, 2, 3])
    pairs = []
    for p in range(npairs):
        rank = rng.choice([1, 1, 2, 2, 3])
        shape = tuple(0 if rng.random() < 0.04 else rng.randint(1, 6) for _ in range(rank))
        chunks = [list(gen.rand_chunks(rng, n, zeros=0.08, maxparts=4)) for n in shape]
        r = rng.random()
        if r < 0.3:
            tshape, region = shape, None
        else:
            tshape, region = rand_region(rng, shape, unsupported=rng.random() < 0.08)
        pairs.append({"shape": list(shape), "chunks": chunks, "tshape": list(tshape), "region": enc_region(region),
                      "derived": rng.choice(["none", "none", "add", "slice", "rechunk"]), "numpy_target": rng.random() < 0.3})
    return {
        "pairs": pairs,
        "lock": rng.choice(["true", "true", "false", "obj"]),
        "compute": rng.random() < 0.6,
        "return_stored": rng.random() < 0.35,
        # explicit load_stored only with its default value (return_stored and not compute); the other
        # combinations are the documented "advanced option ... not what you want" and are not part of the property
        "load_stored": rng.choice([None, None, "default"]),
        "optimize": rng.random() < 0.7,
        "regions_form": rng.choice(["list", "list", "single"]),
        "share_target": False,
    }


def region_supported(r):
    """what `fuse_slice` accepts: non-negative start / stop, positive step (None allowed)"""
    return r is None or all(
        (not isinstance(i, slice)) or ((i.start or 0) >= 0 and (i.stop or 0) >= 0 and (i.step or 1) > 0) for i in r
    )


def writes_nothing(key):
    key = key if isinstance(key, tuple) else (key,)
    return any(isinstance(i, slice) and i.start is not None and i.stop is not None and i.start >= i.stop and (i.step or 1) > 0 for i in key)


def source_array(k, shape):
    n = int(np.prod(shape))
    return (np.arange(n, dtype=np.int64) + 1000 * k).reshape(shape)


def run_case(case, want_logs=False):
    """Run one store program on the real code.  Returns (signature or None, details, logs)."""
    import dask
    import dask_array as da

    srcs, tgts, regions, datas, exps = [], [], [], [], []
    for k, p in enumerate(case["pairs"]):
        shape = tuple(p["shape"])
        data = source_array(k, shape)
        chunks = tuple(tuple(c) for c in p["chunks"])
        if p["derived"] == "slice":
            big = np.concatenate([data, data[:1]], axis=0) if data.shape[0] else data
            d = da.from_array(big, chunks=big.shape)[: data.shape[0]].rechunk(chunks)
        elif p["derived"] == "add":
            d = da.from_array(data - 5, chunks=chunks) + 5
        elif p["derived"] == "rechunk":
            d = da.from_array(data, chunks=data.shape).rechunk(chunks)
        else:
            d = da.from_array(data, chunks=chunks)
        region = dec_region(p["region"])
        tshape = tuple(p["tshape"])
        t = np.full(tshape, SENTINEL, dtype=np.int64) if p["numpy_target"] else RecTarget(tshape)
        exp = np.full(tshape, SENTINEL, dtype=np.int64)
        try:
            if region is None:
                exp[...] = data
            else:
                exp[region] = data
            valid = exp[region].shape == data.shape if region is not None else True
        except Exception:  # noqa: BLE001
            valid = False
        srcs.append(d)
        tgts.append(t)
        regions.append(region)
        datas.append(data)
        exps.append(exp if valid else None)
    if any(e is None for e in exps):
        return "invalid-case", {}, None
    supported = all(region_supported(r) for r in regions)
    lock = {"true": True, "false": False, "obj": threading.Lock()}[case["lock"]]
    kwargs = {"lock": lock, "compute": case["compute"], "return_stored": case["return_stored"]}
    if case["load_stored"] == "default":
        kwargs["load_stored"] = bool(case["return_stored"] and not case["compute"])
    single = len(srcs) == 1 and case["regions_form"] == "single"
    if all(r is None for r in regions):
        regs = None
    elif single:
        regs = regions[0]
    else:
        regs = list(regions)
    raw = lambda t: t.a if isinstance(t, RecTarget) else t  # noqa: E731
    with dask.config.set({"array.optimize-graph": bool(case["optimize"])}):
        try:
            res = da.store(srcs[0] if single else srcs, tgts[0] if single else tgts, regions=regs, **kwargs)
            if not case["compute"] and not case["return_stored"]:
                # lazily built: nothing may have been written yet
                lazy_clean = all((raw(t) == SENTINEL).all() for t in tgts)
                dask.compute(res)
            else:
                lazy_clean = True
            stored = None
            if case["return_stored"]:
                arrs = (res,) if not isinstance(res, tuple) else res
                stored = [np.asarray(a.compute()) for a in arrs]
        except Exception as e:  # noqa: BLE001
            if supported:
                if isinstance(e, NotImplementedError):
                    return "refuses-supported-region", {"error": repr(e)[:200]}, None
                return f"raises:{type(e).__name__}", {"error": repr(e)[:300]}, None
            # an unsupported region is refused when its first block executes; blocks of the OTHER pairs
            # may already have been written - every written position must still hold the right value
            for k, (t, exp) in enumerate(zip(tgts, exps)):
                got = raw(t)
                bad_region = not region_supported(regions[k])
                ok = (got == SENTINEL).all() if bad_region else ((got == SENTINEL) | (got == exp)).all()
                if not ok:
                    return "wrong-write-before-refusal", {"pair": k, "error": repr(e)[:200], "got": got.tolist() if got.size <= 80 else str(got.shape)}, None
            return None, {"refused": True, "error": type(e).__name__}, None
    logs = [(t.wlog, t.rlog) if isinstance(t, RecTarget) else None for t in tgts]
    for k, (t, exp, data) in enumerate(zip(tgts, exps, datas)):
        got = raw(t)
        if not np.array_equal(got, exp):
            wrong_inside = False
            r = regions[k]
            inside = got[r] if r is not None else got
            wrong_inside = inside.shape != data.shape or not np.array_equal(inside, data)
            sig = "written-values" if wrong_inside else "outside-region-touched"
            return sig, {"pair": k, "got": got.tolist() if got.size <= 80 else str(got.shape), "want": exp.tolist() if exp.size <= 80 else str(exp.shape)}, logs
    if not supported:
        return "unsupported-region-accepted-correctly", {}, logs  # not a failure: handled by caller
    if stored is not None:
        for k, (s, data) in enumerate(zip(stored, datas)):
            if s.shape != data.shape or not np.array_equal(s, data):
                return "return_stored-values", {"pair": k, "got": s.tolist() if s.size <= 80 else str(s.shape), "want": data.tolist() if data.size <= 80 else str(data.shape)}, logs
    if not lazy_clean:
        return "compute=False-wrote-eagerly", {}, logs
    return None, {}, logs


def shrink(case, sig, budget=80):
    best = case
    tries = 0

    def still(c):
        nonlocal tries
        tries += 1
        try:
            return run_case(c)[0] == sig
        except Exception:  # noqa: BLE001
            return False

    changed = True
    while changed and tries < budget:
        changed = False
        if len(best["pairs"]) > 1:
            for i in range(len(best["pairs"])):
                c = dict(best, pairs=best["pairs"][:i] + best["pairs"][i + 1:])
                if still(c):
                    best, changed = c, True
                    break
            if changed:
                continue
        for k, v in (("lock", "false"), ("compute", True), ("return_stored", False), ("load_stored", None), ("optimize", True)):
            if best.get(k) != v:
                c = dict(best, **{k: v})
                if still(c):
                    best, changed = c, True
                    break
        if changed:
            continue
        for i, p in enumerate(best["pairs"]):
            for k, v in (("derived", "none"), ("numpy_target", True), ("chunks", [[n] for n in p["shape"]])):
                if p.get(k) != v:
                    c = dict(best, pairs=best["pairs"][:i] + [dict(p, **{k: v})] + best["pairs"][i + 1:])
                    if still(c):
                        best, changed = c, True
                        break
            if changed:
                break
    return best


# --------------------------------------------------------------------------- correspondence

def block_indices(chunks):
    """all (block id, index tuple of slices) of a chunking, as ArraySliceDep produces them"""
    starts = [[0] + list(np.cumsum(c)) for c in chunks]
    for bid in itertools.product(*[range(len(c)) for c in chunks]):
        yield bid, tuple(slice(int(starts[k][i]), int(starts[k][i + 1]), None) for k, i in enumerate(bid))


def f_key(key):
    if not isinstance(key, tuple):
        key = (key,)
    out = []
    for i in key:
        if isinstance(i, slice):
            out.append(f_slice(i))
        elif isinstance(i, Integral):
            out.append(str(int(i)))
        elif i is None:
            out.append("nx")
        else:
            out.append("F")
    return "|".join(out) if out else "_"


def corr_from_logs(case, logs):
    """pairs (request, impl) for every block written during a real store into a recording target"""
    out = []
    for k, p in enumerate(case["pairs"]):
        if logs is None or logs[k] is None:
            continue
        wlog, _ = logs[k]
        shape = tuple(p["shape"])
        data = source_array(k, shape)
        region = dec_region(p["region"])
        by_first = {}
        # assignments to an empty selection touch nothing (a one-element source whose zero-length chunks were
        # collapsed by the optimizer is broadcast to every block position: `out[a:a] = x` is a no-op)
        wlog = [w for w in wlog if not writes_nothing(w[0])]
        for key, first, vshape in wlog:
            by_first.setdefault(first, []).append((key, vshape))
        for bid, index in block_indices(p["chunks"]):
            blk = data[index]
            req = f"io.store_index {f_ridx(region)} {f_pairs(index)}"
            if blk.size == 0:
                continue  # `x.size != 0` guard: nothing is written (and nothing may be logged)
            hits = by_first.get(int(blk.flat[0]), [])
            if len(hits) != 1:
                out.append((req, f"err Written{len(hits)}Times"))
                continue
            key, vshape = hits[0]
            if tuple(vshape) != blk.shape:
                out.append((req, "err BlockShape"))
                continue
            out.append((req, "ok " + f_key(key)))
        nonempty = sum(1 for _, ix in block_indices(p["chunks"]) if data[ix].size)
        if len(wlog) != nonempty:
            out.append((f"io.store_index {f_ridx(region)} _", f"err {len(wlog)}WritesFor{nonempty}Blocks"))
    return out


def corr_direct(ctx):
    """load_store_chunk / fuse_slice called directly (also regions the API refuses)"""
    from dask_array.io._store import load_store_chunk
    from dask_array.slicing._utils import fuse_slice

    rng = ctx.rng
    pairs = []
    for _ in range(ctx.scale(1200, 12000)):
        rank = rng.randint(1, 3)
        shape = tuple(rng.randint(1, 5) for _ in range(rank))
        tshape, region = rand_region(rng, shape, unsupported=rng.random() < 0.25)
        form = rng.random()
        if form < 0.12:
            region = None
            tshape = shape
        elif form < 0.18:
            region = ()
            tshape = shape
        elif form < 0.28:
            region = region[: rng.randint(1, len(region))]  # shorter than the index: leftovers appended
        chunks = [gen.rand_chunks(rng, n, maxparts=3) for n in shape]
        bid, index = rng.choice(list(block_indices(chunks)))
        req = f"io.store_index {f_ridx(region)} {f_pairs(index)}"
        t = KeyLog()
        x = np.ones(tuple(max(1, s.stop - s.start) for s in index), dtype=np.int64)
        try:
            load_store_chunk(x, t, index, region, False, False, False)
            impl = "ok " + f_key(t.wlog[0]) if len(t.wlog) == 1 else f"err {len(t.wlog)}Writes"
        except Exception as e:  # noqa: BLE001
            impl = err_name(e)
        pairs.append((req, impl))
    # per-axis write slices
    for _ in range(ctx.scale(800, 8000)):
        n = rng.randint(0, 9)
        cks = gen.rand_chunks(rng, n, zeros=0.2, maxparts=5)
        r = gen.rand_slice(rng, 12, steps=(None, 1, 1, 2, 3, -1)) if rng.random() < 0.8 else None
        outs = []
        err = None
        pos = 0
        for c in cks:
            ix = slice(pos, pos + c, None)
            pos += c
            try:
                outs.append(fuse_slice(r, ix) if r is not None else ix)
            except Exception as e:  # noqa: BLE001
                err = err_name(e)
                break
        pairs.append((f"io.store_writes {'N' if r is None else f_slice(r)} {','.join(map(str, cks))}", err or ("ok " + ";".join(f_slice(s) for s in outs))))
    return pairs


# --------------------------------------------------------------------------- npy stack

NPY_DTYPES = ("int64", "float64", "int32", "uint8")


def npy_data(spec):
    shape = tuple(spec["shape"])
    a = source_array(spec.get("salt", 3), shape)
    dt = np.dtype(spec.get("dtype", "int64"))
    return (a % 251).astype(dt) if dt == np.uint8 else a.astype(dt)


def rand_npy_spec(rng, salt=3):
    rank = rng.randint(1, 3)
    shape = tuple(0 if rng.random() < 0.04 else rng.randint(1, 6) for _ in range(rank))
    chunks = tuple(gen.rand_chunks(rng, s, zeros=0.06, maxparts=4) for s in shape)
    return {"shape": list(shape), "chunks": [list(c) for c in chunks], "axis": rng.randint(0, rank - 1),
            "dtype": rng.choice(NPY_DTYPES), "salt": salt, "mmap_mode": rng.choice(["r", None]),
            "derived": rng.random() < 0.3, "optimize": rng.random() < 0.7}


def npy_roundtrip(ctx, n):
    """single round trips into fresh directories, and HISTORIES that write 2-3 different arrays
    (shape / chunking / dtype / axis all change) into ONE directory, reading back after every write;
    controls run the same histories with a fresh directory per step"""
    rng = ctx.rng
    pairs = []
    cases = []
    for _ in range(n // 2):
        cases.append({"kind": "npy_history", "steps": [rand_npy_spec(rng)], "reuse": False, "hold": False})
    for _ in range(max(1, n // 5)):
        steps = [rand_npy_spec(rng, salt=3 + k) for k in range(rng.randint(2, 3))]
        r = rng.random()
        cases.append({"kind": "npy_history", "steps": steps, "reuse": r < 0.8, "hold": r < 0.3})
    for case in cases:
        sig, det, reqs = run_npy(case)
        st = case["steps"]
        ctx.count(("npy", len(st), case["reuse"], case["hold"], tuple(len(x["shape"]) for x in st),
                   tuple(x["axis"] for x in st), len({x["dtype"] for x in st}) > 1, st[-1]["mmap_mode"]))
        pairs.extend(reqs)
        if sig is not None:
            small = npy_shrink(case, sig)
            s2, d2, _ = run_npy(small)
            if s2 != sig:
                small, d2 = case, det
            ctx.fail(f"npy_stack:{sig}", {"kind": "npy_history", "program": small, "details": d2},
                     "to_npy_stack/from_npy_stack round trip differs from the array")
    ctx.notes["npy_histories"] = sum(1 for c in cases if len(c["steps"]) > 1)
    ctx.notes["npy_roundtrips"] = sum(len(c["steps"]) for c in cases)
    return pairs


def npy_shrink(case, sig):
    """drop leading/middle steps and simplify specs while the same signature still fails"""
    best = case
    changed = True
    tries = 0
    while changed and tries < 30:
        changed = False
        for i in range(len(best["steps"]) - 1):
            c = dict(best, steps=best["steps"][:i] + best["steps"][i + 1:])
            tries += 1
            if run_npy(c)[0] == sig:
                best, changed = c, True
                break
        if changed:
            continue
        for i, st in enumerate(best["steps"]):
            for k, v in (("derived", False), ("mmap_mode", None), ("optimize", True), ("chunks", [[n] for n in st["shape"]])):
                if st.get(k) != v:
                    c = dict(best, steps=best["steps"][:i] + [dict(st, **{k: v})] + best["steps"][i + 1:])
                    tries += 1
                    if run_npy(c)[0] == sig:
                        best, changed = c, True
                        break
            if changed:
                break
    return best


def npy_step(dirname, spec, fresh):
    """one write + on-disk check + read-back.  Returns (signature or None, details, request, array)."""
    import dask
    import dask_array as da

    shape = tuple(spec["shape"])
    chunks = tuple(tuple(c) for c in spec["chunks"])
    axis = spec["axis"]
    data = npy_data(spec)
    if spec.get("derived"):
        d = da.from_array(data - 2, chunks=chunks) + 2
        d = d.astype(data.dtype)
    else:
        d = da.from_array(data, chunks=chunks)
    want_chunks = tuple(tuple(c) if k == axis else (sum(c),) for k, c in enumerate(chunks))
    req = None
    with dask.config.set({"array.optimize-graph": bool(spec.get("optimize", True))}):
        try:
            da.to_npy_stack(dirname, d, axis=axis)
            with open(os.path.join(dirname, "info"), "rb") as f:
                info = pickle.load(f)
            req = (f"io.npy_chunks {f_ll(chunks)} {axis}", "ok " + f_ll(info["chunks"]))
            if info.get("axis") != axis or np.dtype(info.get("dtype")) != data.dtype:
                return "info-file", {"info": repr(info)[:200]}, req, None
            files = sorted(f for f in os.listdir(dirname) if f.endswith(".npy"))
            expect = [f"{i}.npy" for i in range(len(chunks[axis]))]
            # a reused directory may keep higher-numbered files of an earlier, longer stack (never read)
            if (sorted(expect) != files) if fresh else (not set(expect) <= set(files)):
                return "files", {"files": files, "want": expect}, req, None
            pos = 0
            for i, c in enumerate(chunks[axis]):
                blk = np.load(os.path.join(dirname, f"{i}.npy"))
                sl = [slice(None)] * len(shape)
                sl[axis] = slice(pos, pos + c)
                pos += c
                w = data[tuple(sl)]
                if blk.shape != w.shape or blk.dtype != w.dtype or not np.array_equal(blk, w):
                    return "file-content", {"file": i, "got": blk.tolist() if blk.size <= 60 else str(blk.shape)}, req, None
            y = da.from_npy_stack(dirname, mmap_mode=spec.get("mmap_mode", "r"))
            meta = {"shape": tuple(y.shape), "dtype": str(y.dtype), "chunks": y.chunks}
            if tuple(y.shape) != shape or y.dtype != data.dtype or tuple(tuple(c) for c in y.chunks) != want_chunks:
                return "read-back-metadata", {"got": meta, "want": {"shape": shape, "dtype": str(data.dtype), "chunks": want_chunks}}, req, y
            got = np.asarray(y.compute())
            if got.shape != shape or got.dtype != data.dtype or not np.array_equal(got, data):
                return "values", {"got": got.tolist() if got.size <= 60 else str(got.shape), "want": data.tolist() if data.size <= 60 else str(shape)}, req, y
            if all(s > 0 for s in shape):
                ix = tuple(slice(0, max(1, s - 1)) for s in shape)
                if not np.array_equal(np.asarray(y[ix].compute()), data[ix]):
                    return "values-sliced", {}, req, y
            return None, {}, req, y
        except Exception as e:  # noqa: BLE001
            return f"raises:{type(e).__name__}", {"error": repr(e)[:300]}, req, None


def run_npy(case):
    """Run a single round trip (legacy kind `npy_stack`) or a history.  `reuse`: all steps write into
    one directory; `hold`: the arrays read back earlier stay referenced while later steps run (otherwise
    they are dropped and collected first).  Returns (signature or None, details, requests)."""
    import gc

    if case.get("kind") == "npy_stack" or "steps" not in case:
        case = {"steps": [dict(case, dtype="int64", salt=3)], "reuse": False, "hold": False}
    tmp = tempfile.mkdtemp(prefix="verif-c25-", dir="/tmp")
    reqs = []
    held = []
    try:
        for k, spec in enumerate(case["steps"]):
            dirname = os.path.join(tmp, "stack" if case["reuse"] else f"stack{k}")
            fresh = not os.path.exists(dirname)
            sig, det, req, y = npy_step(dirname, spec, fresh)
            if req is not None:
                reqs.append(req)
            if sig is not None:
                if k > 0 and case["reuse"]:
                    # one stable class for "stale read-back while an earlier array of this directory is alive"
                    det = dict(det, kind=sig)
                    sig = "reuse-dir-held-stale" if case["hold"] else "reuse-dir:" + sig
                return sig, dict(det, step=k), reqs
            if case["hold"]:
                held.append(y)
            del y
            if not case["hold"]:
                gc.collect()
    finally:
        held.clear()
        shutil.rmtree(tmp, ignore_errors=True)
    return None, {}, reqs


# --------------------------------------------------------------------------- entry

def search(ctx):
    n = ctx.scale(1500, 20000)
    budget = ctx.scale(25, 330)
    t0 = ctx.elapsed()
    done = 0
    shrunk = set()  # minimise the first failure of each signature only
    corr = []
    refused = accepted_unsupported = 0
    for _ in range(n):
        if ctx.elapsed() - t0 > budget:
            break
        case = gen_case(ctx)
        sig, det, logs = run_case(case)
        if sig == "invalid-case":
            continue
        done += 1
        if det.get("refused"):
            refused += 1
        if sig == "unsupported-region-accepted-correctly":
            accepted_unsupported += 1
            sig = None
        ctx.count((len(case["pairs"]), case["lock"], case["compute"], case["return_stored"], case["load_stored"], case["optimize"],
                   tuple(sorted({p["derived"] for p in case["pairs"]})), any(p["region"] is not None for p in case["pairs"]),
                   bool(det.get("refused"))))
        if done % 89 == 0:
            ctx.sample({"program": case, "outcome": sig or "ok"})
        if sig is None and logs is not None and len(corr) < ctx.scale(4000, 40000):
            corr.extend(corr_from_logs(case, logs))
        if sig is not None:
            small = shrink(case, sig) if sig not in shrunk else case
            shrunk.add(sig)
            s2, d2, _ = run_case(small)
            if s2 != sig:
                small, d2 = case, det
            ctx.fail(f"store:{sig}", {"kind": "store", "program": small, "details": d2},
                     "da.store result differs from NumPy slice assignment into a sentinel-filled target")
    ctx.notes["store_programs"] = done
    ctx.notes["store_refusals_of_unsupported_regions"] = refused
    ctx.notes["unsupported_regions_written_correctly"] = accepted_unsupported
    return corr


def targeted(ctx):
    """lift disagreeing write-index requests to real `da.store` calls"""
    tried = 0
    for d in ctx.disagreements[:60]:
        t = d["request"].split()
        try:
            if t[0] != "io.store_index" or t[1] in ("N", "_") or t[2] == "_":
                continue
            region = []
            for tok in t[1].split("|"):
                if ":" in tok:
                    a, b, c = tok.split(":")
                    cv = lambda v: None if v == "N" else int(v)  # noqa: E731
                    region.append(["s", cv(a), cv(b), cv(c)])
                else:
                    region.append(int(tok))
            nsl = sum(isinstance(r, list) for r in region)
            ix = [tuple(int(v) for v in p.split(":")) for p in t[2].split("|")]
            if nsl != len(ix):
                continue
            # smallest source whose block grid contains this block; target large enough
            shape, chunks = [], []
            for a, b in ix:
                shape.append(b)
                chunks.append(([a] if a else []) + [b - a])
            reg = dec_region(region)
            tshape = []
            k = 0
            for r in reg:
                if isinstance(r, slice):
                    n = shape[k]
                    k += 1
                    tshape.append((r.start or 0) + n * (r.step or 1) + 2)
                else:
                    tshape.append(abs(r) + 1)
            case = {"pairs": [{"shape": shape, "chunks": chunks, "tshape": tshape, "region": region, "derived": "none", "numpy_target": False}],
                    "lock": "false", "compute": True, "return_stored": False, "load_stored": None, "optimize": True,
                    "regions_form": "list", "share_target": False}
            tried += 1
            sig, det, _ = run_case(case)
            if sig not in (None, "invalid-case", "unsupported-region-accepted-correctly"):
                ctx.fail(f"store:{sig}", {"kind": "store", "program": case, "details": det, "lifted_from": d["request"]},
                         "API-level lift of a model/implementation disagreement fails")
        except Exception as e:  # noqa: BLE001
            ctx.notes.setdefault("targeted_errors", []).append(repr(e)[:200])
    ctx.notes["targeted_search"] = f"{tried} da.store calls lifted from disagreeing write-index inputs"


def run(ctx, replay=None):
    ctx.rule = (
        "search: seeded random da.store programs: 1-3 source/target pairs (rank 1-3, axis <= 6, zero-length chunks, sources "
        "plain / elemwise / sliced / rechunked), targets NumPy or recording array-likes filled with a sentinel, regions None or "
        "tuples of slices with offsets, steps 1-3, open stops, integer entries, 8% unsupported (negative start/stop/step: must "
        "raise or write correctly), lock True/False/Lock, compute, return_stored, load_stored, optimize on/off; "
        "to_npy_stack/from_npy_stack over every axis, chunkings with zero-length chunks, dtypes, mmap modes, as single round "
        "trips and as histories of 2-3 different arrays written into ONE directory (on-disk files, metadata and read-back "
        "checked after every write; earlier arrays released or still referenced; fresh-directory controls). distinct by (pairs, lock, "
        "compute, return_stored, load_stored, optimize, source kinds, regions present, refused). correspondence: write index of "
        "every block actually written (identified by content) and direct load_store_chunk / fuse_slice calls vs the model"
    )
    ctx.assumptions = [
        "NumPy slice assignment `out[index] = x` writes x[j] to the j-th position selected by index on every axis (per-axis product)",
        "target[region].shape == source.shape (documented precondition of store)",
        "local scheduler (in-place writes reach the caller's target)",
    ]
    if replay is not None:
        case = replay.get("case", replay)
        prog = case.get("program")
        if case.get("kind") in ("npy_stack", "npy_history"):
            sig, det, _ = run_npy(prog)
            if sig is not None:
                ctx.fail(f"npy_stack:{sig}", {"kind": "npy_history", "program": prog, "details": det}, "replayed round trip still fails")
        elif prog is not None:
            sig, det, _ = run_case(prog)
            if sig not in (None, "invalid-case", "unsupported-region-accepted-correctly"):
                ctx.fail(f"store:{sig}", {"kind": "store", "program": prog, "details": det}, "replayed store program still fails")
        ctx.count(("replay",))
        return
    pairs_logged = search(ctx)
    pairs_npy = npy_roundtrip(ctx, ctx.scale(120, 1500))
    from harness.props.C24 import correspond_all

    correspond_all(ctx, [
        ("store:write index of real da.store blocks", pairs_logged,
         lambda req, m: (req.split(" ")[1] == "N", req.count("|"), m[:6], ":2" in req or ":3" in req)),
        ("load_store_chunk/fuse_slice direct", corr_direct(ctx),
         lambda req, m: (req.split(" ")[0], req.split(" ")[1] in ("N", "_"), m[:6], req.count("|"))),
        ("to_npy_stack chunks", pairs_npy, None),
    ])
    if ctx.disagreements or ctx.audit.get("broken"):
        targeted(ctx)
