"""C25 — store writes exactly the array into the requested target regions.

Correspondence: Lean model (Model/SourceIO.lean: `storeIndex`, `storeWrites`, `npyStackChunks`)
vs the real per-block write index (`__setitem__` keys logged by a recording target during a real
`da.store`, and direct `load_store_chunk` / `fuse_slice` calls) and the chunks `to_npy_stack`
records.
Search (independent of the model): `da.store` of 1-3 source/target pairs into sentinel-filled
targets with/without regions (offsets, steps >= 1, integers, unsupported negative bounds), lock
variants, compute=False, return_stored / load_stored, optimized and unoptimized; oracle =
NumPy slice assignment into a sentinel-filled copy.  `to_npy_stack` / `from_npy_stack` round
trips in temporary directories under /dev/shm (or /tmp).
"""
from __future__ import annotations

import itertools
import os
import pickle
import shutil
import tempfile
import threading
from numbers import Integral

import numpy as np

from harness import gen
from harness.core import err_name, f_ll, f_slice

SENTINEL = -1
# scratch directories: memory-backed when available (thousands of small files are created and removed per run)
SCRATCH = "/dev/shm" if os.path.isdir("/dev/shm") and os.access("/dev/shm", os.W_OK) else "/tmp"


class RecTarget:
    """array-like target: logs every `__setitem__` key (with the first value written, which
    identifies the source block) and every `__getitem__` key"""

    def __init__(self, shape):
        self.a = np.full(shape, SENTINEL, dtype=np.int64)
        self.shape = tuple(shape)
        self.dtype = self.a.dtype
        self.ndim = len(shape)
        self.wlog = []
        self.rlog = []

    def __setitem__(self, key, value):
        v = np.asarray(value)
        self.wlog.append((key, int(v.flat[0]) if v.size else None, v.shape))
        self.a[key] = value

    def __getitem__(self, key):
        self.rlog.append(key)
        return self.a[key]


class FileTarget:
    """zarr/h5py-like target: only the path travels when the object is pickled, the data lives in an
    .npy file that every `__setitem__` opens, writes in place (memory map: disjoint writes from several
    threads or processes do not interfere) and closes"""

    def __init__(self, path, shape):
        self.path = path
        self.shape = tuple(shape)
        self.dtype = np.dtype("int64")
        self.ndim = len(self.shape)
        np.save(path, np.full(self.shape, SENTINEL, dtype=np.int64))

    def __setitem__(self, key, value):
        if 0 in self.shape:
            return
        mm = np.lib.format.open_memmap(self.path, mode="r+")
        try:
            mm[key] = value  # shared mapping: visible to every later open without an explicit msync
        finally:
            del mm

    def __getitem__(self, key):
        return np.array(np.load(self.path)[key])

    def read(self):
        return np.array(np.load(self.path))


def pickling_get(dsk, keys, **kwargs):
    """deterministic stand-in for a serializing scheduler (distributed client, process pool): the graph
    and the results travel by value through cloudpickle, the tasks run synchronously on the copy"""
    import cloudpickle
    from dask.local import get_sync

    if hasattr(dsk, "__dask_graph__"):  # what dask.multiprocessing.get does with an expression
        dsk = dsk.__dask_graph__()
    dsk2, keys2 = cloudpickle.loads(cloudpickle.dumps((dict(dsk), keys)))
    return cloudpickle.loads(cloudpickle.dumps(get_sync(dsk2, keys2)))


SCHED_CTX = {
    "default": {},
    "threads": {"scheduler": "threads"},
    "sync": {"scheduler": "sync"},
    "pickling": {"scheduler": pickling_get},
    "processes": {"scheduler": "processes", "num_workers": 2},
}
SERIALIZING = ("pickling", "processes")
SCHED_KW = {None: None, "threads": "threads", "sync": "sync", "pickling": pickling_get, "processes": "processes"}


def raw(t):
    """current content of a target of any kind"""
    if isinstance(t, RecTarget):
        return t.a
    if isinstance(t, FileTarget):
        return t.read()
    return t


def pair_kind(p):
    return p.get("target") or ("numpy" if p.get("numpy_target") else "rec")


def store_serializes(case):
    """True when, by the documented rules, the compute inside `da.store` runs on a serializing scheduler:
    explicit `scheduler=` wins; otherwise the ambient one, except that a call with SOME in-memory ndarray
    target is forced onto the local thread pool"""
    if not case["compute"]:
        return False  # nothing runs inside store; the harness picks the scheduler of the later compute
    kw = case.get("sched_kw")
    if kw is not None:
        return kw in SERIALIZING
    if case.get("sched_ctx", "default") not in SERIALIZING:
        return False
    return not any(pair_kind(p) == "numpy" for p in case["pairs"])


def scheduler_valid(case):
    """a serializing scheduler writes in-memory targets on a copy (documented): such programs are not
    part of the property, only file-backed targets may be written remotely"""
    return not (store_serializes(case) and any(pair_kind(p) != "file" for p in case["pairs"]))


class KeyLog:
    """target that only records the key of every assignment (for direct load_store_chunk calls)"""

    def __init__(self):
        self.wlog = []

    def __setitem__(self, key, value):
        self.wlog.append(key)


# --------------------------------------------------------------------------- tokens

def f_ridx(t):
    if t is None:
        return "N"
    if len(t) == 0:
        return "_"
    return "|".join(f_slice(i) if isinstance(i, slice) else str(int(i)) for i in t)


def f_pairs(index):
    return "|".join(f"{s.start}:{s.stop}" for s in index) if index else "_"


def enc_region(r):
    if r is None:
        return None
    return [["s", i.start, i.stop, i.step] if isinstance(i, slice) else int(i) for i in r]


def dec_region(e):
    if e is None:
        return None
    return tuple(slice(i[1], i[2], i[3]) if isinstance(i, list) else int(i) for i in e)


# --------------------------------------------------------------------------- generators

def rand_region(rng, shape, unsupported=False):
    """(target_shape, region) with target[region].shape == shape.  Steps >= 1, offsets, sometimes
    an integer entry (extra target axis), sometimes open-ended stops."""
    tshape, region = [], []
    for n in shape:
        if rng.random() < 0.12:
            m = rng.randint(1, 4)
            tshape.append(m)
            region.append(rng.randint(0, m - 1))
        step = rng.choice([1, 1, 1, 2, 3])
        start = rng.randint(0, 3)
        span = 0 if n == 0 else (n - 1) * step + 1
        pad = rng.randint(0, 3)
        size = start + span + pad
        if n == 0:
            stop = start
        elif pad == 0 and rng.random() < 0.4:
            stop = None
        else:
            stop = start + span + (rng.randint(0, step - 1) if step > 1 else 0)
            stop = min(stop, size)
        tshape.append(max(size, 1))
        region.append(slice(start if (start or rng.random() < 0.7) else None, stop, step if (step > 1 or rng.random() < 0.3) else None))
    if rng.random() < 0.08:
        m = rng.randint(1, 3)
        tshape.append(m)
        region.append(rng.randint(0, m - 1))
    if unsupported and region:
        k = rng.choice([i for i, r in enumerate(region) if isinstance(r, slice)])
        r = region[k]
        n = tshape[k]
        kind = rng.choice(["negstart", "negstop", "negstep"])
        if kind == "negstart" and r.start is not None:
            region[k] = slice(r.start - n, r.stop, r.step)
        elif kind == "negstop" and r.stop is not None and r.stop - n < 0:
            region[k] = slice(r.start, r.stop - n, r.step)
        else:
            region[k] = slice(r.stop, r.start, -(r.step or 1))
    return tuple(tshape), tuple(region)


def rand_pair(rng):
    rank = rng.choice([1, 1, 2, 2, 3])
    shape = tuple(0 if rng.random() < 0.04 else rng.randint(1, 6) for _ in range(rank))
    chunks = [list(gen.rand_chunks(rng, n, zeros=0.08, maxparts=4)) for n in shape]
    if rng.random() < 0.3:
        tshape, region = shape, None
    else:
        tshape, region = rand_region(rng, shape, unsupported=rng.random() < 0.08)
    return {"shape": list(shape), "chunks": chunks, "tshape": list(tshape), "region": enc_region(region),
            "derived": rng.choice(["none", "none", "add", "slice", "rechunk"]),
            "target": rng.choice(["numpy", "rec", "rec", "file"])}


def partition_pairs(rng):
    """2-3 sources written by ONE store call into pairwise disjoint regions of ONE target: contiguous
    slabs (with gaps) or interleaved strides along one axis, everything on the other axes"""
    rank = rng.choice([1, 2, 2, 3])
    tshape = [rng.randint(3, 9) for _ in range(rank)]
    ax = rng.randint(0, rank - 1)
    n = tshape[ax]
    parts = rng.randint(2, 3)
    regs = []
    if rng.random() < 0.5:
        m = rng.choice([parts, parts, parts + 1])  # stride m, offsets 0..parts-1 (m > parts leaves holes)
        for i in rng.sample(range(m), parts):
            if i < n:
                regs.append(slice(i, None if rng.random() < 0.5 else n, m))
    else:
        cuts = sorted(rng.sample(range(0, n + 1), min(n + 1, parts * 2)))
        for i in range(0, len(cuts) - 1, 2):
            if cuts[i] < cuts[i + 1]:
                regs.append(slice(cuts[i], cuts[i + 1], None if rng.random() < 0.6 else 1))
    rng.shuffle(regs)
    pairs = []
    kind = rng.choice(["numpy", "rec", "file"])
    for j, r in enumerate(regs):
        region, shape = [], []
        for k in range(rank):
            if k == ax:
                region.append(r)
                shape.append(len(range(*r.indices(n))))
            else:
                region.append(slice(None) if rng.random() < 0.5 else slice(0, tshape[k]))
                shape.append(tshape[k])
        p = {"shape": shape, "chunks": [list(gen.rand_chunks(rng, s, zeros=0.05, maxparts=3)) for s in shape],
             "tshape": list(tshape), "region": enc_region(tuple(region)),
             "derived": rng.choice(["none", "none", "add", "rechunk"]), "target": kind}
        if j:
            p["tgt_of"] = 0
        pairs.append(p)
    return pairs


def twin_pairs(rng):
    """the SAME dask array stored into two (three) targets by one call: identical targets (same shape,
    same region, same sentinel content), or targets that differ in region / kind"""
    p = rand_pair(rng)
    if not region_supported(dec_region(p["region"])):
        p["region"], p["tshape"] = None, list(p["shape"])
    out = [p]
    for _ in range(rng.choice([1, 1, 2])):
        q = dict(p, src_of=0)
        v = rng.random()
        if v < 0.45:
            pass  # identical twin
        elif v < 0.75:
            tshape, region = rand_region(rng, tuple(p["shape"]))
            q["tshape"], q["region"] = list(tshape), enc_region(region)
        else:
            q["target"] = rng.choice([k for k in ("numpy", "rec", "file") if k != p["target"]])
        out.append(q)
    return out


# sizes (bytes) of in-memory targets around the point where a literal argument is hoisted into the graph as a node
# of its own (`normalize_arg`: sizeof(x) > 1e6; lists of >= 10 items)
BIG_BELOW = (999_000, 999_999, 1_000_000)
BIG_ABOVE = (1_000_001, 1_000_008, 1_048_576, 1_200_000, 2_000_000)
BYTE_FILLS = (0, 255, 251, 252, 253, 254)


def _big_shape(rng, nbytes, itemsize, rank, above):
    n = -(-nbytes // itemsize) if above else nbytes // itemsize
    if rank == 1:
        return [n]
    r = rng.choice([2, 4, 5, 8])
    return [r, -(-n // r) if above else n // r]


def _window(rng, tshape, stepped=False):
    """(source shape, region) of a small window somewhere in a large target (start, middle, flush with the end)"""
    shape, region = [], []
    for n in tshape:
        step = rng.choice([2, 3]) if stepped and rng.random() < 0.5 else 1
        most = (n - 1) // step + 1
        m = rng.randint(1, min(most, 6)) if len(tshape) > 1 else rng.randint(min(3, most), min(most, 40))
        span = (m - 1) * step + 1
        start = rng.choice([0, rng.randint(0, n - span), n - span, rng.randint(0, min(9, n - span))])
        stop = start + span
        region.append(slice(start if (start or rng.random() < 0.6) else None, None if (stop == n and rng.random() < 0.4) else stop,
                            step if (step > 1 or rng.random() < 0.3) else None))
        shape.append(m)
    return shape, tuple(region)


def big_target_pairs(rng, size="above", content="identical", region=None, npairs=None, dtype=None, rank=None, layout="pairs"):
    """2-3 (source, target) pairs of ONE store call whose ndarray targets sit just below / just above 1 MB (or one of
    each), with identical or different initial content; every pair has its own source.  `layout="shared"`: two sources
    into disjoint windows of one large target plus a third into an identical-looking second target."""
    dtype = dtype or rng.choice(["uint8", "uint8", "uint8", "int64"])
    item = np.dtype(dtype).itemsize
    rank = rank or rng.choice([1, 1, 2])
    region = region or rng.choice(["none", "window", "window", "same-window", "stepped-window"])
    npairs = npairs or rng.choice([2, 2, 2, 3])
    fills = list(BYTE_FILLS) if dtype == "uint8" else [SENTINEL, -7, -3, -9]
    fill0 = rng.choice(fills)

    def tshape_of(j):
        if size == "straddle":
            above = (j % 2 == 1)
        else:
            above = size == "above"
        nb = rng.choice(BIG_ABOVE if above else BIG_BELOW)
        return _big_shape(rng, nb, item, rank, above)

    t0 = tshape_of(0)
    win0 = None
    pairs = []
    if layout == "shared":
        t0 = _big_shape(rng, rng.choice(BIG_ABOVE if size != "below" else BIG_BELOW), item, 1, size != "below")
        n = t0[0]
        la, lb, lc = rng.randint(3, 30), rng.randint(3, 30), rng.randint(3, 30)
        a0 = rng.randint(0, 50)
        b0 = a0 + la + rng.randint(0, 20)
        c0 = rng.choice([a0, b0, rng.randint(0, n - lc)])
        for k, (st, ln, to) in enumerate(((a0, la, None), (b0, lb, 0), (c0, lc, None))):
            q = {"shape": [ln], "chunks": [list(gen.rand_chunks(rng, ln, maxparts=3))], "tshape": list(t0),
                 "region": enc_region((slice(st, st + ln),)), "derived": rng.choice(["none", "add", "rechunk"]), "target": "numpy",
                 "dtype": dtype, "fill": fill0}
            if to is not None:
                q["tgt_of"] = to
            pairs.append(q)
        return pairs
    for j in range(npairs):
        if content == "identical" or (content == "two-alike" and j < 2):
            tshape, fill = list(t0), fill0
        elif content == "different-fill":
            tshape, fill = list(t0), fills[(fills.index(fill0) + j) % len(fills)]
        else:  # different-size
            tshape, fill = (list(t0) if j == 0 else tshape_of(j)), fill0
            if j and tshape == t0:
                tshape[-1] += 1
        if content == "two-alike" and j >= 2:
            fill = fills[(fills.index(fill0) + 1) % len(fills)]
        if size == "straddle" and j:
            tshape = tshape_of(j)
        if region == "none":
            shape, reg = list(tshape), None
            chunks = [list(gen.rand_chunks(rng, shape[0], maxparts=3))] + [[m] for m in shape[1:]]
        else:
            if region == "same-window" and win0 is not None and list(tshape) == list(t0):
                shape, reg = win0
            else:
                shape, reg = _window(rng, tshape, stepped=region == "stepped-window")
            if win0 is None:
                win0 = (shape, reg)
            chunks = [list(gen.rand_chunks(rng, m, maxparts=3)) for m in shape]
        q = {"shape": list(shape), "chunks": chunks, "tshape": list(tshape), "region": enc_region(reg),
             "derived": rng.choice(["none", "none", "add"] if region == "none" else ["none", "none", "add", "rechunk", "slice"]),
             "target": "numpy", "dtype": dtype, "fill": fill}
        pairs.append(q)
    if npairs > 2 and content == "identical" and rng.random() < 0.3:
        pairs[2] = dict(pairs[0], src_of=0)  # one array into two of the look-alike targets as well
    return pairs


def many_pairs(rng):
    """10-12 (source, target) pairs in ONE store call (the sources / targets / regions are lists of >= 10 items);
    small targets, mostly identical-looking"""
    p = rand_pair(rng)
    while not region_supported(dec_region(p["region"])) or 0 in p["shape"]:
        p = rand_pair(rng)
    p["target"] = rng.choice(["numpy", "numpy", "rec"])
    n = rng.randint(10, 12)
    pairs = [dict(p) for _ in range(n)]
    for j in rng.sample(range(1, n), rng.randint(0, 3)):
        q = rand_pair(rng)
        if region_supported(dec_region(q["region"])):
            q["target"] = p["target"]
            pairs[j] = q
    if rng.random() < 0.3:
        j = rng.randint(1, n - 1)
        if pairs[j] == p:
            pairs[j] = dict(p, src_of=0)
    return pairs


def gen_case(ctx, force=None):
    rng = ctx.rng
    force = force or {}
    form = force.get("form") or rng.choice(["plain"] * 16 + ["partition", "twins"] * 2 + ["big"])
    if form == "partition":
        pairs = partition_pairs(rng)
    elif form == "big":
        pairs = big_target_pairs(rng, **(force.get("big") or {}))
    elif form == "many":
        pairs = many_pairs(rng)
    elif form == "twins":
        pairs = twin_pairs(rng)
    else:
        kinds = force.get("kinds")
        npairs = len(kinds) if kinds else rng.choice([1, 1, 1, 2, 3])
        pairs = [rand_pair(rng) for _ in range(npairs)]
        if kinds:
            for p, k in zip(pairs, kinds):
                p["target"] = k
    if not pairs:
        pairs = [rand_pair(rng)]
    quick_ctx = ["default"] * 4 + ["threads", "sync", "pickling", "pickling", "pickling"]
    case = {
        "pairs": pairs,
        "lock": rng.choice(["true", "true", "false", "obj", "ser"]),
        "compute": force["compute"] if "compute" in force else rng.random() < 0.6,
        "return_stored": force["return_stored"] if "return_stored" in force else rng.random() < 0.35,
        # explicit load_stored only with its default value (return_stored and not compute); the other
        # combinations are the documented "advanced option ... not what you want" and are not part of the property
        "load_stored": rng.choice([None, None, "default"]),
        "optimize": rng.random() < 0.7,
        "regions_form": rng.choice(["list", "list", "single"]),
        "share_target": False,
        "sched_ctx": force.get("sched_ctx") or rng.choice(quick_ctx),
        "sched_kw": force["sched_kw"] if "sched_kw" in force else rng.choice([None, None, None, "threads", "sync"]),
        "consumer": force.get("consumer") or rng.choice(CONSUMERS),
        "form": form,
    }
    if not scheduler_valid(case):
        # in-memory targets cannot be written through a serializing scheduler: make the program one the
        # documentation supports (all file-backed, or one ndarray target that forces the local scheduler)
        if "kinds" in force:
            return None
        fix = rng.choice(["file", "ndarray", "kw"])
        if fix == "file" or (fix == "kw" and case.get("sched_kw") in SERIALIZING):
            for p in pairs:
                p["target"] = "file"
        elif fix == "ndarray":
            rng.choice([p for p in pairs if "tgt_of" not in p])["target"] = "numpy"
            for p in pairs:
                if "tgt_of" in p:
                    p["target"] = pairs[p["tgt_of"]]["target"]
        else:
            case["sched_kw"] = rng.choice(["threads", "sync"])
    for p in pairs:
        if "tgt_of" in p:
            p["target"] = pairs[p["tgt_of"]]["target"]
    if not scheduler_valid(case):
        return None
    return case


def region_supported(r):
    """what `fuse_slice` accepts: non-negative start / stop, positive step (None allowed)"""
    return r is None or all(
        (not isinstance(i, slice)) or ((i.start or 0) >= 0 and (i.stop or 0) >= 0 and (i.step or 1) > 0) for i in r
    )


def writes_nothing(key):
    key = key if isinstance(key, tuple) else (key,)
    return any(isinstance(i, slice) and i.start is not None and i.stop is not None and i.start >= i.stop and (i.step or 1) > 0 for i in key)


def source_array(k, shape, dtype="int64"):
    n = int(np.prod(shape))
    if np.dtype(dtype) == np.uint8:
        # 1..250: never one of the fills used for byte targets (0, 251..255); pairs differ in phase
        return ((np.arange(n, dtype=np.int64) * 7 + 31 * k) % 250 + 1).astype(np.uint8).reshape(shape)
    return (np.arange(n, dtype=np.int64) + 1000 * k).reshape(shape)


def pair_fill(p):
    """initial content of the pair's target (every position holds this value before the store)"""
    return p.get("fill", SENTINEL)


def small(a):
    return a.tolist() if a.size <= 80 else str(a.shape)


def run_case(case, want_logs=False):
    """Run one store program on the real code.  Returns (signature or None, details, logs)."""
    if not scheduler_valid(case):
        return "invalid-case", {}, None
    tmp = None
    if any(pair_kind(p) == "file" for p in case["pairs"]):
        tmp = tempfile.mkdtemp(prefix="verif-c25s-", dir=SCRATCH)
    try:
        return _run_case(case, tmp)
    finally:
        if tmp is not None:
            shutil.rmtree(tmp, ignore_errors=True)


def _run_case(case, tmp):
    import dask
    import dask_array as da
    from dask.utils import SerializableLock

    srcs, tgts, regions, datas, kinds, owner = [], [], [], [], [], []
    exps = {}
    fills = {}
    valid = True
    for k, p in enumerate(case["pairs"]):
        shape = tuple(p["shape"])
        chunks = tuple(tuple(c) for c in p["chunks"])
        so = p.get("src_of")
        if so is not None:
            d, data = srcs[so], datas[so]
        else:
            data = source_array(k, shape, p.get("dtype", "int64"))
            if p["derived"] == "slice":
                big = np.concatenate([data, data[:1]], axis=0) if data.shape[0] else data
                d = da.from_array(big, chunks=big.shape)[: data.shape[0]].rechunk(chunks)
            elif p["derived"] == "add":
                d = da.from_array(data - 5, chunks=chunks) + 5
            elif p["derived"] == "rechunk":
                d = da.from_array(data, chunks=data.shape).rechunk(chunks)
            else:
                d = da.from_array(data, chunks=chunks)
        region = dec_region(p["region"])
        tshape = tuple(p["tshape"])
        to = p.get("tgt_of")
        if to is not None:
            t, own, kind = tgts[to], owner[to], kinds[to]
        else:
            kind, own = pair_kind(p), k
            if kind == "numpy":
                t = np.full(tshape, pair_fill(p), dtype=np.dtype(p.get("dtype", "int64")))
                fills[own] = pair_fill(p)
                exps[own] = np.full(tshape, pair_fill(p), dtype=t.dtype)
            else:
                if kind == "file":
                    t = FileTarget(os.path.join(tmp, f"t{k}.npy"), tshape)
                else:
                    t = RecTarget(tshape)
                fills[own] = SENTINEL
                exps[own] = np.full(tshape, SENTINEL, dtype=np.int64)
        exp = exps[own]
        try:
            if region is None:
                exp[...] = data
                valid = valid and exp.shape == data.shape
            else:
                if to is not None and (exp[region] != fills[own]).any():
                    valid = False  # regions of one target must be disjoint
                exp[region] = data
                valid = valid and exp[region].shape == data.shape
        except Exception:  # noqa: BLE001
            valid = False
        srcs.append(d)
        tgts.append(t)
        regions.append(region)
        datas.append(data)
        kinds.append(kind)
        owner.append(own)
    if not valid:
        return "invalid-case", {}, None
    supported = all(region_supported(r) for r in regions)
    ctxname = case.get("sched_ctx", "default")
    serial_ctx = ctxname in SERIALIZING
    pickled = serial_ctx or case.get("sched_kw") in SERIALIZING
    lock = {"true": True, "false": False, "obj": SerializableLock() if pickled else threading.Lock(),
            "ser": SerializableLock()}[case["lock"]]
    kwargs = {"lock": lock, "compute": case["compute"], "return_stored": case["return_stored"]}
    if case["load_stored"] == "default":
        kwargs["load_stored"] = bool(case["return_stored"] and not case["compute"])
    if case["compute"] and case.get("sched_kw") is not None:
        kwargs["scheduler"] = SCHED_KW[case["sched_kw"]]
    # computes issued by the harness itself (compute=False): the caller of a lazy store into in-memory
    # targets has to pick a local scheduler
    hk = {"scheduler": "sync"} if (serial_ctx and any(k != "file" for k in kinds)) else {}
    single = len(srcs) == 1 and case["regions_form"] == "single"
    if all(r is None for r in regions):
        regs = None
    elif single:
        regs = regions[0]
    else:
        regs = list(regions)
    consumer_bad = None
    with dask.config.set({"array.optimize-graph": bool(case["optimize"]), **SCHED_CTX[ctxname]}):
        try:
            res = da.store(srcs[0] if single else srcs, tgts[0] if single else tgts, regions=regs, **kwargs)
            if not case["compute"] and not case["return_stored"]:
                # lazily built: nothing may have been written yet
                lazy_clean = all((raw(t) == fills[o]).all() for t, o in zip(tgts, owner))
                dask.compute(res, **hk)
            else:
                lazy_clean = True
            stored = None
            if case["return_stored"]:
                arrs = (res,) if not isinstance(res, tuple) else res
                lazy = not case["compute"]
                stored = [np.asarray(a.compute(**(hk if lazy else {}))) for a in arrs]
                cons = case.get("consumer", "compute")
                if cons != "compute" and not lazy:
                    # the returned arrays are ordinary arrays: further operations read the stored data
                    for k, (a, data) in enumerate(zip(arrs, datas)):
                        if a.ndim == 0 or 0 in data.shape:
                            continue
                        try:
                            if cons == "slice":
                                ix = tuple(slice(0, max(1, n - 1)) for n in data.shape)
                                got, want = np.asarray(a[ix].compute()), data[ix]
                            elif cons == "step":
                                ix = tuple(slice(None, None, 2) for n in data.shape)
                                got, want = np.asarray(a[ix].compute()), data[ix]
                            elif cons == "int":
                                got, want = np.asarray(a[data.shape[0] // 2].compute()), data[data.shape[0] // 2]
                            elif cons == "fancy":
                                ix = [data.shape[0] - 1, 0, data.shape[0] // 2]
                                got, want = np.asarray(a[ix].compute()), data[ix]
                            elif cons == "add":
                                got, want = np.asarray((a + 1).sum(axis=0).compute()), (data + 1).sum(axis=0)
                            elif cons == "rechunk":
                                got, want = np.asarray(a.rechunk(data.shape).compute()), data
                            else:
                                got, want = np.asarray(a.T.compute()), data.T
                        except Exception as e:  # noqa: BLE001
                            # the store itself and the full read-back succeeded; an operation on the returned array fails
                            consumer_bad = {"pair": k, "consumer": cons, "error": repr(e)[:300], "raises": type(e).__name__}
                            break
                        if got.shape != want.shape or not np.array_equal(got, want):
                            consumer_bad = {"pair": k, "consumer": cons, "got": small(got), "want": small(want)}
                            break
        except Exception as e:  # noqa: BLE001
            if supported:
                if isinstance(e, NotImplementedError):
                    return "refuses-supported-region", {"error": repr(e)[:200]}, None
                return f"raises:{type(e).__name__}", {"error": repr(e)[:300]}, None
            # an unsupported region is refused when its first block executes; blocks of the OTHER pairs
            # may already have been written - every written position must still hold the right value
            for own, exp in exps.items():
                got = raw(tgts[own])
                bad_region = any(not region_supported(regions[k]) for k in range(len(tgts)) if owner[k] == own)
                ok = (got == fills[own]).all() if bad_region and sum(1 for o in owner if o == own) == 1 else ((got == fills[own]) | (got == exp)).all()
                if not ok:
                    return "wrong-write-before-refusal", {"pair": own, "error": repr(e)[:200], "got": small(got)}, None
            return None, {"refused": True, "error": type(e).__name__}, None
    shared = len(set(owner)) < len(owner)
    logs = [(t.wlog, t.rlog) if isinstance(t, RecTarget) and not shared else None for t in tgts]
    def untouched(o):
        g = raw(tgts[o])
        return bool((g == fills[o]).all()) and not np.array_equal(g, exps[o])

    # a target that was not written at all is looked at first: which of the OTHER targets then holds wrong values
    # may depend on the order the blocks happened to run in; the untouched one does not
    for own in sorted(exps, key=lambda o: (not untouched(o), o)):
        exp = exps[own]
        got = raw(tgts[own])
        if not np.array_equal(got, exp):
            writers = [k for k in range(len(tgts)) if owner[k] == own]
            wrong_inside = False
            for k in writers:
                r = regions[k]
                inside = got[r] if r is not None else got
                if inside.shape != datas[k].shape or not np.array_equal(inside, datas[k]):
                    wrong_inside = True
            sig = "written-values" if wrong_inside else "outside-region-touched"
            det = {"pair": own, "got": small(got), "want": small(exp)}
            if wrong_inside and (got == fills[own]).all():
                sig = "target-untouched"
                # narrow class: the same dask array stored into several targets that are indistinguishable by
                # content (same kind, shape, region, sentinel fill) - only one of them is written
                twins = [j for j in range(len(tgts)) if j != own and len(writers) == 1 and srcs[j] is srcs[own]
                         and kinds[j] == kinds[own] != "file" and case["pairs"][j]["tshape"] == case["pairs"][own]["tshape"]
                         and case["pairs"][j]["region"] == case["pairs"][own]["region"] and owner[j] == j]
                if twins and any(np.array_equal(raw(tgts[j]), exps[j]) for j in twins):
                    sig = "same-source-identical-targets-written-once"
                else:
                    # narrow class: DIFFERENT sources into several targets of one call that are indistinguishable by
                    # initial content (same kind, shape, dtype, fill): the writes meant for this one went elsewhere / nowhere
                    def looks(j):
                        q = case["pairs"][j]
                        return (kinds[j], q["tshape"], q.get("dtype", "int64"), pair_fill(q))

                    alike = [j for j in exps if j != own and kinds[j] != "file" and looks(j) == looks(own)]
                    if alike:
                        sig = "identical-looking-targets:one-untouched"
                        for k in writers:
                            r = regions[k]
                            for j in alike:
                                try:
                                    there = raw(tgts[j]) if r is None else raw(tgts[j])[r]
                                except Exception:  # noqa: BLE001
                                    continue
                                if datas[k].size and there.shape == datas[k].shape and np.array_equal(there, datas[k]):
                                    det["values_of_pair"] = k
                                    det["found_in_target_of_pair"] = j
            return sig, det, logs
    if not supported:
        return "unsupported-region-accepted-correctly", {}, logs  # not a failure: handled by caller
    if stored is not None:
        for k, (s, data) in enumerate(zip(stored, datas)):
            if s.shape != data.shape or not np.array_equal(s, data):
                return "return_stored-values", {"pair": k, "got": small(s), "want": small(data)}, logs
    if consumer_bad is not None:
        if "raises" in consumer_bad:
            kind = "index" if consumer_bad["consumer"] in ("slice", "step", "int", "fancy") else consumer_bad["consumer"]
            return f"return_stored-then-{kind}:raises:{consumer_bad['raises']}", consumer_bad, logs
        return "return_stored-consumer-values", consumer_bad, logs
    if not lazy_clean:
        return "compute=False-wrote-eagerly", {}, logs
    return None, {}, logs


def shrink(case, sig, budget=80):
    best = case
    tries = 0

    def still(c):
        nonlocal tries
        tries += 1
        try:
            return run_case(c)[0] == sig
        except Exception:  # noqa: BLE001
            return False

    changed = True
    while changed and tries < budget:
        changed = False
        if len(best["pairs"]) > 1:
            for i in range(len(best["pairs"])):
                if any(q.get("src_of") == i or q.get("tgt_of") == i for q in best["pairs"]):
                    continue
                rest = []
                for q in best["pairs"][:i] + best["pairs"][i + 1:]:
                    q = dict(q)
                    for key in ("src_of", "tgt_of"):
                        if q.get(key) is not None and q[key] > i:
                            q[key] -= 1
                    rest.append(q)
                c = dict(best, pairs=rest)
                if still(c):
                    best, changed = c, True
                    break
            if changed:
                continue
        for k, v in (("sched_kw", None), ("sched_ctx", "default"), ("lock", "false"), ("compute", True), ("return_stored", False),
                     ("load_stored", None), ("optimize", True), ("consumer", "compute")):
            if best.get(k, v) != v:
                c = dict(best, **{k: v})
                if still(c):
                    best, changed = c, True
                    break
        if changed:
            continue
        for i, p in enumerate(best["pairs"]):
            linked = "tgt_of" in p or any(q.get("tgt_of") == i or q.get("src_of") == i for q in best["pairs"]) or p.get("src_of") is not None
            for k, v in (("derived", "none"), ("target", "numpy"), ("chunks", [[n] for n in p["shape"]]), ("region", None)):
                if k in ("target", "region") and linked:
                    continue
                if k == "region" and p.get("region") is not None:
                    c = dict(best, pairs=best["pairs"][:i] + [dict(p, region=None, tshape=list(p["shape"]))] + best["pairs"][i + 1:])
                    if still(c):
                        best, changed = c, True
                        break
                    continue
                if (pair_kind(p) if k == "target" else p.get(k)) != v:
                    c = dict(best, pairs=best["pairs"][:i] + [dict(p, **{k: v})] + best["pairs"][i + 1:])
                    if still(c):
                        best, changed = c, True
                        break
            if changed:
                break
    return best


# --------------------------------------------------------------------------- correspondence

def block_indices(chunks):
    """all (block id, index tuple of slices) of a chunking, as ArraySliceDep produces them"""
    starts = [[0] + list(np.cumsum(c)) for c in chunks]
    for bid in itertools.product(*[range(len(c)) for c in chunks]):
        yield bid, tuple(slice(int(starts[k][i]), int(starts[k][i + 1]), None) for k, i in enumerate(bid))


def f_key(key):
    if not isinstance(key, tuple):
        key = (key,)
    out = []
    for i in key:
        if isinstance(i, slice):
            out.append(f_slice(i))
        elif isinstance(i, Integral):
            out.append(str(int(i)))
        elif i is None:
            out.append("nx")
        else:
            out.append("F")
    return "|".join(out) if out else "_"


def corr_from_logs(case, logs):
    """pairs (request, impl) for every block written during a real store into a recording target"""
    out = []
    for k, p in enumerate(case["pairs"]):
        if logs is None or logs[k] is None:
            continue
        wlog, _ = logs[k]
        shape = tuple(p["shape"])
        data = source_array(k if p.get("src_of") is None else p["src_of"], shape)
        region = dec_region(p["region"])
        by_first = {}
        # assignments to an empty selection touch nothing (a one-element source whose zero-length chunks were
        # collapsed by the optimizer is broadcast to every block position: `out[a:a] = x` is a no-op)
        wlog = [w for w in wlog if not writes_nothing(w[0])]
        for key, first, vshape in wlog:
            by_first.setdefault(first, []).append((key, vshape))
        for bid, index in block_indices(p["chunks"]):
            blk = data[index]
            req = f"io.store_index {f_ridx(region)} {f_pairs(index)}"
            if blk.size == 0:
                continue  # `x.size != 0` guard: nothing is written (and nothing may be logged)
            hits = by_first.get(int(blk.flat[0]), [])
            if len(hits) != 1:
                out.append((req, f"err Written{len(hits)}Times"))
                continue
            key, vshape = hits[0]
            if tuple(vshape) != blk.shape:
                out.append((req, "err BlockShape"))
                continue
            out.append((req, "ok " + f_key(key)))
        nonempty = sum(1 for _, ix in block_indices(p["chunks"]) if data[ix].size)
        if len(wlog) != nonempty:
            out.append((f"io.store_index {f_ridx(region)} _", f"err {len(wlog)}WritesFor{nonempty}Blocks"))
    return out


def corr_direct(ctx):
    """load_store_chunk / fuse_slice called directly (also regions the API refuses)"""
    from dask_array.io._store import load_store_chunk
    from dask_array.slicing._utils import fuse_slice

    rng = ctx.rng
    pairs = []
    for _ in range(ctx.scale(1200, 12000)):
        rank = rng.randint(1, 3)
        shape = tuple(rng.randint(1, 5) for _ in range(rank))
        tshape, region = rand_region(rng, shape, unsupported=rng.random() < 0.25)
        form = rng.random()
        if form < 0.12:
            region = None
            tshape = shape
        elif form < 0.18:
            region = ()
            tshape = shape
        elif form < 0.28:
            region = region[: rng.randint(1, len(region))]  # shorter than the index: leftovers appended
        chunks = [gen.rand_chunks(rng, n, maxparts=3) for n in shape]
        bid, index = rng.choice(list(block_indices(chunks)))
        req = f"io.store_index {f_ridx(region)} {f_pairs(index)}"
        t = KeyLog()
        x = np.ones(tuple(max(1, s.stop - s.start) for s in index), dtype=np.int64)
        try:
            load_store_chunk(x, t, index, region, False, False, False)
            impl = "ok " + f_key(t.wlog[0]) if len(t.wlog) == 1 else f"err {len(t.wlog)}Writes"
        except Exception as e:  # noqa: BLE001
            impl = err_name(e)
        pairs.append((req, impl))
    # per-axis write slices
    for _ in range(ctx.scale(800, 8000)):
        n = rng.randint(0, 9)
        cks = gen.rand_chunks(rng, n, zeros=0.2, maxparts=5)
        r = gen.rand_slice(rng, 12, steps=(None, 1, 1, 2, 3, -1)) if rng.random() < 0.8 else None
        outs = []
        err = None
        pos = 0
        for c in cks:
            ix = slice(pos, pos + c, None)
            pos += c
            try:
                outs.append(fuse_slice(r, ix) if r is not None else ix)
            except Exception as e:  # noqa: BLE001
                err = err_name(e)
                break
        pairs.append((f"io.store_writes {'N' if r is None else f_slice(r)} {','.join(map(str, cks))}", err or ("ok " + ";".join(f_slice(s) for s in outs))))
    return pairs


# --------------------------------------------------------------------------- npy stack

NPY_DTYPES = ("int64", "float64", "int32", "uint8")


def npy_data(spec):
    shape = tuple(spec["shape"])
    a = source_array(spec.get("salt", 3), shape)
    dt = np.dtype(spec.get("dtype", "int64"))
    return (a % 251).astype(dt) if dt == np.uint8 else a.astype(dt)


def rand_npy_spec(rng, salt=3):
    rank = rng.randint(1, 3)
    shape = tuple(0 if rng.random() < 0.04 else rng.randint(1, 6) for _ in range(rank))
    chunks = tuple(gen.rand_chunks(rng, s, zeros=0.06, maxparts=4) for s in shape)
    return {"shape": list(shape), "chunks": [list(c) for c in chunks], "axis": rng.randint(0, rank - 1),
            "dtype": rng.choice(NPY_DTYPES), "salt": salt, "mmap_mode": rng.choice(["r", None]),
            "derived": rng.random() < 0.3, "optimize": rng.random() < 0.7}


EXTRA_NAMES = ("00.npy", "01.npy", "-1.npy", "1e1.npy", "a.npy", "info.npy", "0.npy.bak", "notes.txt", ".hidden.npy", "0_.npy", "+", "++")


def rand_npy_many(rng, salt=3, huge=False):
    """MANY blocks along the stacking axis (file names with two / three digits), ragged block sizes, every axis"""
    rank = rng.randint(1, 3)
    axis = rng.randint(0, rank - 1)
    nb = rng.choice([101, 110, 112]) if huge else rng.choice([11, 11, 12, 12, 13, 15, 20, 21, 23, 23, 25, 30])
    style = rng.random()
    if style < 0.25:
        sizes = [rng.randint(1, 2)] * nb  # equal blocks: a permutation is silent
    else:
        sizes = [0 if rng.random() < 0.04 else rng.randint(1, 3) for _ in range(nb)]
    if huge:
        sizes = [1 if rng.random() < 0.8 else 2 for _ in range(nb)]
    chunks, shape = [], []
    for k in range(rank):
        if k == axis:
            chunks.append(sizes)
            shape.append(sum(sizes))
        else:
            m = rng.randint(1, 3)
            chunks.append(list(gen.rand_chunks(rng, m, maxparts=2)))
            shape.append(m)
    return {"shape": shape, "chunks": chunks, "axis": axis, "dtype": rng.choice(NPY_DTYPES), "salt": salt,
            "mmap_mode": rng.choice(["r", None]), "derived": rng.random() < 0.3, "optimize": rng.random() < 0.7,
            "probe_block": rng.randint(0, nb - 1)}


def with_extras(rng, spec):
    """files that do not belong to the stack, present before or appearing after the write"""
    nb = len(spec["chunks"][spec["axis"]])
    names = list(EXTRA_NAMES) + [f"{nb}.npy", f"{nb + rng.randint(1, 9)}.npy", f"{nb * 10}.npy"]
    extras = []
    for _ in range(rng.randint(1, 3)):
        nm = rng.choice(names)
        if nm == "+":
            nm = f"0{rng.randint(0, nb - 1)}.npy"  # sorts next to a real block
        elif nm == "++":
            nm = f"{rng.randint(0, nb - 1)}.0.npy"
        if nm not in [e[0] for e in extras]:
            extras.append([nm, rng.choice(["before", "after"])])
    return dict(spec, extra_files=extras)


def write_extras(dirname, spec, when):
    for nm, w in spec.get("extra_files") or []:
        if w != when:
            continue
        os.makedirs(dirname, exist_ok=True)
        path = os.path.join(dirname, nm)
        if nm.endswith(".npy"):
            with open(path, "wb") as f:  # a valid array of another shape / dtype: silently loadable
                np.save(f, np.full((7, 1), 77777, dtype=np.int32))
        else:
            with open(path, "wb") as f:
                f.write(b"not part of the stack")


def npy_roundtrip(ctx, n):
    """single round trips into fresh directories, and HISTORIES that write 2-3 different arrays
    (shape / chunking / dtype / axis all change) into ONE directory, reading back after every write;
    controls run the same histories with a fresh directory per step"""
    rng = ctx.rng
    pairs = []
    cases = []
    shrunk = set()  # minimise the first failure of each signature only
    for _ in range(n // 2):
        cases.append({"kind": "npy_history", "steps": [rand_npy_spec(rng)], "reuse": False, "hold": False})
    for _ in range(max(1, n // 5)):
        steps = [rand_npy_spec(rng, salt=3 + k) for k in range(rng.randint(2, 3))]
        r = rng.random()
        cases.append({"kind": "npy_history", "steps": steps, "reuse": r < 0.8, "hold": r < 0.3})
    # many blocks (two-digit file names) along every axis of rank 1-3 arrays; a few with three-digit names
    many = 0
    for j in range(max(6, n // 3)):
        spec = rand_npy_many(rng)
        if j % 3 == 2:
            spec = with_extras(rng, spec)
        cases.append({"kind": "npy_history", "steps": [spec], "reuse": False, "hold": False})
        many += 1
    for _ in range(ctx.scale(2, 10)):
        cases.append({"kind": "npy_history", "steps": [rand_npy_many(rng, huge=True)], "reuse": False, "hold": False})
        many += 1
    # small stacks in directories that hold unrelated files
    for _ in range(max(4, n // 5)):
        cases.append({"kind": "npy_history", "steps": [with_extras(rng, rand_npy_spec(rng))], "reuse": False, "hold": False})
    # histories in one directory mixing long and short stacks (a shorter stack leaves the longer one's files behind)
    for _ in range(max(3, n // 10)):
        steps = [rand_npy_many(rng, salt=3 + k) if rng.random() < 0.6 else rand_npy_spec(rng, salt=3 + k) for k in range(rng.randint(2, 3))]
        if rng.random() < 0.3:
            steps[-1] = with_extras(rng, steps[-1])
        r = rng.random()
        cases.append({"kind": "npy_history", "steps": steps, "reuse": r < 0.85, "hold": r < 0.2})
        many += 1
    ctx.notes["npy_many_block_cases"] = many
    for case in cases:
        sig, det, reqs = run_npy(case)
        st = case["steps"]
        ctx.count(("npy", len(st), case["reuse"], case["hold"], tuple(len(x["shape"]) for x in st),
                   tuple(x["axis"] for x in st), len({x["dtype"] for x in st}) > 1, st[-1]["mmap_mode"],
                   tuple(min(3, len(str(len(x["chunks"][x["axis"]]) - 1))) for x in st), any(x.get("extra_files") for x in st)))
        pairs.extend(reqs)
        if sig is not None:
            small = npy_shrink(case, sig) if sig not in shrunk else case
            shrunk.add(sig)
            s2, d2, _ = run_npy(small)
            if s2 != sig:
                small, d2 = case, det
            ctx.fail(f"npy_stack:{sig}", {"kind": "npy_history", "program": small, "details": d2},
                     "to_npy_stack/from_npy_stack round trip differs from the array")
    ctx.notes["npy_histories"] = sum(1 for c in cases if len(c["steps"]) > 1)
    ctx.notes["npy_roundtrips"] = sum(len(c["steps"]) for c in cases)
    return pairs


def npy_shrink(case, sig):
    """drop leading/middle steps and simplify specs while the same signature still fails"""
    best = case
    changed = True
    tries = 0

    def trim(st, m):
        ax = st["axis"]
        cks = [list(c) for c in st["chunks"]]
        cks[ax] = cks[ax][:m]
        shape = list(st["shape"])
        shape[ax] = sum(cks[ax])
        return dict(st, chunks=cks, shape=shape, probe_block=None)

    while changed and tries < 60:
        changed = False
        for i, st in enumerate(best["steps"]):
            nb = len(st["chunks"][st["axis"]])
            for m in (nb // 2, nb - 4, nb - 1):
                if 1 <= m < nb:
                    c = dict(best, steps=best["steps"][:i] + [trim(st, m)] + best["steps"][i + 1:])
                    tries += 1
                    if run_npy(c)[0] == sig:
                        best, changed = c, True
                        break
            if changed:
                break
        if changed:
            continue
        for i, st in enumerate(best["steps"]):
            ax = st["axis"]
            unit = [[1] * len(c) if k == ax else [1] for k, c in enumerate(st["chunks"])]
            if [list(c) for c in st["chunks"]] != unit and len(unit[ax]) > 1:
                c = dict(best, steps=best["steps"][:i] + [dict(st, chunks=unit, shape=[len(c) for c in unit], probe_block=None)] + best["steps"][i + 1:])
                tries += 1
                if run_npy(c)[0] == sig:
                    best, changed = c, True
                    break
        if changed:
            continue
        for i in range(len(best["steps"]) - 1):
            c = dict(best, steps=best["steps"][:i] + best["steps"][i + 1:])
            tries += 1
            if run_npy(c)[0] == sig:
                best, changed = c, True
                break
        if changed:
            continue
        for i, st in enumerate(best["steps"]):
            for k, v in (("extra_files", None), ("derived", False), ("mmap_mode", None), ("optimize", True), ("chunks", [[n] for n in st["shape"]])):
                if st.get(k) != v:
                    c = dict(best, steps=best["steps"][:i] + [dict(st, **{k: v})] + best["steps"][i + 1:])
                    tries += 1
                    if run_npy(c)[0] == sig:
                        best, changed = c, True
                        break
            if changed:
                break
    return best


def npy_step(dirname, spec, fresh):
    """one write + on-disk check + read-back.  Returns (signature or None, details, request, array)."""
    import dask
    import dask_array as da

    shape = tuple(spec["shape"])
    chunks = tuple(tuple(c) for c in spec["chunks"])
    axis = spec["axis"]
    data = npy_data(spec)
    if spec.get("derived"):
        d = da.from_array(data - 2, chunks=chunks) + 2
        d = d.astype(data.dtype)
    else:
        d = da.from_array(data, chunks=chunks)
    want_chunks = tuple(tuple(c) if k == axis else (sum(c),) for k, c in enumerate(chunks))
    req = None
    with dask.config.set({"array.optimize-graph": bool(spec.get("optimize", True))}):
        try:
            write_extras(dirname, spec, "before")
            da.to_npy_stack(dirname, d, axis=axis)
            write_extras(dirname, spec, "after")
            with open(os.path.join(dirname, "info"), "rb") as f:
                info = pickle.load(f)
            req = (f"io.npy_chunks {f_ll(chunks)} {axis}", "ok " + f_ll(info["chunks"]))
            if info.get("axis") != axis or np.dtype(info.get("dtype")) != data.dtype:
                return "info-file", {"info": repr(info)[:200]}, req, None
            extra = {e[0] for e in spec.get("extra_files") or []}
            files = sorted(f for f in os.listdir(dirname) if f.endswith(".npy") and f not in extra)
            expect = [f"{i}.npy" for i in range(len(chunks[axis]))]
            # a reused directory may keep higher-numbered files of an earlier, longer stack (never read)
            if (sorted(expect) != files) if fresh else (not set(expect) <= set(files)):
                return "files", {"files": files, "want": expect}, req, None
            pos = 0
            for i, c in enumerate(chunks[axis]):
                blk = np.load(os.path.join(dirname, f"{i}.npy"))
                sl = [slice(None)] * len(shape)
                sl[axis] = slice(pos, pos + c)
                pos += c
                w = data[tuple(sl)]
                if blk.shape != w.shape or blk.dtype != w.dtype or not np.array_equal(blk, w):
                    return "file-content", {"file": i, "got": blk.tolist() if blk.size <= 60 else str(blk.shape)}, req, None
            y = da.from_npy_stack(dirname, mmap_mode=spec.get("mmap_mode", "r"))
            meta = {"shape": tuple(y.shape), "dtype": str(y.dtype), "chunks": y.chunks}
            if tuple(y.shape) != shape or y.dtype != data.dtype or tuple(tuple(c) for c in y.chunks) != want_chunks:
                return "read-back-metadata", {"got": meta, "want": {"shape": shape, "dtype": str(data.dtype), "chunks": want_chunks}}, req, y
            got = np.asarray(y.compute())
            if got.shape != shape or got.dtype != data.dtype or not np.array_equal(got, data):
                return "values", {"got": got.tolist() if got.size <= 60 else str(got.shape), "want": data.tolist() if data.size <= 60 else str(shape)}, req, y
            if all(s > 0 for s in shape):
                ix = tuple(slice(0, max(1, s - 1)) for s in shape)
                if not np.array_equal(np.asarray(y[ix].compute()), data[ix]):
                    return "values-sliced", {}, req, y
            pb = spec.get("probe_block")
            if pb is not None and pb < len(chunks[axis]):
                # exactly one block of the stack, selected by its position along the axis
                lo = sum(chunks[axis][:pb])
                ix = tuple(slice(lo, lo + chunks[axis][pb]) if k == axis else slice(None) for k in range(len(shape)))
                one = np.asarray(y[ix].compute())
                if one.shape != data[ix].shape or not np.array_equal(one, data[ix]):
                    return "values-one-block", {"block": pb, "got": one.tolist() if one.size <= 60 else str(one.shape)}, req, y
            return None, {}, req, y
        except Exception as e:  # noqa: BLE001
            return f"raises:{type(e).__name__}", {"error": repr(e)[:300]}, req, None


def run_npy(case):
    """Run a single round trip (legacy kind `npy_stack`) or a history.  `reuse`: all steps write into
    one directory; `hold`: the arrays read back earlier stay referenced while later steps run (otherwise
    they are dropped and collected first).  Returns (signature or None, details, requests)."""
    import gc

    if case.get("kind") == "npy_stack" or "steps" not in case:
        case = {"steps": [dict(case, dtype="int64", salt=3)], "reuse": False, "hold": False}
    tmp = tempfile.mkdtemp(prefix="verif-c25-", dir=SCRATCH)
    reqs = []
    held = []
    try:
        for k, spec in enumerate(case["steps"]):
            dirname = os.path.join(tmp, "stack" if case["reuse"] else f"stack{k}")
            fresh = not os.path.exists(dirname)
            sig, det, req, y = npy_step(dirname, spec, fresh)
            if req is not None:
                reqs.append(req)
            if sig is not None:
                if k > 0 and case["reuse"]:
                    # one stable class for "stale read-back while an earlier array of this directory is alive"
                    det = dict(det, kind=sig)
                    sig = "reuse-dir-held-stale" if case["hold"] else "reuse-dir:" + sig
                return sig, dict(det, step=k), reqs
            if case["hold"]:
                held.append(y)
            del y
            if not case["hold"]:
                gc.collect()
    finally:
        held.clear()
        shutil.rmtree(tmp, ignore_errors=True)
    return None, {}, reqs


# --------------------------------------------------------------------------- entry

CONSUMERS = ("compute", "compute", "slice", "step", "int", "fancy", "add", "rechunk", "transpose")


def regression_programs():
    """fixed programs for defects repaired in the repository (kept as regression cases, run first in every tier)"""
    base = {"lock": "false", "compute": True, "return_stored": False, "load_stored": None, "optimize": True, "regions_form": "list",
            "share_target": False, "sched_ctx": "default", "sched_kw": None, "consumer": "compute"}
    out = []
    # a4b46e7: the same array into two targets of identical content wrote only the first
    for kind in ("numpy", "rec"):
        for compute in (True, False):
            p = {"shape": [6], "chunks": [[2, 2, 2]], "tshape": [6], "region": None, "derived": "none", "target": kind}
            out.append(dict(base, compute=compute, pairs=[p, dict(p, src_of=0)]))
            out.append(dict(base, compute=compute, pairs=[p, dict(p, src_of=0), dict(p, src_of=0)]))
    # 3422420: indexing the array returned by return_stored=True raised AttributeError (ArraySliceDep operand)
    for chunks in ([3, 2], [5], [2, 2, 1]):
        for cons in ("slice", "step", "int", "fancy"):
            for optimize in (True, False):
                p = {"shape": [5], "chunks": [chunks], "tshape": [5], "region": None, "derived": "none", "target": "numpy"}
                out.append(dict(base, return_stored=True, consumer=cons, optimize=optimize, pairs=[p]))
    return out


GRID_KINDS = (("numpy",), ("file",), ("rec",), ("numpy", "numpy"), ("numpy", "file"), ("file", "numpy"), ("file", "file"),
              ("rec", "numpy"), ("numpy", "rec"), ("rec", "file"), ("rec", "rec"), ("file", "numpy", "rec"), ("numpy", "file", "file"))


def grid_forces(ctx):
    """every scheduler context x every mix of target kinds x explicit scheduler= x compute x return_stored
    (programs the documentation does not support - in-memory targets through a serializing scheduler - are
    dropped by gen_case); real process pools only in the thorough tier, on a small sub-grid"""
    out = []
    for sc in ("default", "threads", "sync", "pickling"):
        for kinds in GRID_KINDS:
            for kw in (None, "sync", "threads", "pickling"):
                for compute in (True, False):
                    for rs in (False, True):
                        if kw is not None and not compute:
                            continue  # scheduler= is only used by compute=True
                        out.append({"form": "plain", "sched_ctx": sc, "kinds": kinds, "sched_kw": kw, "compute": compute, "return_stored": rs})
    if ctx.tier == "thorough":
        for kinds in GRID_KINDS:
            for rs in (False, True):
                out.append({"form": "plain", "sched_ctx": "processes", "kinds": kinds, "sched_kw": None, "compute": True, "return_stored": rs})
        for kinds in (("file",), ("file", "file")):
            out.append({"form": "plain", "sched_ctx": "default", "kinds": kinds, "sched_kw": "processes", "compute": True, "return_stored": False})
    for form in ("partition", "twins"):
        for sc in ("default", "threads", "sync", "pickling"):
            for compute in (True, False):
                for _ in range(ctx.scale(3, 12)):
                    out.append({"form": form, "sched_ctx": sc, "compute": compute})
    # ndarray targets of every size class around 1 MB (where literal arguments are hoisted into the graph) x identical /
    # different initial content x every scheduler context x compute; >= 10 pairs in one call
    for _ in range(ctx.scale(1, 4)):
        for sc in ("default", "threads", "sync", "pickling"):
            for compute in (True, False):
                for size in ("below", "above", "straddle"):
                    for content in ("identical", "different-fill"):
                        out.append({"form": "big", "sched_ctx": sc, "compute": compute, "big": {"size": size, "content": content}})
                out.append({"form": "big", "sched_ctx": sc, "compute": compute, "big": {"size": "above", "content": "two-alike", "npairs": 3}})
                out.append({"form": "big", "sched_ctx": sc, "compute": compute, "big": {"size": "above", "content": "different-size"}})
                out.append({"form": "big", "sched_ctx": sc, "compute": compute, "big": {"size": "above", "layout": "shared"}})
                out.append({"form": "many", "sched_ctx": sc, "compute": compute})
    return out


def search(ctx):
    n = ctx.scale(1500, 20000)
    budget = ctx.scale(24, 330)
    t0 = ctx.elapsed()
    done = 0
    shrunk = set()  # minimise the first failure of each signature only
    per_sig = {}
    corr = []
    refused = accepted_unsupported = 0
    refusal_example = None
    forces = grid_forces(ctx)
    ctx.notes["store_grid_programs"] = len(forces)
    regress = regression_programs()
    ctx.notes["store_regression_programs"] = len(regress)
    for force in regress + forces + [None] * n:
        if force is None and ctx.elapsed() - t0 > budget:
            break
        case = force if (force is not None and "pairs" in force) else gen_case(ctx, force)
        if case is None:
            continue
        sig, det, logs = run_case(case)
        if sig == "invalid-case":
            continue
        done += 1
        if det.get("refused"):
            refused += 1
            if refusal_example is None or len(case["pairs"]) < len(refusal_example["pairs"]):
                refusal_example = case
        if sig == "unsupported-region-accepted-correctly":
            accepted_unsupported += 1
            sig = None
        kinds = tuple(pair_kind(p) for p in case["pairs"])
        ctx.count((len(case["pairs"]), case["lock"], case["compute"], case["return_stored"], case["load_stored"], case["optimize"],
                   tuple(sorted({p["derived"] for p in case["pairs"]})), any(p["region"] is not None for p in case["pairs"]),
                   bool(det.get("refused"))))
        ctx.count(("sched", case["sched_ctx"], case["sched_kw"], kinds, case["compute"], case["return_stored"]), n=0)
        ctx.count(("form", any("tgt_of" in p for p in case["pairs"]), any(p.get("src_of") is not None for p in case["pairs"]),
                   case["sched_ctx"], case["consumer"] if case["return_stored"] and case["compute"] else None), n=0)
        if case.get("form") in ("big", "many"):
            nb = [int(np.prod(p["tshape"])) * np.dtype(p.get("dtype", "int64")).itemsize for p in case["pairs"]]
            looks = [(p["tshape"], p.get("dtype"), p.get("fill")) for p in case["pairs"] if "tgt_of" not in p]
            ctx.count(("large-targets", case["form"], case["sched_ctx"], case["compute"], case["return_stored"],
                       tuple(sorted({"above" if b > 1e6 else "below" for b in nb})) if case["form"] == "big" else len(nb),
                       "alike" if any(looks.count(l) > 1 for l in looks) else "distinct",
                       any(p["region"] is not None for p in case["pairs"]), any("tgt_of" in p for p in case["pairs"])), n=0)
        if done % 89 == 0:
            ctx.sample({"program": case, "outcome": sig or "ok"})
        if sig is None and logs is not None and len(corr) < ctx.scale(4000, 40000):
            corr.extend(corr_from_logs(case, logs))
        if sig is not None:
            per_sig[sig] = per_sig.get(sig, 0) + 1
            if per_sig[sig] > 8:
                continue  # same class already reported with 8 concrete programs
            small = shrink(case, sig) if sig not in shrunk else case
            shrunk.add(sig)
            s2, d2, _ = run_case(small)
            if s2 != sig:
                small, d2 = case, det
            ctx.fail(f"store:{sig}", {"kind": "store", "program": small, "details": d2},
                     "da.store result differs from NumPy slice assignment into a sentinel-filled target")
    ctx.notes["store_programs"] = done
    if per_sig:
        ctx.notes["store_failures_by_signature"] = dict(per_sig)
    ctx.notes["store_refusals_of_unsupported_regions"] = refused
    if refusal_example is not None:
        ctx.notes["store:negative-region-refused(example)"] = refusal_example
    ctx.notes["unsupported_regions_written_correctly"] = accepted_unsupported
    return corr


def targeted(ctx):
    """lift disagreeing write-index requests to real `da.store` calls"""
    tried = 0
    for d in ctx.disagreements[:60]:
        t = d["request"].split()
        try:
            if t[0] != "io.store_index" or t[1] in ("N", "_") or t[2] == "_":
                continue
            region = []
            for tok in t[1].split("|"):
                if ":" in tok:
                    a, b, c = tok.split(":")
                    cv = lambda v: None if v == "N" else int(v)  # noqa: E731
                    region.append(["s", cv(a), cv(b), cv(c)])
                else:
                    region.append(int(tok))
            nsl = sum(isinstance(r, list) for r in region)
            ix = [tuple(int(v) for v in p.split(":")) for p in t[2].split("|")]
            if nsl != len(ix):
                continue
            # smallest source whose block grid contains this block; target large enough
            shape, chunks = [], []
            for a, b in ix:
                shape.append(b)
                chunks.append(([a] if a else []) + [b - a])
            reg = dec_region(region)
            tshape = []
            k = 0
            for r in reg:
                if isinstance(r, slice):
                    n = shape[k]
                    k += 1
                    tshape.append((r.start or 0) + n * (r.step or 1) + 2)
                else:
                    tshape.append(abs(r) + 1)
            case = {"pairs": [{"shape": shape, "chunks": chunks, "tshape": tshape, "region": region, "derived": "none", "numpy_target": False}],
                    "lock": "false", "compute": True, "return_stored": False, "load_stored": None, "optimize": True,
                    "regions_form": "list", "share_target": False}
            tried += 1
            sig, det, _ = run_case(case)
            if sig not in (None, "invalid-case", "unsupported-region-accepted-correctly"):
                ctx.fail(f"store:{sig}", {"kind": "store", "program": case, "details": det, "lifted_from": d["request"]},
                         "API-level lift of a model/implementation disagreement fails")
        except Exception as e:  # noqa: BLE001
            ctx.notes.setdefault("targeted_errors", []).append(repr(e)[:200])
    ctx.notes["targeted_search"] = f"{tried} da.store calls lifted from disagreeing write-index inputs"


def probe_equal_looking_targets(ctx):
    """deterministic probe of the listed finding `store:equal-looking-target-of-another-call:untouched`: two lazy store calls
    with lock=False, the same source and equal-content in-memory targets, both expressions alive, computed one after the other"""
    import dask
    import dask_array as da

    a = np.arange(6.0)
    x = da.from_array(a, chunks=3)
    t1, t2 = np.full(6, -1.0), np.full(6, -1.0)
    r1 = da.store(x, t1, lock=False, compute=False)
    r2 = da.store(x, t2, lock=False, compute=False)
    dask.compute(r1, scheduler="sync")
    dask.compute(r2, scheduler="sync")
    ctx.count(("probe", "equal-looking-targets"))
    if not (np.array_equal(t1, a) and np.array_equal(t2, a)):
        ctx.fail("store:equal-looking-target-of-another-call:untouched",
                 {"kind": "probe", "t1": t1.tolist(), "t2": t2.tolist()},
                 "a store call whose source and target look like those of another live call leaves its own target unwritten")


def run(ctx, replay=None):
    ctx.rule = (
        "search: seeded random da.store programs: 1-3 source/target pairs (rank 1-3, axis <= 6, zero-length chunks, sources "
        "plain / elemwise / sliced / rechunked), targets NumPy or recording array-likes filled with a sentinel, regions None or "
        "tuples of slices with offsets, steps 1-3, open stops, integer entries, 8% unsupported (negative start/stop/step: must "
        "raise or write correctly), lock True/False/Lock/SerializableLock, compute, return_stored (full read-back, then slice / step / "
        "elemwise+reduce / rechunk / transpose of the returned array), load_stored, optimize on/off; target kinds ndarray / in-memory "
        "recording object / file-backed object (pickles by path) in every mix; ambient scheduler default / threads / sync / a "
        "deterministic callable that round-trips graph and results through cloudpickle (thorough: real `processes`), explicit "
        "scheduler= None/threads/sync/serializing - as a full grid (context x target mix x scheduler= x compute x return_stored) "
        "plus random; programs the documentation excludes (in-memory non-ndarray target written through a serializing scheduler "
        "without any ndarray target) are not generated; several sources into pairwise disjoint regions (slabs, interleaved strides) "
        "of ONE target; the SAME array into two or three targets (identical / other region / other kind); ndarray targets (uint8 / "
        "int64, rank 1-2) of every size class around 1 MB where literal arguments become graph nodes of their own (999000 B .. exactly "
        "1e6 B / 1e6+1 B .. 2 MB / one of each), 2-3 pairs per call with identical or different initial content (fill, size), whole-"
        "target writes or small (stepped) windows at the same or different offsets, two sources into one large target plus a look-alike "
        "second target, and 10-12 pairs in one call - each as a grid over scheduler context x compute, other options seeded; "
        "to_npy_stack/from_npy_stack over every axis, chunkings with zero-length chunks, dtypes, mmap modes, as single round "
        "trips and as histories of 2-3 different arrays written into ONE directory (on-disk files, metadata and read-back "
        "checked after every write; earlier arrays released or still referenced; fresh-directory controls); stacks of 11-30 and "
        "101-112 blocks (two / three digit file names; equal or ragged block sizes; every axis of rank 1-3; single-block read by "
        "position), directories holding unrelated files (*.npy with look-alike names such as 00.npy / 1e1.npy / <nblocks>.npy, other "
        "files; present before or appearing after the write), long and short stacks alternating in one directory. distinct by (pairs, lock, "
        "compute, return_stored, load_stored, optimize, source kinds, regions present, refused). correspondence: write index of "
        "every block actually written (identified by content) and direct load_store_chunk / fuse_slice calls vs the model.  PLUS "
        "(props_ext/c10_buildtime, owner C25) store graphs (single pair / two sources into regions of one target / return_stored lazy and "
        "eager / to_delayed blocks / explicit full region) with the default lock or lock=True BUILT under dask.config scheduler = sync / "
        "synchronous / single-threaded (or another configuration) and EXECUTED with 4-8 threads (kwargs / config / pool / default) by "
        "dask.compute / .compute() / persist into a seek-then-write target (one shared cursor, read-modify-write write log): target "
        "contents, write log and read-back vs a serial NumPy loop.  PLUS (props_ext/c25_types) block / target TYPES: plain blocks of ten "
        "dtypes (incl. datetime64 / timedelta64 / structured) and np.ma.MaskedArray blocks (mask in some / all / no positions, nomask, mask "
        "only in some BLOCKS, fill_value; from_array / elemwise / rechunk / slice / map_blocks; rank 0-3) stored into ndarray / masked (all-"
        "False, nomask, pre-masked soft and hard, own fill_value) / wrapper around a masked array / strided view / transposed view / Fortran "
        "/ read-only targets of the same or another dtype (casts NumPy performs or refuses), regions or none, compute / compute=False / "
        "return_stored eager and lazy, 1-2 pairs - full grid source class x target class x mode, casts, random; oracle NumPy's own "
        "`target[region] = source` on a twin target (values, mask inside and outside the region, dtype, fill_value, base of a view; refusals "
        "must be refused, read-only targets untouched); to_npy_stack / from_npy_stack of masked / structured / datetime / bool / complex "
        "sources vs np.save / np.load per block"
    )
    ctx.assumptions = [
        "NumPy slice assignment `out[index] = x` writes x[j] to the j-th position selected by index on every axis (per-axis product)",
        "target[region].shape == source.shape (documented precondition of store)",
        "in-place writes reach the caller's in-memory target only on a local scheduler; documented rule checked here: without scheduler= "
        "and under a serializing ambient scheduler, store runs locally iff SOME target is an ndarray; file-backed targets are written by "
        "path from anywhere; a lazily built store (compute=False) into in-memory targets is computed by the harness on a local scheduler",
        "files in a stack directory other than info and 0.npy .. (nblocks-1).npy do not belong to the stack",
    ]
    if replay is not None:
        case = replay.get("case", replay)
        if str(case.get("kind", "")).startswith("stn."):  # harness/props_ext/c25_storend.py
            from harness.props_ext import c25_storend
            return c25_storend.run(ctx, replay)
        if str(case.get("kind", "")).startswith("typ."):  # harness/props_ext/c25_types.py (block / target types)
            from harness.props_ext import c25_types
            return c25_types.run(ctx, replay)
        if case.get("kind") == "bt":  # harness/props_ext/c10_buildtime.py (store built under one scheduler config, run under another)
            from harness.props_ext import c10_buildtime
            for sig, detail in c10_buildtime.run_case(ctx, case) or []:
                ctx.fail(sig, case, detail)
            return
        prog = case.get("program")
        if case.get("kind") in ("npy_stack", "npy_history"):
            sig, det, _ = run_npy(prog)
            if sig is not None:
                ctx.fail(f"npy_stack:{sig}", {"kind": "npy_history", "program": prog, "details": det}, "replayed round trip still fails")
        elif prog is not None:
            sig, det, _ = run_case(prog)
            if sig not in (None, "invalid-case", "unsupported-region-accepted-correctly"):
                ctx.fail(f"store:{sig}", {"kind": "store", "program": prog, "details": det}, "replayed store program still fails")
        ctx.count(("replay",))
        return
    pairs_logged = search(ctx)
    pairs_npy = npy_roundtrip(ctx, ctx.scale(120, 1500))
    from harness.props.C24 import correspond_all

    correspond_all(ctx, [
        ("store:write index of real da.store blocks", pairs_logged,
         lambda req, m: (req.split(" ")[1] == "N", req.count("|"), m[:6], ":2" in req or ":3" in req)),
        ("load_store_chunk/fuse_slice direct", corr_direct(ctx),
         lambda req, m: (req.split(" ")[0], req.split(" ")[1] in ("N", "_"), m[:6], req.count("|"))),
        ("to_npy_stack chunks", pairs_npy, None),
    ])
    from harness.props_ext import c25_storend  # n-D store / several triples / npy stack (Props/C25StoreND.lean; stn.*)
    c25_storend.run(ctx)
    probe_equal_looking_targets(ctx)
    from harness.props_ext import c10_buildtime  # store graphs built under a serial dask.config scheduler and executed with threads
    c10_buildtime.run(ctx, ctx.scale(6, 15), owner="C25")
    from harness.props_ext import c25_types  # block / target types (masked, casts, views, read-only, structured / datetime; npy stack)
    c25_types.run(ctx)
    if ctx.disagreements or ctx.audit.get("broken"):
        targeted(ctx)
