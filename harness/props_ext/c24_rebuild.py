"""C24 / C14 extension — reads that are REBUILT by a rewrite keep every read option.

`da.from_array(src, chunks, lock=, getitem=, asarray=, fancy=, meta=, inline_array=)` says HOW (and through WHAT) the
source is read.  Several rewrites build a new source node from an old one (a rechunk absorbed into the read, a slice /
integer pushed into the read, both in either order, below elemwise / transpose, next to a take); the new node must read
the same elements THROUGH THE SAME OPTIONS.

Sources here are array-likes (not ndarrays) that store their samples ENCODED; the `getitem=` callable given to
from_array decodes on read (offset + sign flip, scale + shift, packed int16 -> float64 with a divisor), in the 4-argument
`(a, index, asarray, lock)` and the 2-argument `(a, index)` calling styles, plus the default getters as control.  A read
that loses its `getitem=` returns raw samples.

Oracles (none looks at the planner / optimizer):
  * values: `y.compute()` == the same NumPy operations on the DECODED array;
  * bounds: every request that reaches `src.__getitem__` stays inside the source;
  * getter arguments: a 4-argument getitem records the `asarray` and `lock` it is handed in every call: always the lock
    object from_array holds and the asarray flag the un-rewritten read uses;
  * carried options: every source node over `src` in `y.optimize()` has the read options of the un-rewritten
    `from_array` node (getitem / lock by identity, effective asarray, fancy, inline_array, type of meta).

Case dicts are plain JSON; `run_rebuild_case(case)` needs nothing else.
"""
from __future__ import annotations

import itertools
import threading
import warnings

import numpy as np

from harness import gen

OFFSET = 1000
_UID = itertools.count()
_CALLS = []  # (asarray, lock) of every call of a 4-argument getter (cleared per case)


# --------------------------------------------------------------------------- sources and getters

class CodedStore:
    """Array-like (not an ndarray) holding ENCODED samples; `.dtype` is the dtype of the decoded values."""

    def __init__(self, raw, dtype, grid=None):
        self.raw = raw
        self.shape = raw.shape
        self.ndim = raw.ndim
        self.dtype = np.dtype(dtype)
        self.log = []
        self.bad = []
        if grid is not None:
            self.chunks = tuple(grid)
        self._uid = next(_UID)

    def __dask_tokenize__(self):
        return ("verif-codedstore", self._uid)

    def __getitem__(self, key):
        from harness.props.C24 import key_problem

        self.log.append(key)
        p = key_problem(key, self.shape)
        if p is not None:
            self.bad.append((repr(key), p))
        return self.raw[key]


def _locked_read(a, b, lock):
    if lock:
        lock.acquire()
    try:
        return np.asarray(a[b])
    finally:
        if lock:
            lock.release()


def dec4(a, b, asarray=True, lock=None):
    """decode offset + sign flip, full getter signature"""
    _CALLS.append((asarray, lock))
    return OFFSET - _locked_read(a, b, lock)


def dec2(a, b):
    """decode offset + sign flip, documented getitem(a, index) signature"""
    return OFFSET - np.asarray(a[b])


def scale4(a, b, asarray=True, lock=None):
    """scale + shift"""
    _CALLS.append((asarray, lock))
    return _locked_read(a, b, lock) * 3 + 1


def cast2(a, b):
    """packed int16 -> float64 with a divisor (the store advertises the decoded dtype)"""
    return np.asarray(a[b]).astype("f8") / 4


def plain4(a, b, asarray=True, lock=None):
    """value-preserving 4-argument getter (records what it is handed)"""
    _CALLS.append((asarray, lock))
    return _locked_read(a, b, lock)


# name -> (getter or None, encode(decoded int64 array) -> raw, decoded dtype)
TRANSFORMS = {
    "none": (None, lambda t: t.copy(), "i8"),
    "plain4": (plain4, lambda t: t.copy(), "i8"),
    "dec4": (dec4, lambda t: OFFSET - t, "i8"),
    "dec2": (dec2, lambda t: OFFSET - t, "i8"),
    "scale4": (scale4, lambda t: (t - 1) // 3, "i8"),
    "cast2": (cast2, lambda t: (t * 4).astype("i2"), "f8"),
}
FOUR_ARG = ("plain4", "dec4", "scale4")


def truth_of(shape, transform):
    """the decoded array (what x.compute() must be); chosen so that every encoding above is exact"""
    n = int(np.prod(shape)) if len(shape) else 1
    t = (np.arange(n, dtype="i8") * 3 + 1).reshape(shape)  # = 1 mod 3: scale4 decodes exactly
    return t.astype(TRANSFORMS[transform][2])


# --------------------------------------------------------------------------- rewrites

REWRITES = (
    "rechunk-int", "rechunk-tuple", "rechunk-dict", "rechunk-minus1", "rechunk-explicit", "rechunk-auto", "rechunk-balance",
    "rechunk-grid", "slice", "int", "slice-rechunk", "rechunk-slice", "int-rechunk", "rechunk-int-index", "slice-slice",
    "elem-rechunk", "tr-rechunk", "elem-slice", "tr-slice", "rechunk-rechunk", "take-rechunk", "rechunk-take", "stepped-rechunk",
    "slice-rechunk-slice-rechunk",
)


RECHUNK_KINDS = ("int", "tuple", "dict", "minus1", "explicit", "auto", "balance")


def enc_spec(spec):
    if isinstance(spec, dict):
        return {"dict": [[int(k), enc_spec(v)] for k, v in spec.items()]}
    if isinstance(spec, tuple):
        return {"tuple": [enc_spec(v) for v in spec]}
    return spec if spec is None or isinstance(spec, str) else int(spec)


def dec_spec(e):
    if isinstance(e, dict) and "dict" in e:
        return {int(k): dec_spec(v) for k, v in e["dict"]}
    if isinstance(e, dict) and "tuple" in e:
        return tuple(dec_spec(v) for v in e["tuple"])
    return e


def _unit_slice(rng, n):
    a = rng.randint(0, max(0, n - 1))
    b = rng.randint(a + 1, n) if n else 0
    if rng.random() < 0.25:
        return [None, b, None] if rng.random() < 0.5 else [a, None, None]
    if rng.random() < 0.2 and n:
        return [a - n, b, None]
    return [a, b, None]


def _st_slice(rng, shape, stepped=False):
    idx = []
    for n in shape:
        r = rng.random()
        if r < 0.2:
            idx.append(["s", None, None, None])
        elif stepped and r < 0.6:
            idx.append(["s", None, None, rng.choice([2, 3, -1, -2])])
        else:
            idx.append(["s"] + _unit_slice(rng, n))
    return {"op": "index", "idx": idx}


def _st_int(rng, shape):
    ax = rng.randrange(len(shape))
    idx = [["s", None, None, None]] * len(shape)
    idx = [list(i) for i in idx]
    idx[ax] = rng.randint(-shape[ax], shape[ax] - 1)
    for k in range(len(shape)):
        if k != ax and rng.random() < 0.4:
            idx[k] = ["s"] + _unit_slice(rng, shape[k])
    return {"op": "index", "idx": idx}


def _st_rechunk(rng, shape, kind):
    kw = {}
    nd = len(shape)
    if kind == "int":
        spec = rng.randint(1, max(shape) + 1)
    elif kind == "tuple":
        spec = tuple(rng.choice([rng.randint(1, n + 1), -1, None]) for n in shape)
    elif kind == "dict":
        axes = [a for a in range(nd) if rng.random() < 0.6] or [rng.randrange(nd)]
        spec = {(a - nd if rng.random() < 0.3 else a): rng.choice([rng.randint(1, shape[a]), -1, tuple(gen.rand_chunks(rng, shape[a]))]) for a in axes}
    elif kind == "minus1":
        spec = -1 if rng.random() < 0.5 else tuple(-1 if rng.random() < 0.6 else rng.randint(1, n) for n in shape)
    elif kind == "auto":
        spec = "auto" if rng.random() < 0.5 else tuple(rng.choice(["auto", -1, rng.randint(1, n)]) for n in shape)
        kw["block_size_limit"] = rng.choice([8, 16, 64, 200, 1000])
    elif kind == "balance":
        spec = tuple(rng.choice([k for k in range(2, n) if n % k] or [n]) for n in shape)
        kw["balance"] = True
    else:
        spec = tuple(tuple(gen.rand_chunks(rng, n)) for n in shape)
    return {"op": "rechunk", "spec": enc_spec(spec), "kw": kw}


def _shape_after(shape, st):
    ref = np.zeros(shape, dtype="i1")
    return apply_np(ref, st).shape


def apply_np(ref, st):
    op = st["op"]
    if op == "index":
        from harness.props.C24 import dec_index

        return ref[tuple(np.asarray(i) if isinstance(i, list) else i for i in dec_index(st["idx"]))]
    if op == "transpose":
        return ref.transpose(st["axes"])
    if op == "add":
        return ref + st["k"]
    if op == "take":
        return np.take(ref, st["indices"], axis=st["axis"])
    return ref


def apply_da(y, st):
    import dask_array as da

    op = st["op"]
    if op == "index":
        from harness.props.C24 import dec_index

        return y[dec_index(st["idx"])]
    if op == "rechunk":
        return y.rechunk(dec_spec(st["spec"]), **st.get("kw", {}))
    if op == "transpose":
        return y.transpose(st["axes"])
    if op == "add":
        return y + st["k"]
    if op == "take":
        return da.take(y, st["indices"], axis=st["axis"])
    raise KeyError(op)


def gen_steps(rng, shape, rewrite, grid):
    """the step list of one rewrite kind over an array of `shape`"""
    steps = []
    cur = tuple(shape)

    def push(st):
        nonlocal cur
        steps.append(st)
        cur = _shape_after(cur, st)

    def rechunk(kind=None):
        kind = kind or rng.choice(["int", "tuple", "dict", "minus1", "explicit", "explicit"])
        if 0 in cur or not cur:
            return
        push(_st_rechunk(rng, cur, kind))

    def tr():
        axes = list(range(len(cur)))
        rng.shuffle(axes)
        if len(axes) > 1 and axes == sorted(axes):
            axes = axes[::-1]
        push({"op": "transpose", "axes": axes})

    def take():
        ax = rng.randrange(len(cur))
        n = cur[ax]
        push({"op": "take", "axis": ax, "indices": [rng.randint(0, n - 1) for _ in range(rng.randint(1, 4))]})

    if rewrite.startswith("rechunk-") and rewrite[8:] in RECHUNK_KINDS:
        parts = [("rechunk", rewrite[8:])]
    elif rewrite == "rechunk-grid":
        parts = [("grid", None)]
    elif rewrite == "rechunk-int-index":
        parts = [("rechunk", None), ("int", None)]
    else:
        parts = [(p, None) for p in rewrite.split("-")]
    for part, arg in parts:
        if 0 in cur or not cur:
            break
        if part == "rechunk":
            rechunk(arg)
        elif part == "grid":
            # multiples of the storage grid (absorbed as they are) or finer than the grid (read grid-aligned + Rechunk above)
            if grid is not None and rng.random() < 0.6:
                spec = tuple(g * rng.randint(1, 3) for g in grid)
            else:
                spec = tuple(rng.randint(1, max(1, n)) for n in cur)
            push({"op": "rechunk", "spec": enc_spec(spec), "kw": {}})
        elif part == "slice":
            push(_st_slice(rng, cur))
        elif part == "stepped":
            push(_st_slice(rng, cur, stepped=True))
        elif part == "int":
            push(_st_int(rng, cur))
        elif part == "elem":
            push({"op": "add", "k": rng.randint(1, 9)})
        elif part == "tr":
            tr()
        elif part == "take":
            take()
    return steps


def gen_rebuild_case(rng, rewrite, transform, options=None):
    rank = rng.choice([1, 2, 2, 2, 3])
    if rewrite.startswith("tr-"):
        rank = max(rank, 2)
    shape = [rng.randint(2, 9) for _ in range(rank)]
    grid = [rng.choice([1, 2, 3, max(1, n // 2), n]) for n in shape] if (rewrite == "rechunk-grid" or rng.random() < 0.25) else None
    case = {
        "stream": "rebuild", "shape": shape, "grid": grid, "chunks": [list(gen.rand_chunks(rng, n, maxparts=5)) for n in shape],
        "transform": transform, "rewrite": rewrite,
        "lock": rng.choice(["none", "none", "true", "obj", "rlock"]),
        "asarray": rng.choice([None, None, True, False]),
        "fancy": rng.random() < 0.7,
        "inline_array": rng.random() < 0.3,
        "meta": rng.choice([None, None, "ndarray", "instance", "masked"]),
        "optimize": rng.random() < 0.85,
        "steps": [],
    }
    if options:
        case.update(options)
    case["steps"] = gen_steps(rng, shape, rewrite, grid)
    return case


# --------------------------------------------------------------------------- the oracles

def _make_lock(kind):
    if kind == "true":
        return True
    if kind == "obj":
        return threading.Lock()
    if kind == "rlock":
        return threading.RLock()
    return None


def _source_nodes(expr, store):
    out = []
    try:
        nodes = list(expr.walk())
    except Exception:  # noqa: BLE001
        return out
    for n in nodes:
        try:
            if "array" in getattr(n, "_parameters", ()) and n.operand("array") is store:
                out.append(n)
        except Exception:  # noqa: BLE001
            continue
    return out


def _options_of(node):
    def op(name):
        try:
            return node.operand(name)
        except Exception:  # noqa: BLE001
            return "?"

    try:
        asarray = node.asarray_arg
    except Exception:  # noqa: BLE001
        asarray = "?"
    try:
        meta_t = type(node._meta)
    except Exception:  # noqa: BLE001
        meta_t = "?"
    return {"getitem": op("getitem"), "lock": op("lock"), "asarray": asarray, "fancy": bool(op("fancy")),
            "inline_array": bool(op("inline_array")), "meta": meta_t}


def run_rebuild_case(case):
    """Returns (signature or None, details)."""
    import dask
    import dask_array as da

    shape = tuple(case["shape"])
    transform = case["transform"]
    getter, encode, dtype = TRANSFORMS[transform]
    truth = truth_of(shape, transform)
    store = CodedStore(encode((np.arange(int(np.prod(shape)), dtype="i8") * 3 + 1).reshape(shape)), dtype,
                       grid=case.get("grid"))
    kw = {}
    lock = _make_lock(case["lock"])
    if lock is not None:
        kw["lock"] = lock
    if getter is not None:
        kw["getitem"] = getter
    if case["asarray"] is not None:
        kw["asarray"] = case["asarray"]
    if not case["fancy"]:
        kw["fancy"] = False
    if case["inline_array"]:
        kw["inline_array"] = True
    if case.get("meta") == "ndarray":
        kw["meta"] = np.ndarray
    elif case.get("meta") == "instance":
        kw["meta"] = np.empty((0,) * len(shape), dtype=dtype)
    elif case.get("meta") == "masked":  # the blocks are announced as another array type than the store's own zero-size probe
        kw["meta"] = np.ma.masked_array(np.empty((0,) * len(shape), dtype=dtype))
    del _CALLS[:]
    ref = truth
    det = {}
    with warnings.catch_warnings(), dask.config.set({"array.optimize-graph": bool(case["optimize"])}):
        warnings.simplefilter("ignore")
        try:
            x = da.from_array(store, chunks=tuple(tuple(c) for c in case["chunks"]), **kw)
            base = _source_nodes(x.expr, store)
            base_opts = _options_of(base[0]) if len(base) == 1 else None
            y = x
            for st in case["steps"]:
                ref = apply_np(ref, st)
                y = apply_da(y, st)
            meta_shape = tuple(y.shape)
            opt_nodes = _source_nodes(y.optimize().expr, store)
            del _CALLS[:]
            got = np.asarray(y.compute(scheduler="sync"))
            calls = list(_CALLS)
        except NotImplementedError as e:
            return None, {"refused": repr(e)}
        except Exception as e:  # noqa: BLE001
            return f"raises:{type(e).__name__}", {"error": repr(e)[:300]}
    det["reads"] = len(store.log)
    det["rebuilt"] = bool(opt_nodes) and base_opts is not None and any(n is not base[0] for n in opt_nodes)
    if store.bad:
        return "read-out-of-bounds", dict(det, requests=store.bad[:5])
    if got.shape != ref.shape or not np.array_equal(got, ref):
        raw_ref = None
        try:
            r = store.raw
            for st in case["steps"]:
                r = apply_np(r, st)
            raw_ref = r
        except Exception:  # noqa: BLE001
            pass
        undecoded = raw_ref is not None and got.shape == raw_ref.shape and np.array_equal(got, raw_ref) and transform not in ("none", "plain4")
        return ("values:read-without-getitem" if undecoded else "values"), dict(
            det, got=got.tolist() if got.size <= 64 else str(got.shape), want=ref.tolist() if ref.size <= 64 else str(ref.shape))
    if meta_shape != ref.shape:
        return "advertised-shape", dict(det, shape=meta_shape, want=ref.shape)
    if transform in FOUR_ARG and base_opts is not None:
        want_lock = base_opts["lock"]
        want_as = base_opts["asarray"]
        for a, l in calls:
            if (l or None) is not (want_lock or None):
                return "getter-handed-other-lock", dict(det, handed=repr(l), want=repr(want_lock))
            if bool(a) != bool(want_as):
                return "getter-handed-other-asarray", dict(det, handed=repr(a), want=repr(want_as))
        if got.size and not calls:
            return "values-not-read-through-getitem", det
    if base_opts is not None:
        for n in opt_nodes:
            o = _options_of(n)
            for k in ("getitem", "lock", "asarray", "fancy", "inline_array", "meta"):
                same = (o[k] is base_opts[k]) if k in ("getitem", "lock", "meta") else (o[k] == base_opts[k])
                if not same and "?" not in (o[k], base_opts[k]):
                    return f"option-not-carried:{k}", dict(det, rebuilt_node_has=repr(o[k])[:80], original=repr(base_opts[k])[:80])
    return None, det


def shrink_rebuild(case, sig, budget=50):
    best, tries = case, 0

    def still(c):
        nonlocal tries
        tries += 1
        try:
            return run_rebuild_case(c)[0] == sig
        except Exception:  # noqa: BLE001
            return False

    changed = True
    while changed and tries < budget:
        changed = False
        for i in range(len(best["steps"])):
            c = dict(best, steps=best["steps"][:i] + best["steps"][i + 1:])
            if still(c):
                best, changed = c, True
                break
        if changed:
            continue
        for k, v in (("grid", None), ("lock", "none"), ("asarray", None), ("fancy", True), ("inline_array", False), ("meta", None),
                     ("optimize", True)):
            if best.get(k) != v:
                c = dict(best, **{k: v})
                if still(c):
                    best, changed = c, True
                    break
    return best


def rebuild_search(ctx, prefix="from_array-rebuild"):
    """every rewrite kind x every read transform (other options seeded, each option value covered for every rewrite)"""
    rng = ctx.rng
    rounds = ctx.scale(2, 14)
    done = rebuilt = 0
    shrunk = set()
    per_sig = {}
    opt_cycle = itertools.cycle([
        {"lock": "true"}, {"lock": "obj"}, {"lock": "rlock"}, {"lock": "none"}, {"asarray": True}, {"asarray": False}, {"fancy": False},
        {"inline_array": True}, {"meta": "ndarray"}, {"meta": "masked"}, {"meta": "instance"}, {"meta": "masked"}, {"optimize": False}, {},
    ])
    for rd in range(rounds):
        for rewrite in REWRITES:
            for transform in TRANSFORMS:
                case = gen_rebuild_case(rng, rewrite, transform, options=next(opt_cycle) if rd % 2 == 0 else None)
                if not case["steps"]:
                    continue
                sig, det = run_rebuild_case(case)
                done += 1
                rebuilt += bool(det.get("rebuilt"))
                ctx.count(("rebuild", rewrite, transform, case["lock"] != "none", case["asarray"], case["fancy"], case["inline_array"],
                           case["meta"], case["optimize"], bool(det.get("rebuilt")), "refused" in det))
                if done % 101 == 0:
                    ctx.sample({"program": case, "outcome": sig or "ok"})
                if sig is not None:
                    per_sig[sig] = per_sig.get(sig, 0) + 1
                    if per_sig[sig] > 6:
                        continue
                    small = shrink_rebuild(case, sig) if sig not in shrunk else case
                    shrunk.add(sig)
                    s2, d2 = run_rebuild_case(small)
                    if s2 != sig:
                        small, d2 = case, det
                    ctx.fail(f"{prefix}:{sig}", {"kind": "program", "program": small, "details": d2},
                             "a from_array read rebuilt by a rewrite (rechunk / slice pushed into the source, below elemwise / transpose, "
                             "next to a take) does not return the elements the un-rewritten read returns through the same read options")
    ctx.notes["rebuild_programs"] = done
    ctx.notes["rebuild_programs_with_rebuilt_source_node"] = rebuilt
    if per_sig:
        ctx.notes["rebuild_failures_by_signature"] = dict(per_sig)
