"""C02, the gates of the slice / take pushdowns through a GENERIC `Blockwise`
(`Blockwise._accept_slice` — exact multi-operand path — and `Blockwise._accept_shuffle`, dask_array/_blockwise.py).

Model: lean/DaskArrayModel/Model/BlockwiseGate.lean; theorems: Props/C02Gate.lean (`C02g_push_sound`,
`C02g_gate_necessary_*`, `C02g_nonlocal_witness`); driver family `bwg.*` (Drv/BlockwiseGate.lean).

(1) correspondence, model vs the REAL methods on the same generated nodes and indices.  Nodes are real `Blockwise`
    expressions built through the public API: `da.blockwise` with 1-3 operands over shared / permuted / contracted /
    repeated labels, broadcast (length-1) axes, 0-d operands, literals, `align_arrays` on/off (equal and unequal chunks),
    `concatenate` None/False/True, `new_axes`, `adjust_chunks`; `da.map_blocks` over operands of different rank with
    `new_axis` / `drop_axis` / `chunks=` / `block_info`; `store(..., return_stored=True)` (an `ArraySliceDep` operand);
    `x[dask_int_array]` (pieces contracted with `concatenate=True`); the blockwise product under `a @ b`.
      * `bwg.slice`:  `node._accept_slice(SliceSlicesIntegers(node, index))` called directly: declined / handed to the
        coarse path / exact, and for the exact path the POSITIONS every operand axis is indexed with and the `[0]`
        extraction index;
      * `bwg.take`:   `node._accept_shuffle(Shuffle(node, indexer, axis))`: declined, or the shuffled axis per operand;
      * `bwg.slicechunks` / `bwg.takechunks`: the chunks of the new operands;
      * `bwg.chunks`, `bwg.concat`: `Blockwise.chunks`, `_contracts_by_concatenation()`;
      * `bwg.extents`: for every output block the piece of every array operand the LOWERED node's task depends on
        (read off the raw graph of `_lower()`'s result) against the model's `_lower` + `_compute_block_id`.
(2) search on the real API, oracle = NumPy (independent of the model): the same nodes with LABEL-LOCAL block functions
    (linear combinations of the operands aligned by label, with folds over contracted labels, diagonals of repeated
    labels, a stacked new axis, a per-block sum on an `adjust_chunks` label), indexed with slices of any step, integers
    and integer lists (also mixed), computed optimized and unoptimized.
A failure is reported only when the NumPy oracle fails on the real code; a disagreeing correspondence case is lifted to
the same end-to-end check.
"""
from __future__ import annotations

import itertools
import warnings

import numpy as np

from harness.core import err_name, f_list, f_ll, f_slice

FAM = "bwg"
SIG_VALUES = "bwg:pushdown-changes-values"
SIG_RAISES = "bwg:pushdown-raises"
SIG_UNOPT = "bwg:unoptimized-mismatch"
SIG_REPEATED = "bwg:take-through-repeated-operand-label"
SIG_COARSE_EMPTY = "bwg:coarse-empty-slice-on-adjusted-axis"
LETTERS = "ijkl"
CONTR = "xy"


class _Skip(Exception):
    pass


# ------------------------------------------------------------------------------------------ generators

def rand_chunks(rng, n, zeros=False):
    if n == 0:
        return [0]
    cs, left = [], n
    while left > 0:
        c = rng.randint(1, left)
        cs.append(c)
        left -= c
        if zeros and rng.random() < 0.1:
            cs.append(0)
    return cs


def rand_item(rng, n, ints=True):
    r = rng.random()
    if ints and n > 0 and r < 0.2:
        return rng.randrange(n)
    if r < 0.35:
        return [None, None, None]
    step = rng.choice([None, 1, 1, 2, 3, -1, -1, -2])
    pick = lambda: rng.choice([None, rng.randint(-n - 1, n + 1)])
    return [pick(), pick(), step]


def rand_take(rng, n):
    if n == 0:
        return []
    k = rng.randint(1, min(6, n + 2))
    return [rng.randrange(n) for _ in range(k)]


def gen_blockwise_case(rng, conform_only=False):
    r_out = rng.choice([1, 1, 2, 2, 3])
    out = list(LETTERS[:r_out])
    rng.shuffle(out)
    contr = [c for c in CONTR if rng.random() < 0.2]
    dims = {l: rng.choice([1, 2, 3, 3, 4, 5, 6]) for l in out + contr}
    align = rng.random() < 0.5
    lab_chunks = {l: rand_chunks(rng, dims[l]) for l in dims}
    nops = rng.choice([1, 2, 2, 3])
    ops = []
    for t in range(nops):
        k = rng.randint(0 if (nops > 1 and rng.random() < 0.1) else 1, len(out))
        ind = rng.sample(out, k)
        if contr and rng.random() < 0.7:
            ind.insert(rng.randrange(len(ind) + 1), rng.choice(contr))
        if ind and rng.random() < 0.08 and ind[0] in out:
            ind.insert(rng.randrange(len(ind) + 1), ind[0])  # repeated label ('ii')
        shape, chunks = [], []
        for a, l in enumerate(ind):
            if l in ind[:a]:  # a repeated label: the same extent and chunks on both axes
                shape.append(shape[ind.index(l)])
                chunks.append(list(chunks[ind.index(l)]))
                continue
            if dims[l] > 1 and l in out and rng.random() < 0.15:
                shape.append(1)
                chunks.append([1])
            else:
                shape.append(dims[l])
                if align and not conform_only:
                    chunks.append(rand_chunks(rng, dims[l]))
                elif conform_only or rng.random() < 0.8:
                    chunks.append(list(lab_chunks[l]))
                else:  # unaligned node with other chunk boundaries, same number of blocks when possible
                    c = rand_chunks(rng, dims[l])
                    chunks.append(c)
        ops.append({"ind": ind, "shape": shape, "chunks": chunks, "coef": rng.choice([1, 2, 3, -1]), "seed": rng.randrange(1000)})
    # every output label must be carried (or be a new axis)
    carried = {l for o in ops for l in o["ind"]}
    new_axes = {}
    for l in out:
        if l not in carried:
            if rng.random() < 0.5:
                new_axes[l] = rng.randint(1, 3)
            else:
                o = ops[rng.randrange(len(ops))]
                o["ind"].append(l)
                o["shape"].append(dims[l])
                o["chunks"].append(list(lab_chunks[l]) if (conform_only or not align) else rand_chunks(rng, dims[l]))
    if not new_axes and rng.random() < 0.12 and len(out) < 4:
        l = "n"
        out.insert(rng.randrange(len(out) + 1), l)
        new_axes[l] = rng.randint(1, 3)
    used_contr = {l for o in ops for l in o["ind"] if l in contr}
    concatenate = rng.choice([None, False, True]) if used_contr else rng.choice([None, None, True])
    adjust = None
    cand = [l for l in out if l not in new_axes and all(o["ind"].count(l) <= 1 for o in ops)]
    if cand and rng.random() < 0.15:
        adjust = rng.choice(cand)
    lit = rng.choice([None, None, None, 2, 3])
    return {"bwg": True, "kind": "blockwise", "out": out, "ops": ops, "align": align, "concatenate": concatenate,
            "new_axes": new_axes, "adjust": adjust, "lit": lit}


def gen_map_blocks_case(rng):
    r = rng.choice([1, 2, 2, 3])
    dims = [rng.choice([1, 2, 3, 4, 5]) for _ in range(r)]
    lab_chunks = [rand_chunks(rng, d) for d in dims]
    nops = rng.choice([1, 2, 2, 3])
    ops = []
    for t in range(nops):
        k = r if t == 0 else rng.randint(0, r)
        shape = dims[r - k:]
        chunks = [list(c) for c in lab_chunks[r - k:]]
        for a in range(k):
            if shape[a] > 1 and t > 0 and rng.random() < 0.2:
                shape[a] = 1
                chunks[a] = [1]
            elif t > 0 and rng.random() < 0.12:
                chunks[a] = rand_chunks(rng, shape[a])  # other chunk boundaries (paired by position)
        ops.append({"shape": shape, "chunks": chunks, "coef": rng.choice([1, 2, -1]), "seed": rng.randrange(1000)})
    extra = rng.choice([None, None, None, "new_axis", "drop_axis", "chunks", "block_info"])
    case = {"bwg": True, "kind": "map_blocks", "ops": ops, "extra": extra}
    if extra == "new_axis":
        case["pos"] = rng.randint(0, r)
    if extra == "drop_axis":
        case["pos"] = rng.randrange(r)
    return case


def gen_special_case(rng):
    kind = rng.choice(["store", "intidx", "matmul"])
    if kind == "store":
        r = rng.choice([1, 2])
        shape = [rng.randint(1, 5) for _ in range(r)]
        return {"bwg": True, "kind": "store", "shape": shape, "chunks": [rand_chunks(rng, n) for n in shape],
                "seed": rng.randrange(1000)}
    if kind == "intidx":
        r = rng.choice([1, 2, 3])
        shape = [rng.randint(2, 5) for _ in range(r)]
        axis = rng.randrange(r)
        m = rng.randint(1, 5)
        return {"bwg": True, "kind": "intidx", "shape": shape, "chunks": [rand_chunks(rng, n) for n in shape], "axis": axis,
                "idx": [rng.randrange(shape[axis]) for _ in range(m)], "idx_chunks": rand_chunks(rng, m),
                "seed": rng.randrange(1000)}
    nb = rng.choice([0, 1])
    n, k, m = rng.randint(1, 4), rng.randint(1, 4), rng.randint(1, 4)
    batch = [rng.randint(2, 3)] if nb else []
    sa, sb = batch + [n, k], batch + [k, m]
    if nb and rng.random() < 0.4:
        (sa if rng.random() < 0.5 else sb)[0] = 1
    return {"bwg": True, "kind": "matmul", "a": {"shape": sa, "chunks": [rand_chunks(rng, d) for d in sa], "seed": rng.randrange(1000)},
            "b": {"shape": sb, "chunks": [rand_chunks(rng, d) for d in sb], "seed": rng.randrange(1000)}}


def gen_case(rng):
    r = rng.random()
    if r < 0.55:
        return gen_blockwise_case(rng)
    if r < 0.85:
        return gen_map_blocks_case(rng)
    return gen_special_case(rng)


def gen_index(rng, shape, mixed=False):
    """a basic index (`{"basic": [...]}`), a take (`{"take": [axis, [...]]}`) or, when `mixed`, both in one getitem"""
    nd = len(shape)
    if nd and rng.random() < 0.35:
        ax = rng.randrange(nd)
        idx = {"take": [ax, rand_take(rng, shape[ax])]}
        if mixed and rng.random() < 0.4:
            idx["basic"] = [rand_item(rng, n, ints=False) if a != ax else [None, None, None] for a, n in enumerate(shape)]
        return idx
    k = rng.randint(0 if nd == 0 else 1, nd) if rng.random() < 0.3 else nd
    return {"basic": [rand_item(rng, n) for n in shape[:k]]}


def gen_cull_index(rng, shape, chunks):
    """a slice that omits a whole block of one axis (the generic pushdown only fires for block-culling or stepped
    slices), or an integer / a short take on that axis"""
    nd = len(shape)
    cand = [a for a in range(nd) if shape[a] > 1]
    if not cand:
        return gen_index(rng, shape)
    ax = rng.choice(cand)
    cs = [c for c in chunks[ax]]
    r = rng.random()
    if r < 0.2:
        return {"take": [ax, [rng.randrange(1, shape[ax]) for _ in range(rng.randint(1, 3))]]}
    items = [[None, None, None] for _ in range(nd)]
    if r < 0.4:
        items[ax] = rng.randrange(1, shape[ax])
    elif r < 0.7 and len(cs) > 1:
        items[ax] = [cs[0], None, rng.choice([None, None, 2])]
    elif len(cs) > 1:
        items[ax] = [None, shape[ax] - cs[-1], None]
    else:
        items[ax] = [rng.randrange(1, shape[ax]), None, rng.choice([2, 3, -1])]
    return {"basic": items}


def neighbour_indices(shape):
    """the small domain searched around a disagreeing node: per axis every integer, every one-sided cut, stepped and
    reversed slices, one- and two-element takes (the other axes whole)"""
    out = []
    nd = len(shape)
    for ax, n in enumerate(shape):
        base = [[None, None, None] for _ in range(nd)]

        def at(item):
            it = [list(b) for b in base]
            it[ax] = item
            return {"basic": it}

        for k in range(n):
            out.append(at(k))
            out.append(at([k, None, None]))
            out.append(at([None, k, None]))
            out.append(at([k, None, 2]))
            out.append({"take": [ax, [k]]})
            out.append({"take": [ax, [n - 1 - k, k]]})
        out.append(at([None, None, -1]))
    return out


def py_index(idx, nd):
    items = [slice(None)] * nd
    for a, it in enumerate(idx.get("basic", [])):
        items[a] = it if isinstance(it, int) else slice(*it)
    if "take" in idx:
        ax, lst = idx["take"]
        items[ax] = list(lst)
    if "take" not in idx:
        items = items[: len(idx.get("basic", []))]
    return tuple(items)


# ------------------------------------------------------------------------------------------ building

def data_of(shape, seed):
    n = int(np.prod(shape)) if shape else 1
    return ((np.arange(n, dtype=np.int64) * 7 + seed) % 23 - 5).reshape(shape)


def _fold(blk, axes):
    if isinstance(blk, (list, tuple)):
        return sum(_fold(b, axes) for b in blk)
    return blk.sum(axis=axes) if axes else blk


def _align(v, labels, out):
    """operand value with axes `labels` (distinct, a subset of `out`) -> broadcastable against the `out` axes"""
    order = [l for l in out if l in labels]
    v = np.transpose(v, [labels.index(l) for l in order]) if len(labels) > 1 else v
    return v.reshape([v.shape[order.index(l)] if l in order else 1 for l in out])


def term(spec, blk, out_core):
    ind = list(spec["ind"])
    caxes = tuple(a for a, l in enumerate(ind) if l not in out_core)
    v = _fold(blk, caxes)
    ind = [l for l in ind if l in out_core]
    while len(set(ind)) < len(ind):  # a repeated label: its diagonal
        l = next(x for x in ind if ind.count(x) > 1)
        a1 = ind.index(l)
        a2 = ind.index(l, a1 + 1)
        v = np.diagonal(v, axis1=a1, axis2=a2)
        ind = [x for k, x in enumerate(ind) if k not in (a1, a2)] + [l]
    return _align(np.asarray(v), ind, out_core) * spec["coef"]


def make_func(case):
    out = case["out"]
    new_axes = case["new_axes"]
    out_core = [l for l in out if l not in new_axes]
    specs = case["ops"]
    lit = case["lit"]
    adjust = case["adjust"]

    def f(*blocks, **kw):
        blocks = list(blocks)
        mul = blocks.pop() if lit is not None else 1
        acc = None
        for spec, blk in zip(specs, blocks):
            t = term(spec, blk, out_core)
            acc = t if acc is None else acc + t
        acc = np.asarray(acc) * mul
        if adjust is not None:
            acc = acc.sum(axis=out_core.index(adjust), keepdims=True)
        for pos, l in enumerate(out):
            if l in new_axes:
                acc = np.stack([acc * (k + 1) for k in range(new_axes[l])], axis=pos)
        return acc

    return f


def np_blockwise(case, arrays):
    """the NumPy meaning: the label-local function on the whole arrays; the `adjust_chunks` label is summed per block of
    that label"""
    out = case["out"]
    new_axes = case["new_axes"]
    out_core = [l for l in out if l not in new_axes]
    acc = None
    for spec, a in zip(case["ops"], arrays):
        t = term(spec, a, out_core)
        acc = t if acc is None else acc + t
    acc = np.asarray(acc) * (case["lit"] if case["lit"] is not None else 1)
    sh = [1] * len(out_core)
    for spec in case["ops"]:
        for l, n in zip(spec["ind"], spec["shape"]):
            if l in out_core and n != 1:
                sh[out_core.index(l)] = n
    acc = np.broadcast_to(acc, sh)
    if case["adjust"] is not None:
        ax = out_core.index(case["adjust"])
        cs = case["_adjust_chunks"]
        starts = np.cumsum([0] + list(cs))[:-1]
        pieces = [acc.take(range(s, s + c), axis=ax).sum(axis=ax, keepdims=True) for s, c in zip(starts, cs)]
        acc = np.concatenate(pieces, axis=ax)
    for pos, l in enumerate(out):
        if l in new_axes:
            acc = np.stack([acc * (k + 1) for k in range(new_axes[l])], axis=pos)
    return np.ascontiguousarray(acc)


def build(case):
    """returns (dask collection, NumPy value) of the un-indexed node"""
    import dask_array as da

    kind = case["kind"]
    with warnings.catch_warnings():
        warnings.simplefilter("ignore")
        if kind == "blockwise":
            arrays = [data_of(o["shape"], o["seed"]) for o in case["ops"]]
            args = []
            for o, a in zip(case["ops"], arrays):
                args += [da.from_array(a, chunks=tuple(tuple(c) for c in o["chunks"])), "".join(o["ind"])]
            if case["lit"] is not None:
                args += [case["lit"], None]
            kw = {}
            if case["adjust"] is not None:
                kw["adjust_chunks"] = {case["adjust"]: 1}
            z = da.blockwise(make_func(case), "".join(case["out"]), *args, dtype="i8", align_arrays=case["align"],
                             concatenate=case["concatenate"], new_axes=dict(case["new_axes"]) or None, **kw)
            if case["adjust"] is not None:
                case["_adjust_chunks"] = list(_label_chunks(z.expr, case["adjust"]))
            return z, np_blockwise(case, arrays)
        if kind == "map_blocks":
            arrays = [data_of(o["shape"], o["seed"]) for o in case["ops"]]
            das = [da.from_array(a, chunks=tuple(tuple(c) for c in o["chunks"])) for o, a in zip(case["ops"], arrays)]
            coefs = [o["coef"] for o in case["ops"]]
            extra = case["extra"]

            def comb(*bs):
                acc = None
                for c, b in zip(coefs, bs):
                    acc = b * c if acc is None else acc + b * c
                return np.asarray(acc)

            if extra == "new_axis":
                pos = case["pos"]
                z = da.map_blocks(lambda *bs: np.expand_dims(comb(*bs), pos), *das, dtype="i8", new_axis=pos)
                return z, np.expand_dims(comb(*arrays), pos)
            if extra == "drop_axis":
                pos = case["pos"]
                z = da.map_blocks(lambda *bs: comb(*bs).sum(axis=pos), *das, dtype="i8", drop_axis=pos)
                return z, comb(*arrays).sum(axis=pos)
            if extra == "chunks":
                z = da.map_blocks(lambda *bs: comb(*bs), *das, dtype="i8", chunks=das[0].chunks)
                return z, comb(*arrays)
            if extra == "block_info":
                def g(*bs, block_info=None):
                    return comb(*bs)

                z = da.map_blocks(g, *das, dtype="i8")
                return z, comb(*arrays)
            z = da.map_blocks(lambda *bs: comb(*bs), *das, dtype="i8")
            return z, comb(*arrays)
        if kind == "store":
            a = data_of(case["shape"], case["seed"])
            x = da.from_array(a, chunks=tuple(tuple(c) for c in case["chunks"]))
            tgt = np.zeros(case["shape"], dtype="i8")
            z = da.store(x, tgt, return_stored=True, compute=False)
            return z, a
        if kind == "intidx":
            a = data_of(case["shape"], case["seed"])
            x = da.from_array(a, chunks=tuple(tuple(c) for c in case["chunks"]))
            i = da.from_array(np.asarray(case["idx"], dtype="i8"), chunks=(tuple(case["idx_chunks"]),))
            ix = [slice(None)] * a.ndim
            ix[case["axis"]] = i
            z = x[tuple(ix)]
            ixn = [slice(None)] * a.ndim
            ixn[case["axis"]] = np.asarray(case["idx"])
            return z, a[tuple(ixn)]
        if kind == "matmul":
            A = data_of(case["a"]["shape"], case["a"]["seed"])
            B = data_of(case["b"]["shape"], case["b"]["seed"])
            a = da.from_array(A, chunks=tuple(tuple(c) for c in case["a"]["chunks"]))
            b = da.from_array(B, chunks=tuple(tuple(c) for c in case["b"]["chunks"]))
            return a @ b, A @ B
    raise _Skip(kind)


def _label_chunks(node, label):
    out_ind = tuple(node.out_ind)
    if label in out_ind and not node.align_arrays:
        best = None
        for arg, ind in zip(node.args[::2], node.args[1::2]):
            if ind is None:
                continue
            for c, i in zip(arg.chunks, ind):
                if i == label and (best is None or len(c) > len(best)):
                    best = c
        return best
    from dask_array._expr import unify_chunks_expr

    return unify_chunks_expr(*node.args)[0][label]


def the_blockwise(z):
    """the generic Blockwise node the case is about (the root, or the first one below it)"""
    from dask_array._blockwise import Blockwise

    e = z.expr
    if type(e) is Blockwise:
        return e
    for n in e.walk():
        if type(n) is Blockwise:
            return n
    raise _Skip("no generic Blockwise")


# ------------------------------------------------------------------------------------------ encoding

def node_token(node):
    labels = {}

    def lab(x):
        if x not in labels:
            labels[x] = len(labels)
        return labels[x]

    out_ind = tuple(node.out_ind)
    out = [lab(l) for l in out_ind]
    ops = []
    for arg, ind in zip(node.args[::2], node.args[1::2]):
        if ind is None:
            ops.append("L~N~_~-")
            continue
        kind = "A" if hasattr(arg, "_meta") else "D"
        chunks = tuple(tuple(c) for c in arg.chunks)
        if any(isinstance(v, float) and np.isnan(v) for c in chunks for v in c):
            raise _Skip("unknown chunks")
        shape = tuple(sum(c) for c in chunks)
        ops.append(f"{kind}~{f_list([lab(i) for i in ind])}~{f_list(shape)}~{f_ll(chunks)}")

    def fmap(d):
        return "-" if not d else ";".join(f"{k}={f_list(v)}" for k, v in sorted(d.items()))

    new_axes = {lab(k): (tuple(v) if isinstance(v, (tuple, list)) else (v,)) for k, v in (node.new_axes or {}).items()}
    chunks = node.chunks
    adjust = {}
    for k in (node.adjust_chunks or {}):
        if k in out_ind:
            adjust[lab(k)] = chunks[out_ind.index(k)]
    U = {}
    if node.align_arrays:
        from dask_array._expr import unify_chunks_expr

        for k, v in unify_chunks_expr(*node.args)[0].items():
            U[lab(k)] = v
    tok = "/".join([f_list(out), "1" if node.align_arrays else "0", "1" if node.concatenate else "0", fmap(new_axes),
                    fmap(adjust), fmap(U), "|".join(ops)])
    if " " in tok:
        raise _Skip("token")
    return tok


def index_token(index):
    if not index:
        return "_"
    return ",".join("N" if i is None else (f_slice(i) if isinstance(i, slice) else str(int(i))) for i in index)


def _positions(arg, na):
    from dask_array.slicing import SliceSlicesIntegers

    if na is arg or na._name == arg._name:
        return [list(range(n)) for n in arg.shape]
    if isinstance(na, SliceSlicesIntegers) and na.array._name == arg._name:
        idx = tuple(na.index) + (slice(None),) * (arg.ndim - len(na.index))
        if any(not isinstance(s, slice) for s in idx):
            raise _Skip("integer in a pushed index")
        return [list(range(*s.indices(n))) for s, n in zip(idx, arg.shape)]
    raise _Skip("unexpected operand form " + type(na).__name__)


def impl_slice(node, e):
    """canonical outputs of the real `_accept_slice`: (route line, chunks line)"""
    from dask_array._blockwise import Blockwise
    from dask_array.slicing import SliceSlicesIntegers

    called = []
    orig = Blockwise._accept_slice_coarse

    def spy(self, *a, **k):
        called.append(1)
        return None

    Blockwise._accept_slice_coarse = spy
    try:
        res = node._accept_slice(e)
    except Exception as ex:  # noqa: BLE001
        return err_name(ex), err_name(ex)
    finally:
        Blockwise._accept_slice_coarse = orig
    if called:
        return "ok coarse", "ok none"
    if res is None:
        return "ok decline", "ok none"
    ex = "N"
    inner = res
    if isinstance(res, SliceSlicesIntegers):
        inner = res.array
        ex = ",".join("0" if not isinstance(i, slice) else ":" for i in res.index) if res.index else "_"
    if type(inner) is not Blockwise:
        raise _Skip("unexpected result " + type(inner).__name__)
    parts, chunks = [], []
    for (arg, ind), na in zip(zip(node.args[::2], node.args[1::2]), inner.args[::2]):
        if ind is None:
            parts.append("N")
            chunks.append("-")
        elif len(ind) == 0:
            parts.append("-")
            chunks.append("-")
        else:
            parts.append(";".join(f_list(p) for p in _positions(arg, na)))
            chunks.append(f_ll(na.chunks))
    return "ok exact " + "|".join(parts) + " ex=" + ex, "ok " + "|".join(chunks)


def impl_take(node, e):
    from dask_array._blockwise import Blockwise
    from dask_array._shuffle import Shuffle

    try:
        res = node._accept_shuffle(e)
    except Exception as ex:  # noqa: BLE001
        return err_name(ex), err_name(ex)
    if res is None:
        return "ok decline", "ok none"
    if type(res) is not Blockwise:
        raise _Skip("unexpected result " + type(res).__name__)
    parts, chunks = [], []
    for (arg, ind), na in zip(zip(node.args[::2], node.args[1::2]), res.args[::2]):
        if ind is None:
            parts.append("N")
            chunks.append("-")
        elif isinstance(na, Shuffle) and na.array._name == arg._name and na is not arg:
            parts.append(str(int(na.axis)))
            chunks.append(f_ll(na.chunks))
        elif na is arg or na._name == arg._name:
            parts.append("N")
            chunks.append(f_ll(arg.chunks) if len(ind) else "-")
        else:
            raise _Skip("unexpected operand form " + type(na).__name__)
    return "ok " + ",".join(parts), "ok " + "|".join(chunks)


def impl_extents(node):
    """per output block of the lowered node, the piece of every array operand its task depends on"""
    lw = node._lower() or node
    pairs = list(zip(lw.args[::2], lw.args[1::2]))
    names = [getattr(a, "_name", None) for a, i in pairs if i is not None]
    if any(not hasattr(a, "_meta") for a, i in pairs if i is not None) or len(set(names)) != len(names):
        raise _Skip("non-array or repeated operand")
    dsk = lw._layer()
    out = []
    for bid in itertools.product(*[range(len(c)) for c in lw.chunks]):
        task = dsk[(lw._name, *bid)]
        deps = [k for k in task.dependencies if isinstance(k, tuple)]
        parts = []
        for arg, ind in pairs:
            if ind is None:
                parts.append("L")
                continue
            if len(ind) == 0:
                parts.append("-")
                continue
            blocks = [k[1:] for k in deps if k[0] == arg._name]
            if not blocks:
                raise _Skip("no dependency found")
            ext = []
            for ax, cs in enumerate(arg.chunks):
                ids = sorted({b[ax] for b in blocks})
                if ids != list(range(ids[0], ids[-1] + 1)):
                    raise _Skip("non-contiguous blocks")
                ext.append(f"{sum(cs[:ids[0]])}:{sum(cs[ids[0]:ids[-1] + 1])}")
            if len(blocks) != int(np.prod([len({b[ax] for b in blocks}) for ax in range(arg.ndim)])):
                raise _Skip("not a product of ranges")
            parts.append(",".join(ext))
        out.append(f_list(bid) + "=" + "|".join(parts))
    return "ok " + ";".join(out)


def corr_requests(ctx, case, z, idx, inside=True):
    """[(request, impl output)] for one node and one index"""
    from dask_array._new_collection import new_collection
    from dask_array._shuffle import Shuffle
    from dask_array.slicing import SliceSlicesIntegers

    node = the_blockwise(z)
    tok = node_token(node)
    reqs = [(f"bwg.chunks {tok}", "ok " + f_ll(node.chunks)),
            (f"bwg.concat {tok}", "ok 1" if node._contracts_by_concatenation() else "ok 0")]
    zc = new_collection(node)
    nd = zc.ndim
    if any(isinstance(n, float) for n in zc.shape):
        raise _Skip("unknown shape")
    if node._name != z.expr._name:  # the node sits below the root (the product under `a @ b`): an index for ITS shape
        idx = gen_index(ctx.rng, list(zc.shape))
    if "take" in idx and "basic" not in idx:
        ax, lst = idx["take"]
        if ax < nd and lst and all(0 <= p < zc.shape[ax] for p in lst):
            e = zc[py_index(idx, nd)].expr
            if isinstance(e, Shuffle) and e.array._name == node._name:
                route, chunks = impl_take(node, e)
                reqs.append((f"bwg.take {tok} {e.axis}", route))
                indexer = [[int(v) for v in g] for g in e.indexer]
                if all(indexer):
                    reqs.append((f"bwg.takechunks {tok} {e.axis} {f_ll(indexer)}", chunks))
            else:
                ctx.notes["bwg.take_not_shuffle"] = ctx.notes.get("bwg.take_not_shuffle", 0) + 1
    elif "basic" in idx and "take" not in idx:
        e = zc[py_index(idx, nd)].expr
        if isinstance(e, SliceSlicesIntegers) and e.array._name == node._name:
            route, chunks = impl_slice(node, e)
            it = index_token(e.index)
            reqs.append((f"bwg.slice {tok} {it}", route))
            reqs.append((f"bwg.slicechunks {tok} {it}", chunks))
        else:
            ctx.notes["bwg.index_not_slice"] = ctx.notes.get("bwg.index_not_slice", 0) + 1
    if inside and ctx.rng.random() < 0.3 and not node.concatenate and not (node.adjust_chunks or {}):
        try:
            reqs.append((f"bwg.extents {tok}", impl_extents(node)))
        except _Skip:
            pass
    return reqs


def branch_key(req, model):
    cmd = req.split()[0]
    tok = req.split()[1].split("/")
    flags = tok[1] + tok[2] + ("n" if tok[3] != "-" else "") + ("a" if tok[4] != "-" else "")
    nops = tok[6].count("|") + 1
    kinds = "".join(sorted({o[0] for o in tok[6].split("|") if o}))
    return (cmd, model.split()[1] if len(model.split()) > 1 else model, flags, nops, kinds)


# ------------------------------------------------------------------------------------------ end-to-end

def compute(r, optimize):
    import dask

    with warnings.catch_warnings():
        warnings.simplefilter("ignore")
        with dask.config.set({"array.optimize-graph": optimize}):
            return np.asarray(r.compute(scheduler="sync"))


def check_api(ctx, case, z=None, want=None):
    """None when the property holds (or the API refuses the program in both forms), else (signature, text)"""
    try:
        if z is None:
            z, want = build(case)
        idx = case["index"]
        pi = py_index(idx, z.ndim)
        want_i = want[pi]
        with warnings.catch_warnings():
            warnings.simplefilter("ignore")
            r = z[pi]
    except _Skip:
        raise
    except Exception as e:  # noqa: BLE001 - refused at construction: not wrong data
        ctx.notes["bwg.refused_at_construction"] = ctx.notes.get("bwg.refused_at_construction", 0) + 1
        ctx.notes.setdefault("bwg.refused_example", repr(e)[:160])
        return None
    res = {}
    for optimize in (False, True):
        try:
            res[optimize] = compute(r, optimize)
        except Exception as e:  # noqa: BLE001
            res[optimize] = e
    un, op = res[False], res[True]
    ok = lambda g: not isinstance(g, Exception) and g.shape == want_i.shape and np.array_equal(g, want_i)
    # (the node itself computes the NumPy value — checked by the caller — and NumPy accepts the index: an exception at
    # compute time is not a refusal, it is the rewritten expression failing; "unoptimized" still runs simplify)
    if ok(un) and ok(op):
        if tuple(r.shape) != want_i.shape:
            return (SIG_VALUES, f"advertised shape {r.shape} vs {want_i.shape}")
        return None
    if empty_on_adjusted_axis(case, idx, list(want.shape)):
        return (SIG_COARSE_EMPTY, f"optimized {op if isinstance(op, Exception) else (op.shape, op.ravel()[:10].tolist())!r} "
                                  f"vs NumPy {want_i.shape} {want_i.ravel()[:10].tolist()}"[:300])
    if isinstance(op, Exception):
        return (SIG_RAISES, f"the node computes the NumPy value, its index raises {op!r} (array.optimize-graph=False: "
                            f"{'raises too' if isinstance(un, Exception) else 'fine'})"[:300])
    if not ok(op) and ok(un):
        return (SIG_VALUES, f"optimized {op.shape} {op.ravel()[:10].tolist()} vs NumPy {want_i.shape} {want_i.ravel()[:10].tolist()}")
    return (SIG_UNOPT, f"unoptimized {un if isinstance(un, Exception) else (un.shape, un.ravel()[:10].tolist())!r} vs NumPy "
                       f"{want_i.shape} {want_i.ravel()[:10].tolist()}"[:300])


def empty_on_adjusted_axis(case, idx, shape):
    """the index selects nothing on an axis whose label is in `adjust_chunks` (handled by `_accept_slice_coarse`)"""
    if case["kind"] == "blockwise" and case.get("adjust") is not None:
        axes = [case["out"].index(case["adjust"])]
    elif case["kind"] == "map_blocks" and case.get("extra") in ("chunks", "block_info"):
        axes = list(range(len(shape)))
    else:
        return False
    pi = py_index(idx, len(shape))
    for ax in axes:
        if ax < len(pi):
            it = pi[ax]
            if isinstance(it, slice) and len(range(*it.indices(shape[ax]))) == 0:
                return True
            if isinstance(it, list) and not it:
                return True
    return False


def class_key(case, idx):
    k = case["kind"]
    ik = ("take" if "take" in idx else "") + ("basic" if "basic" in idx else "")
    if k == "blockwise":
        return ("bwg", k, len(case["ops"]), case["align"], case["concatenate"], bool(case["new_axes"]), bool(case["adjust"]),
                any(l not in case["out"] for o in case["ops"] for l in o["ind"]), ik)
    if k == "map_blocks":
        return ("bwg", k, len(case["ops"]), case["extra"], ik)
    return ("bwg", k, ik)


def probe_known(ctx):
    """regression probes of the defects repaired in `_accept_slice` / `_accept_shuffle` (minimal inputs of the commits)"""
    import dask_array as da

    def same(r, want, sig, what):
        ctx.count(("bwg", "probe", sig))
        try:
            got = compute(r, True)
            if got.shape != want.shape or not np.array_equal(got, want):
                ctx.fail(sig, {"bwg": True, "probe": what}, f"regression of a repaired defect: {what}: got {got.tolist()} want {want.tolist()}")
        except Exception as e:  # noqa: BLE001
            ctx.fail(sig, {"bwg": True, "probe": what}, f"regression of a repaired defect: {what}: {e!r}"[:300])

    with warnings.catch_warnings():
        warnings.simplefilter("ignore")
        A = np.arange(16).reshape(4, 4)
        a = da.from_array(A, chunks=2)
        z = da.blockwise(lambda x: np.diagonal(x).copy(), "i", a, "ii", dtype="i8")
        same(z[[3, 0, 1]], np.diagonal(A)[[3, 0, 1]], SIG_REPEATED, "blockwise(diagonal,'i',a,'ii')[[3,0,1]]")
        same(z[1:3], np.diagonal(A)[1:3], SIG_REPEATED, "blockwise(diagonal,'i',a,'ii')[1:3]")
        p = da.from_array(np.arange(3), chunks=(1, 2))
        q = da.from_array(np.arange(3) * 10, chunks=(2, 1))
        m = da.map_blocks(lambda u, v: u + v.sum(), p, q, dtype="i8")
        want = compute(m, False)
        same(m[1:], want[1:], "bwg:unaligned-slice", "map_blocks(p + q.sum(), (1,2), (2,1))[1:]")
        same(m[[2, 0]], want[[2, 0]], "bwg:unaligned-take", "map_blocks(p + q.sum(), (1,2), (2,1))[[2,0]]")
        x = da.from_array(np.arange(12).reshape(3, 4), chunks=(2, 2))
        s = da.store(x, np.zeros((3, 4), dtype="i8"), return_stored=True, compute=False)
        same(s[1:, ::2], np.arange(12).reshape(3, 4)[1:, ::2], "bwg:nonarray-operand", "store(return_stored=True)[1:, ::2]")
        i = da.from_array(np.array([2, 0, 1, 2]), chunks=2)
        same(x[i, :2], np.arange(12).reshape(3, 4)[[2, 0, 1, 2], :2], "bwg:concat-pieces", "x[dask_int_array, :2]")
        # the coarse path (`_accept_slice_coarse`, not modelled): an empty selection on an `adjust_chunks` axis
        v = da.from_array(np.arange(4), chunks=2)
        mc = da.map_blocks(lambda b: b * 1, v, dtype="i8", chunks=v.chunks)
        for sl in (slice(1, 1), slice(4, None), slice(5, 7)):
            same(mc[sl], np.arange(4)[sl], SIG_COARSE_EMPTY, f"map_blocks(f, x, chunks=x.chunks)[{sl.start}:{sl.stop}]")
        w = da.from_array(np.array([3, 4]), chunks=1)
        bs = da.blockwise(lambda t: t.sum(axis=0, keepdims=True), "i", w, "i", dtype="i8", adjust_chunks={"i": 1})
        for sl in (slice(1, 1), slice(0, 0), slice(2, None)):
            same(bs[sl], np.array([3, 4])[sl], SIG_COARSE_EMPTY, f"blockwise(sum keepdims, adjust_chunks={{'i': 1}})[{sl.start}:{sl.stop}]")


def replay_case(ctx, case):
    if "probe" in case:
        return probe_known(ctx)
    f = check_api(ctx, case)
    ctx.count(class_key(case, case["index"]))
    if f:
        ctx.fail(f[0], case, f[1])


def run(ctx, replay=None):
    if replay is not None:
        return replay_case(ctx, replay["case"])
    t0 = ctx.elapsed()
    probe = ctx.driver.run(["bwg.concat 0/0/0/-/-/-/A~0~2~1,1"])
    tdrv = ctx.elapsed() - t0
    have_driver = not (probe and probe[0] == "bad-op")
    if not have_driver:
        ctx.notes["bwg_driver"] = "not available in this build"
    rng = ctx.rng
    ctx.assumptions.append(
        "blockwise pushdown gates (Props/C02Gate, bwg.*): known chunk sizes; the unified chunks of align_arrays=True nodes "
        "(unify_chunks_expr, C17) are read from the implementation and passed to the model; the coarse adjust_chunks path and "
        "subclasses with an `array` parameter (Transpose, SlidingWindowView) are outside the model; the theorem covers "
        "label-local block functions on nodes without adjust_chunks — the others are covered by this search only"
    )
    probe_known(ctx)
    n = ctx.scale(160, 1600)
    pairs, owners = [], []
    for i in range(n):
        case = gen_case(rng)
        try:
            z, want = build(case)
        except _Skip:
            continue
        except Exception as e:  # noqa: BLE001 - the API refuses the node
            ctx.notes["bwg.node_refused"] = ctx.notes.get("bwg.node_refused", 0) + 1
            ctx.notes.setdefault("bwg.node_refused_example", repr(e)[:160])
            continue
        shape = list(want.shape)
        # the baseline: the node itself, unoptimized, must be the NumPy value with the advertised shape; a node the API
        # accepts but computes otherwise (operands paired by position with other chunk boundaries, a broadcast operand
        # listed first under align_arrays=False, ...) is outside the property "the pushdown preserves values"
        try:
            base = compute(z, False)
            inside = tuple(z.shape) == want.shape and base.shape == want.shape and np.array_equal(base, want)
        except Exception as e:  # noqa: BLE001
            inside = False
            ctx.notes.setdefault("bwg.node_outside_example", repr(e)[:160])
        if not inside:
            ctx.notes["bwg.node_outside"] = ctx.notes.get("bwg.node_outside", 0) + 1
        try:
            zch = [list(c) for c in z.chunks]
        except Exception:  # noqa: BLE001 - `.chunks` of an inconsistent node raises
            zch = None
        for rep in range(3):
            idx = gen_index(rng, shape, mixed=True) if (rep < 2 or zch is None) else gen_cull_index(rng, shape, zch)
            c = dict(case)
            c["index"] = idx
            ctx.count(class_key(c, idx))
            try:
                f = check_api(ctx, c, z, want) if inside else None
            except _Skip:
                f = None
            except Exception as e:  # noqa: BLE001 - a harness-side problem is never an alarm
                f = None
                ctx.notes["bwg.check_error"] = ctx.notes.get("bwg.check_error", 0) + 1
                ctx.notes.setdefault("bwg.check_error_example", repr(e)[:200])
            if f:
                ctx.fail(f[0], c, f[1])
                continue
            if have_driver:
                try:
                    for rq in corr_requests(ctx, c, z, idx, inside):
                        pairs.append(rq)
                        owners.append(c)
                except _Skip as e:
                    ctx.notes["bwg.corr_skipped"] = ctx.notes.get("bwg.corr_skipped", 0) + 1
                    ctx.notes.setdefault("bwg.corr_skipped_example", str(e)[:120])
                except Exception as e:  # noqa: BLE001 - an unexpected expression layout is "outside", never an alarm
                    ctx.notes["bwg.corr_error"] = ctx.notes.get("bwg.corr_error", 0) + 1
                    ctx.notes.setdefault("bwg.corr_error_example", repr(e)[:200])
        if i < 2:
            ctx.sample({"blockwise_gate_case": {k: v for k, v in case.items() if not k.startswith("_")}})
    if pairs:
        n0 = len(ctx.disagreements)
        # one request per distinct line
        seen, uniq, uown = set(), [], []
        for p, o in zip(pairs, owners):
            if p[0] not in seen:
                seen.add(p[0])
                uniq.append(p)
                uown.append(o)
        t1 = ctx.elapsed()
        ctx.correspond(FAM, uniq, branch_key)
        tdrv += ctx.elapsed() - t1
        by_req = {p[0]: o for p, o in zip(uniq, uown)}
        nlift = 0
        for d in ctx.disagreements[n0:]:
            c = by_req.get(d["request"])
            if c is None:
                continue
            d["case"] = {k: v for k, v in c.items() if not k.startswith("_")}
            # targeted search: the disagreeing node under a family of indices
            try:
                z, want = build(c)
                base = compute(z, False)
                if not (tuple(z.shape) == want.shape and base.shape == want.shape and np.array_equal(base, want)):
                    continue
                if nlift >= ctx.scale(12, 60):
                    continue
                nlift += 1
                for nidx in neighbour_indices(list(want.shape))[: ctx.scale(120, 400)]:
                    cc = dict(c)
                    cc["index"] = nidx
                    ctx.count(("bwg", "lifted", cc["kind"]))
                    f = check_api(ctx, cc, z, want)
                    if f:
                        ctx.fail(f[0], cc, f[1])
                        break
            except Exception:  # noqa: BLE001
                pass
        ctx.notes["targeted_search"] = ("disagreeing blockwise nodes recomputed under every integer, one-sided cut, stepped / reversed "
                                        "slice and short take per axis, optimized vs unoptimized vs NumPy")
    ctx.notes["bwg.seconds"] = round(ctx.elapsed() - t0, 1)
    ctx.notes["bwg.seconds_driver"] = round(tdrv, 1)
