"""C20 extension: the ORDER of calls around a recorded map_blocks call.

The layout a map_blocks call is built against is the one its inputs advertise when the call is made -- whatever was done to those
collections before.  Every run enumerates

    SETTINGS (what was done, and when)  x  PRODUCERS (what the input is)

  * SETTINGS: before the call, on the input collection: nothing / attribute reads (.chunks .numblocks .name, __dask_keys__, repr) /
    materializations on the collection itself (__dask_graph__, .dask, compute, compute under the OTHER optimize-graph setting, persist,
    to_delayed, the task-record protocol) / dask's entry points and Array.optimize (result discarded) / used inside ANOTHER computed
    expression (x+1, x.sum(), another map_blocks with and without block_info) / the input IS what an operation returned (x.persist(),
    x.optimize(), a pickle round trip of a computed / fresh collection, copy / deepcopy of a computed collection, freeze_chunks of a
    computed collection); AFTER the call, on the input (keys, graph, compute, persist, to_delayed, used); on the RESULT of the call before
    its consumers are built (keys, graph, compute, persist, to_delayed, chunks).
  * PRODUCERS: the five families below the call of the keyword stream (c20_kwargs.BELOW: from_array / elementwise on one / on all inputs /
    binary elementwise / rechunk, with that stream's modes, mixed ranks, several inputs and consumers; the history goes on one input or on
    all of them) and layout-drifting inputs, steered (not judged) by the layout the optimizer settles on: sliding-window reductions over
    ragged chunkings (1-d and with an untouched cross axis), reversal / stepped slice / integer-list selection over an elementwise
    combination of operands with equal block counts and different cuts.  One pool of drifting producers is built per round and EVERY
    setting is run over the same pool (so `none` is the control of every other setting); every materializing setting gets every
    drifting family (every entry of the pool), every other setting before the call both sliding-window shapes and one selection family.

The oracle is C20.evaluate unchanged (brute-force block_info of every input and of the output from the call-time layouts, delivered block
shape and content, grid coverage, program value).  Histories are value-preserving; one that raises on its own is a matter below the call
(noted as producer-raises), one on the call's RESULT that raises is a compute failure of the call.
"""
from __future__ import annotations

from harness.props import C20 as K
from harness.props_ext import c20_kwargs as KW

DRIFT = ("swv", "swv2d", "elem-rev", "elem-step", "elem-take")
SETTINGS = ([("before", k) for k in K.HIST_BEFORE] + [("after", k) for k in K.HIST_AFTER] + [("out", k) for k in K.HIST_OUT])
MATERIALIZING = set(K.HIST_MATERIALIZE) | {"optimized", "persisted", "frozen"}

NOTES = {}


def _note(k, n=1):
    NOTES[k] = NOTES.get(k, 0) + n


def drift_pool(rng, per_kind):
    """kind -> list of (prog, x, drift class, ndim): steered towards `same-count` (the silent class), one in three unsteered"""
    pool = {}
    for kind in DRIFT:
        out = []
        for j in range(per_kind):
            base = "swv" if kind.startswith("swv") else kind
            cross = (rng.choice([2, 3]) if kind == "swv2d" else 0) if kind.startswith("swv") else rng.choice([0, 0, 2])
            want = "same-count" if j % 3 != 2 else rng.choice(["same-count", "other-count", "same"])
            r = K.steered_drift_producer(rng, base, want=want, tries=25, cross=cross)
            if r is None:
                _note("no_drift_producer:" + kind)
                continue
            prog, x, cls = r
            out.append((prog, x, cls, 2 if cross else 1))
            _note(f"pool.{kind}.{cls}")
        pool[kind] = out
    return pool


def _attach(step, when, kind, idxs):
    if when == "before":
        step["hist"] = [[i, kind] for i in idxs]
    elif when == "after":
        step["hist_after"] = [[i, kind] for i in idxs]
    else:
        step["hist_out"] = kind


def drift_case(rng, entry, when, kind, decks):
    """the recorded call over one pooled drifting producer, with the history attached"""
    prog, x, cls, nd = entry
    prog = [dict(st) for st in prog]
    mode = decks["mode2" if nd == 2 else "mode1"].draw()
    kw = decks["kw"].draw()
    step = {"op": "mb_rec", "args": [x], "kw": kw, "method": rng.random() < 0.5, "out": "m1"}
    if mode != "plain" and kw == "id":
        step["kw"] = "both"  # an id-only function cannot know the output chunk shape
    if step["kw"] != "id" and rng.random() < 0.5:
        step["idval"] = True
    if mode == "new":
        step["new_axis"] = [rng.randint(0, nd)]
    elif mode == "drop":
        step["drop_axis"] = [rng.randrange(nd)]
    _attach(step, when, kind, [0])
    # one construction: validity, and the layout the input advertises when the call is made (AFTER a replacing history)
    import warnings

    with warnings.catch_warnings():
        warnings.simplefilter("ignore")
        try:
            _, cap = K.run_dask(prog + [step], K.Recorder())
        except Exception as e:  # noqa: BLE001
            if K.constructs_plain(prog + [step]):
                cap = None  # only the payload builder refuses: C20.evaluate reports it
            else:
                _note("construction_refused:" + type(e).__name__)
                NOTES.setdefault("construction_refused.example", K.describe(prog + [step]) + " :: " + f"{type(e).__name__}: {str(e)[:160]}")
                return None
    if mode == "chunks" and cap is not None:
        step["chunks"] = [list(c) for c in cap["m1"]["layouts"][0]]
    prog.append(step)
    root = "m1"
    above = decks["above"].draw()
    if above == "neg":
        prog.append({"out": "m2", "op": "neg", "args": ["m1"]})
        root = "m2"
    elif above == "sum":
        prog.append({"out": "m2", "op": "reduce", "fn": "sum", "args": ["m1"], "axis": 0, "keepdims": False, "split_every": None})
        root = "m2"
    elif above == "mb":
        prog.append({"out": "m2", "op": "mb_rec", "args": ["m1"], "kw": "both", "idval": True, "method": True})
        root = "m2"
    return prog, root, mode, above


def cases(rng, rounds, per_kind=2, kw_per_setting=1):
    """yields (prog, root, key, opts): opts = the optimize-graph settings to evaluate under"""
    rank_deck = KW._Deck(rng, KW.RANKS)
    decks = {
        "mode1": KW._Deck(rng, ("plain", "plain", "chunks", "new")),
        "mode2": KW._Deck(rng, ("plain", "chunks", "new", "drop")),
        "kw": KW._Deck(rng, ("info", "both", "id", "both")),
        "above": KW._Deck(rng, ("none", "none", "neg", "sum", "mb")),
        "opt": KW._Deck(rng, (False, None, None, None)),
        "kwmode": KW._Deck(rng, KW.MODES),
        "kwbelow": KW._Deck(rng, KW.BELOW),
        "kwabove": KW._Deck(rng, KW.ABOVE),
        "swvkind": KW._Deck(rng, ("swv", "swv2d")),
        "elemkind": KW._Deck(rng, ("elem-rev", "elem-step", "elem-take")),
    }
    for _ in range(rounds):
        pool = drift_pool(rng, per_kind)
        settings = list(SETTINGS)
        rng.shuffle(settings)
        # materializing histories first: they are the ones that leave something behind on the collection
        settings.sort(key=lambda s: 0 if (s[0] == "before" and s[1] in MATERIALIZING) else 1)
        for when, kind in settings:
            full = when == "before" and (kind in MATERIALIZING or kind == "none")
            if full:
                kinds = list(DRIFT)
            elif when == "before":  # both sliding-window shapes (the reliable drifters) and one selection family
                kinds = ["swv", "swv2d", decks["elemkind"].draw()]
            else:
                kinds = [decks["swvkind"].draw(), decks["elemkind"].draw()]
            for dk in kinds:
                entries = pool.get(dk) or []
                if not entries:
                    continue
                for entry in (entries if full else [rng.choice(entries)]):
                    r = drift_case(rng, entry, when, kind, decks)
                    if r is None:
                        continue
                    prog, root, mode, above = r
                    opts = (True,) if decks["opt"].draw() is None else (True, False)
                    yield prog, root, ("hist", when, kind, dk, entry[2], mode, above), opts
            for _k in range(kw_per_setting):
                mode, below, above = decks["kwmode"].draw(), decks["kwbelow"].draw(), decks["kwabove"].draw()

                def decorate(step, prog, when=when, kind=kind):
                    n = len(step["args"])
                    if not n and when != "out":
                        return
                    idxs = list(range(n)) if (n and rng.random() < 0.3) else ([rng.randrange(n)] if n else [])
                    _attach(step, when, kind, idxs)

                made = KW.build_one(rng, mode, below, above, rank_deck, decorate=decorate, tag="histkw")
                if made is None:
                    continue
                prog, root, key = made
                opts = (True,) if decks["opt"].draw() is None else (True, False)
                yield prog, root, ("hist", when, kind, "kw:" + below, mode, above), opts
