"""C02, phase 3 — three rewrites that the phase-2 model listed as "not modelled":
slice through `broadcast_to` (`BroadcastTo._accept_slice`), rechunk through concatenate
(`Rechunk._pushdown_through_concatenate`: redistribution of the target over the parts + residual seam
rechunk) and the rechunk∘slice composition (`Rechunk._pushdown_through_slice`, at lowering).
Model: lean/DaskArrayModel/Model/Rules2.lean; theorems: Props/C02Ext.lean (`C02x_rule_sound_*`);
driver family `ru2.*` (Drv/Expr2.lean).

A directed stream of short programs built to fire exactly these rewrites:
(a) search (model-independent): every program goes through C02's own `check_program` (4 phase forms vs
    NumPy, every fired rewrite's before / after computed on the real code and compared);
(b) correspondence: the (before, after) OBJECTS of the fired rewrites of the three kinds are exported
    (harness/export.py) and the model must agree that the pair is sound (`ru.equiv` = same `den` on the
    concrete data; a 0 is a model / implementation disagreement);
(c) evidence only: how many real instances ARE instances of the modelled, proved rule (`ru2.accepts`:
    the model rule applied to `before` yields the shape, chunks and values of `after`) —
    `rule2_instances_covered` / `rule2_instances_uncovered`.  A refactor that emits a different but
    equivalent product degrades coverage, never the verdict.
"""
from __future__ import annotations

import warnings

import numpy as np

from harness import export as X, progcheck as PC, programs as P, trace as T

# candidate model-rule sequences, keyed by (real rule, class of `before`)
CANDS2 = {
    ("BroadcastTo._simplify_up", "SliceSlicesIntegers"): ["sliceThroughBroadcast", "sliceThroughBroadcast+sliceIdentityDrop*"],
    # a starred item may fire zero times: every sequence starts with a mandatory firing
    ("Concatenate._simplify_up", "Rechunk"): ["rechunkThroughConcat+rechunkThroughConcat*",
                                              "rechunkThroughConcat+rechunkThroughConcat*+rechunkNoop*"],
    ("Rechunk._lower", "Rechunk"): ["rechunkThroughSlice", "rechunkThroughConcat+rechunkThroughConcat*",
                                    "rechunkThroughConcat+rechunkThroughConcat*+rechunkNoop*"],
}


def _unit_index(rng, shape, nonempty=False):
    """an index of unit-step slices (what the three rewrites accept), one per axis"""
    idx = []
    for d in shape:
        r = rng.random()
        if r < 0.25:
            idx.append(slice(None))
            continue
        lo = rng.randint(0, max(0, d - 1)) if d else 0
        hi = rng.randint(lo + (1 if nonempty and d else 0), d) if d else 0
        if rng.random() < 0.25 and d:
            lo, hi = lo - d, (hi - d if hi < d else None)  # negative forms of the same bounds
        idx.append(slice(lo if rng.random() < 0.8 else (None if lo == 0 else lo), hi, None))
    return tuple(idx)


def _gen(rng, kind):
    g = P.ProgGen(rng, maxrank=3, maxdim=7, zero_axes=0.0, basic_only=True)
    a = g.new_source()
    x = g.env[a]
    if rng.random() < 0.3:
        a = g.add({"op": rng.choice(list(P.UNARY)), "args": [a]})
    if kind == "bcast-slice":
        shp = list(x.shape)
        ones = [i for i, d in enumerate(shp) if d == 1]
        for i in ones:  # axes broadcast from length 1
            if rng.random() < 0.7:
                shp[i] = rng.randint(2, 5)
        lead = [rng.randint(1, 4) for _ in range(rng.randint(0, 2))]
        if lead == [] and shp == list(x.shape):
            lead = [rng.randint(2, 4)]
        b = g.add({"op": "broadcast_to", "args": [a], "shape": lead + shp}, tags=("bcast",))
        g.add({"op": "getitem", "args": [b], "index": P._enc_index(_unit_index(rng, g.env[b].shape))})
    elif kind == "bcast-col":
        # a column / row vector broadcast against a matrix, then sliced
        n, m = rng.randint(2, 6), rng.randint(2, 6)
        c = g.new_source((n, 1) if rng.random() < 0.5 else (1, m))
        b = g.add({"op": "broadcast_to", "args": [c], "shape": [n, m]}, tags=("bcast",))
        g.add({"op": "getitem", "args": [b], "index": P._enc_index(_unit_index(rng, (n, m)))})
    elif kind == "concat-rechunk":
        g.last = a
        pick = g.pick
        g.pick = lambda: a
        try:
            c = g.g_concatenate()
        finally:
            g.pick = pick
        y = g.env[c]
        if rng.random() < 0.3:
            c = g.add({"op": rng.choice(list(P.UNARY)), "args": [c]})
        g.add({"op": "rechunk", "args": [c], "chunks": [list(ch) for ch in P.rand_chunks_nd(rng, y.shape)]})
    elif kind == "slice-rechunk":
        # an opaque node (sequential cumsum) keeps the slice from sinking into the source
        if x.ndim == 0:
            return None
        b = g.add({"op": "cumsum", "args": [a], "axis": rng.randrange(x.ndim), "method": "sequential"})
        s = g.add({"op": "getitem", "args": [b], "index": P._enc_index(_unit_index(rng, x.shape, nonempty=True))})
        y = g.env[s]
        if y.size == 0:
            return None
        g.add({"op": "rechunk", "args": [s], "chunks": [list(ch) for ch in P.rand_chunks_nd(rng, y.shape)]})
    return g.prog, g.env[g.prog[-1]["out"]]


KINDS = ("bcast-slice", "bcast-col", "concat-rechunk", "slice-rechunk", "bcast-slice", "concat-rechunk")


def run_ext(ctx):
    from harness.props import C02

    rng = ctx.rng
    n = ctx.scale(180, 1800)
    pend = []
    for i in range(n):
        kind = KINDS[i % len(KINDS)]
        try:
            made = _gen(rng, kind)
        except P._Skip:
            continue
        if made is None:
            continue
        prog, want = made
        ctx.count(("directed2", kind))
        # (b), (c) export the fired rewrites of the three kinds (traced first, from a clean memo state)
        T.clear_caches()
        env, exc = PC.build(prog)
        recs = []
        if exc is None:
            try:
                with T.trace_objects() as recs:
                    with warnings.catch_warnings():
                        warnings.simplefilter("ignore")
                        env[prog[-1]["out"]].expr.simplify().lower_completely()
            except Exception:  # noqa: BLE001 - reported by check_program below
                recs = []
        recs = list(recs)
        # (a) the model-independent search of C02 on this program
        C02.check_program(ctx, prog, want)
        ex = X.Exporter(X.sources_of(prog))
        seen = set()
        for r in recs:
            key = (r["rule"], type(r["before"]).__name__)
            if key not in CANDS2 or (r["before"]._name, r["after"]._name) in seen:
                continue
            if key[1] == "Rechunk" and type(getattr(r["before"], "array", None)).__name__ not in ("Concatenate", "SliceSlicesIntegers"):
                continue  # the other rechunk rewrites are phase 2's (rechunkNoop, rechunkIntoSrc, …)
            seen.add((r["before"]._name, r["after"]._name))
            tb = ex.export(r["before"])
            ta = ex.export(r["after"]) if tb is not None else None
            if tb is None or ta is None:
                d = ctx.extra.setdefault("rule2_instances_inexpressible", {})
                d[r["rule"]] = d.get(r["rule"], 0) + 1
                continue
            if tb == ta:
                continue
            pend.append({"rule": r["rule"], "before_cls": key[1], "tb": tb, "ta": ta, "program": prog, "kind": kind})
    lines = []
    index = []
    for j, p in enumerate(pend):
        lines.append(f"ru.equiv {p['tb']} {p['ta']}")
        index.append((j, None))
        for seq in CANDS2[(p["rule"], p["before_cls"])]:
            lines.append(f"ru2.accepts {seq} {p['tb']} {p['ta']}")
            index.append((j, seq))
    outs = ctx.driver.run(lines) if lines else []
    if outs and any(o == "bad-op" for (j, seq), o in zip(index, outs) if seq is not None):
        ctx.notes["ru2_driver"] = "not available in this build"
        X.flush(ctx)
        return
    res = [{"acc": []} for _ in pend]
    for (j, seq), out in zip(index, outs):
        if seq is None:
            res[j]["equiv"] = out
        else:
            res[j]["acc"].append((seq, out))
    cov = ctx.extra.setdefault("rule2_instances_covered", {})
    unc = ctx.extra.setdefault("rule2_instances_uncovered", {})
    by_model = ctx.extra.setdefault("model_rule2_instances", {})
    for p, r in zip(pend, res):
        eq = r.get("equiv", "")
        if not eq.startswith("ok"):
            d = ctx.extra.setdefault("rule2_instances_outside_model_domain", {})
            d[p["rule"]] = d.get(p["rule"], 0) + 1
            continue
        ctx.traces += 1
        ctx.evaluations += 1
        ctx.distinct.add(("ru2.equiv", p["rule"], p["kind"]))
        if eq != "ok 1":
            ctx.disagree("ru2", f"ru.equiv {p['tb']} {p['ta']}", eq, "ok 1")
            ctx.disagreements[-1]["program"] = p["program"]
            ctx.disagreements[-1]["rule"] = p["rule"]
            continue
        hit = next((seq for seq, out in r["acc"] if out == "ok 1"), None)
        if hit is not None:
            cov[p["rule"]] = cov.get(p["rule"], 0) + 1
            name = hit.split("+")[0].rstrip("*")
            by_model[name] = by_model.get(name, 0) + 1
            ctx.distinct.add(("ru2.accepts", p["rule"], hit))
        else:
            unc[p["rule"]] = unc.get(p["rule"], 0) + 1
            exs = ctx.extra.setdefault("rule2_uncovered_examples", [])
            if len(exs) < 3:
                exs.append({"rule": p["rule"], "before": p["tb"], "after": p["ta"]})
    ctx.notes["ru2.pairs_checked"] = ctx.notes.get("ru2.pairs_checked", 0) + len(pend)
    # the phase-2 correspondence of the rewrites collected by check_program above
    X.flush(ctx)
