"""C28 extension — unknown chunk sizes where operands are chunked DIFFERENTLY or MIX known and unknown sizes.

Three systematic streams, all run in full in every quick run (NumPy is the oracle, int64 data, exact):

  * "maskgrid": a full-rank boolean mask on a known-shape n-d array (2-d: all 4x4, 3-d: all 8x8 combinations of WHICH
    axes are split in x and WHICH in the mask), the mask given as a dask leaf with its own chunking, a NumPy array, a
    re-chunked dask array, an expression of x, an expression of x re-chunked, an expression of another array; forms
    x[mask], x[mask, ...], extract(mask, x), flatnonzero(mask).  Checked: the selection itself, the resolved chunk
    sizes (= true block sizes), and follow-on operations of C28's catalogue before / after compute_chunk_sizes.
    These are ordinary C28 cases with the selection kind "mask_nd" (replayed by C28.eval_case / check_resolve).
  * "mix": multi-input operations over every known/unknown pattern {K,U}^n (n = 2, 3), inputs with independent
    lengths along the joining axis (concatenate, negative axis, vstack/hstack/dstack, append (also axis=None), block,
    union1d, outer, isin, tensordot over a known axis, concatenate followed by a slice / a reduction) and inputs that
    share the unknown shape (stack, where, add, maximum, tensordot over the unknown axis, concatenate along a known
    axis with and without allow_unknown_chunksizes) where the known partner has the TRUE shape of the selection and
    is chunked aligned / with a different block count / mis-aligned with the same count.  Before, after and with only
    some of the unknown inputs resolved.  The result is also resolved (compute_chunk_sizes) and its chunks compared
    with the true block shapes; chunks advertised as known are compared with the blocks.
  * "chain": chained basic indexing (slices with any step, integers, Ellipsis, omitted trailing axes) on the known
    axes of an array with an unknown axis, under reductions (sum/max/mean/cumsum/count over all / the unknown / a
    known axis) — an ordinary C28 case with op "chain".  Includes the inputs of the defect fixed by /repo 03bfd73.
"""
from __future__ import annotations

import functools
import itertools
import math
import warnings

import numpy as np

from harness import gen
from harness.programs import source_data, rand_chunks_nd


def B():
    from harness.props import C28

    return C28


def _nan(v):
    return isinstance(v, float) and math.isnan(v)


def _split(rng, n, split, maxparts=3):
    """chunks of an axis of length n: one chunk, or (split) 2..maxparts chunks at random cut points"""
    if not split or n < 2:
        return [n]
    k = rng.randint(2, min(n, maxparts))
    cuts = sorted(rng.sample(range(1, n), k - 1))
    return [b - a for a, b in zip([0] + cuts, cuts + [n])]


def _pred(rng, data, empty=0.0):
    if data.size and rng.random() < empty:
        return ["gt", int(data.max())]
    return B().rand_pred(rng, data)


# ============================================================================= shared reporting


def report(ctx, case, zero_chunk, tag):
    """Evaluate one ordinary C28 case (C28.eval_case / judge / classify / minimise) and record the outcome."""
    base = B()
    res = base.eval_case(case)
    outcome = "refused" if res["da"][0] == "raise" else "value"
    ctx.count((tag, case["op"], case["phase"], outcome))
    if outcome == "refused" and case["phase"] == "before":
        k = f"{tag}.refusals." + res["da"][1]
        ctx.notes[k] = ctx.notes.get(k, 0) + 1
    bad = base.judge(case, res)
    if not bad:
        return False
    sig, what = bad
    sig2 = base.classify(case, sig, zero_chunk)
    if sig2 == sig:
        case = base.minimise(case, sig)
        again = base.judge(case, base.eval_case(case))
        if again:
            what = again[1]
    ctx.sample({"failing": base.describe(case)})
    ctx.fail(sig2, {"case": case, "what": what, "program": base.describe(case)}, what)
    return True


def resolve_and_follow(ctx, src, sel, tag, key, nops, u=0, both=1.0):
    """(a) the selection + its resolution (both graph modes), (b) follow-on catalogue ops before / after."""
    base = B()
    rng = ctx.rng
    info = None
    first = rng.random() < 0.6
    for opt in ((first, not first) if rng.random() < both else (first,)):
        casea = {"src": src, "sel": sel, "op": "compute_chunk_sizes", "phase": "resolve", "opt": opt}
        try:
            probs = base.check_resolve(casea)
        except Exception as e:
            ctx.count((tag, "sel-refused", key, type(e).__name__))
            k = f"{tag}.sel-refused.{type(e).__name__}"
            ctx.notes[k] = ctx.notes.get(k, 0) + 1
            return None
        ctx.count((tag, "resolve", key, opt))
        if probs:
            sig, what = probs[0]
            small = base.minimise_resolve(casea, sig)
            again = [p for p in base.check_resolve(small) if p[0] == sig]
            if again:
                casea, what = small, again[0][1]
            ctx.sample({"failing": base.describe(casea)})
            ctx.fail(sig, {"case": casea, "what": what, "program": base.describe(casea)}, what)
            return None
    with warnings.catch_warnings():
        warnings.simplefilter("ignore")
        want = np.asarray(base.build_sel(sel, src, np))
        y = base.build_sel(sel, src, base_da())
        y.compute_chunk_sizes()
        res_chunks = y.chunks
    if want.size == 0:
        ctx.notes["avoid.zero-size-selection"] = ctx.notes.get("avoid.zero-size-selection", 0) + 1
        return want, res_chunks
    zero_chunk = any(0 in c for c in res_chunks)
    for nm in rng.sample(list(base.UNARY_OPS), nops):
        for phase in ("before", "after"):
            if nm == "mask_again" and want.ndim > 1:
                continue
            if phase == "after" and zero_chunk and nm in base.ZERO_CHUNK_CLASS:
                ctx.notes["avoid.resolved-zero-chunk"] = ctx.notes.get("avoid.resolved-zero-chunk", 0) + 1
                continue
            case = {"src": src, "sel": sel, "op": nm, "phase": phase, "opt": rng.random() < 0.6, "u": u, "o": None}
            report(ctx, case, zero_chunk, tag)
    return want, res_chunks


def base_da():
    import dask_array as da

    return da


def _sync(fn):
    """tiny graphs: the synchronous scheduler halves the wall time (results do not depend on the scheduler)"""
    @functools.wraps(fn)
    def g(*a, **k):
        import dask

        with dask.config.set(scheduler="synchronous"):
            return fn(*a, **k)

    return g


# ============================================================================= stream A: mask chunking grid

MKINDS = ["np", "da_rechunk", "expr", "expr_rechunk", "other_expr"]
FORMS = ["getitem"] * 6 + ["extract", "extract", "ellipsis", "flatnonzero"]


@_sync
def maskgrid(ctx):
    rng = ctx.rng
    for nd in (2, 3) * ctx.scale(1, 3):
        subsets = [tuple(i for i in range(nd) if bits >> i & 1) for bits in range(1 << nd)]
        for Sx in subsets:
            for Sm in subsets:
                shape = [rng.randint(2, 6 if nd == 2 else 4) for _ in range(nd)]
                kinds = ["da", rng.choice(MKINDS)] if nd == 2 else [rng.choice(["da", "da", "da"] + MKINDS)]
                if nd == 2 and rng.random() < ctx.scale(0.5, 1.0):
                    kinds.append(rng.choice(MKINDS))
                for mk in kinds:
                    src = {"op": "src", "shape": shape, "chunks": [_split(rng, n, i in Sx) for i, n in enumerate(shape)],
                           "mul": rng.choice([1, 3, 7]), "off": rng.randint(-3, 3), "mod": rng.choice([1 << 40, 11, 13])}
                    sel = {"kind": "mask_nd", "mkind": mk, "mchunks": [_split(rng, n, i in Sm) for i, n in enumerate(shape)],
                           "wmul": rng.choice([3, 5, 7]), "woff": rng.randint(0, 3), "wmod": rng.choice([5, 7, 11]),
                           "form": rng.choice(FORMS)}
                    data = source_data(src)
                    w = source_data({"shape": shape, "mul": sel["wmul"], "off": sel["woff"], "mod": sel["wmod"]})
                    sel["pred"] = _pred(rng, data if mk in ("expr", "expr_rechunk") else w, empty=0.05)
                    resolve_and_follow(ctx, src, sel, "maskgrid", (nd, Sx, Sm, mk, sel["form"]), nops=ctx.scale(2 if nd == 2 else 1, 6), both=ctx.scale(0.3, 1.0))


# ============================================================================= stream C: chained basic indexing


def _rand_known_index(rng, L, allow_int=True):
    """(entry, new length or None when the axis is dropped); never an empty result"""
    r = rng.random()
    if r < 0.2:
        return ["s", None, None, None], L
    if allow_int and r < 0.32:
        k = rng.randrange(L)
        return ["i", k if rng.random() < 0.7 else k - L], None
    step = rng.choice([1, 1, 1, 2, -1, -2, 3])
    a = rng.randrange(L)
    b = rng.randrange(L)
    lo, hi = min(a, b), max(a, b) + 1  # forward window [lo, hi)
    if step > 0:
        start = lo if rng.random() < 0.8 or lo == 0 else lo - L
        stop = hi if rng.random() < 0.7 else (None if rng.random() < 0.5 else hi)
        sl = slice(start, stop, step)
    else:
        start = hi - 1
        stop = lo - 1 if lo > 0 else None
        sl = slice(start, stop, step)
    n = len(range(*sl.indices(L)))
    if n == 0:
        return ["s", None, None, None], L
    return ["s", sl.start, sl.stop, None if sl.step == 1 and rng.random() < 0.5 else sl.step], n


def gen_chain(rng, nd=None):
    nd = nd or rng.choice([2, 2, 3])
    u = rng.randrange(nd)
    shape = [rng.randint(3, 8) for _ in range(nd)]
    src = {"op": "src", "shape": shape, "chunks": [list(c) for c in rand_chunks_nd(rng, tuple(shape))],
           "mul": rng.choice([1, 3, 7]), "off": rng.randint(-3, 3), "mod": rng.choice([1 << 40, 11, 13])}
    sel = {"kind": rng.choice(["mask_axis", "mask_axis", "compress"]), "axis": u,
           "vmul": rng.choice([1, 3, 7]), "vmod": rng.choice([1 << 40, 5, 4])}
    v = (np.arange(shape[u], dtype=np.int64) * sel["vmul"]) % sel["vmod"]
    sel["pred"] = B().rand_pred(rng, v)
    if rng.random() < 0.15:
        sel["vchunks"] = list(gen.rand_chunks(rng, shape[u]))
    axes = [None if i == u else n for i, n in enumerate(shape)]  # None = the unknown axis
    chain = []
    for _ in range(rng.choice([2, 2, 3])):
        step, nxt = [], []
        known_left = sum(1 for a in axes if a is not None)
        for a in axes:
            if a is None:
                step.append(["s", None, None, None])
                nxt.append(None)
                continue
            e, n = _rand_known_index(rng, a, allow_int=known_left > 1 or rng.random() < 0.3)
            step.append(e)
            if n is not None:
                nxt.append(n)
            else:
                known_left -= 1
        # surface forms of the same index: leading full slice as Ellipsis, trailing full slices omitted
        if step and step[0] == ["s", None, None, None] and rng.random() < 0.25:
            step[0] = ["e"]
        elif len(step) > 1 and step[-1] == ["s", None, None, None] and rng.random() < 0.35:
            step.pop()
        chain.append(step)
        axes = nxt
    ua = axes.index(None)
    known_axes = [i for i, a in enumerate(axes) if a is not None]
    reds = [["sum", None], ["sum", None], ["sum", ua], ["max", None], ["mean", ua], ["none", None], ["cumsum", ua], ["count", None], ["min", ua]]
    if known_axes:
        k = rng.choice(known_axes)
        reds += [["sum", k], ["max", k], ["cumsum", k], ["mean", k]]
    return src, sel, chain, rng.choice(reds), u


def _fix03bfd73():
    """y = x[mask1d]; y[:, 1:5][:, 1:3].sum() returned 0 (fused slices normalised against nan) — fixed by /repo 03bfd73"""
    s = ["s", None, None, None]
    out = []
    src = {"op": "src", "shape": [6, 7], "chunks": [[2, 2, 2], [4, 3]], "mul": 1, "off": 0, "mod": 1 << 40}
    sel = {"kind": "mask_axis", "axis": 0, "vmul": 1, "vmod": 1 << 40, "pred": ["mod", 2]}
    for red in (["sum", None], ["none", None], ["sum", 0], ["max", 1]):
        for chain in ([[s, ["s", 1, 5, None]], [s, ["s", 1, 3, None]]],
                      [[s, ["s", 1, 5, None]], [s, ["s", 1, 3, None]], [s, ["s", 0, 1, None]]],
                      [[["e"], ["s", 1, 5, None]], [s, ["s", None, None, -1]]],
                      [[s, ["s", None, None, 2]], [s, ["i", 1]]]):
            out.append((src, sel, chain, red, 0))
    src2 = {"op": "src", "shape": [5, 6], "chunks": [[2, 3], [3, 3]], "mul": 3, "off": 1, "mod": 11}
    sel2 = {"kind": "compress", "axis": 1, "vmul": 1, "vmod": 1 << 40, "pred": ["out", 2, 3]}
    out.append((src2, sel2, [[["s", 1, 5, None], s], [["s", 1, 3, None], s]], ["sum", None], 1))
    out.append((src2, sel2, [[["s", 1, 5, None]], [["s", 1, 3, None]]], ["sum", 0], 1))
    return out


EMPTY_MINMAX = "unknown-empty-block:minmax-wrong-shape"
CHAIN_PROBES = [
    # min/max along a KNOWN axis of an unknown-chunk array one of whose blocks is really empty: mostly refused (an
    # exception from the block placeholder), but with the empty block FIRST and the other known axis split it
    # returns a wrongly shaped value
    (EMPTY_MINMAX,
     {"src": {"op": "src", "shape": [1, 2, 2], "chunks": [[1], [1, 1], [1, 1]], "mul": 1, "off": 0, "mod": 1 << 40},
      "sel": {"kind": "mask_axis", "axis": 1, "vmul": 1, "vmod": 1 << 40, "pred": ["gt", 0]},
      "op": "chain", "chain": [[["s", None, None, None]]], "red": ["max", 0], "phase": "before", "opt": True, "u": 1, "o": None},
     "a=arange(4).reshape(1,2,2); x=from_array(a, chunks=((1,),(1,1),(1,1))); y=x[:, from_array([False,True], chunks=1)]; "
     "y.max(axis=0).compute() has shape (2,0), NumPy [[2,3]] (min likewise; also after compute_chunk_sizes)"),
]


def _chain_zero_chunk(case):
    """does the resolved selection, or any intermediate of the chain, carry a zero-length chunk?"""
    base = B()
    try:
        with warnings.catch_warnings():
            warnings.simplefilter("ignore")
            a = base.build_sel(case["sel"], case["src"], base_da())
            a.compute_chunk_sizes()
            if any(0 in d for d in a.chunks):
                return True
            for st in case["chain"]:
                a = a[base._dec_index(st)]
                if any(0 in d for d in a.chunks):
                    return True
    except Exception:
        return False
    return False


def classify_chain(case, sig):
    red = case.get("red") or ["none", None]
    if sig in ("wrong-result", "advertised-shape") and red[0] in ("max", "min") and _has_empty_block(case["src"], case["sel"]):
        return EMPTY_MINMAX
    if sig in ("wrong-result", "advertised-shape"):
        return "chain:" + sig
    if sig.startswith("after-resolve:refused") and red[0] in ("max", "min") and _chain_zero_chunk(case):
        # a slice that ends inside a block leaves a zero-length chunk on a KNOWN axis (also on plain arrays:
        # from_array(a(7x6), chunks=((5,2),(6,)))[-3:6:2].min(axis=1) raises): the listed min/max family
        return "resolved-zero-chunk:minmax"
    if sig.startswith("after-resolve:refused"):
        return "after-resolve:refused:chain:" + red[0]
    return sig


def _has_empty_block(src, sel):
    t = _true_chunks(src, sel)
    return t is None or any(0 in d for d in t)


@_sync
def chains(ctx):
    rng = ctx.rng
    base = B()
    for sig, pc, what in CHAIN_PROBES:
        bad = base.judge(pc, base.eval_case(pc))
        ctx.count(("chain-probe", sig))
        if bad:
            ctx.fail(sig, {"case": pc, "what": bad[1], "program": base.describe(pc)}, what)
        else:
            ctx.notes["probe_no_longer_fails." + sig] = ctx.notes.get("probe_no_longer_fails." + sig, 0) + 1
    progs = _fix03bfd73() + [gen_chain(rng) for _ in range(ctx.scale(70, 900))]
    ncorpus = len(_fix03bfd73())
    for i, (src, sel, chain, red, u) in enumerate(progs):
        for phase, opt in ((("before", True), ("before", False), ("after", True)) if i < ncorpus else (("before", rng.random() < 0.7), ("after", rng.random() < 0.7))):
            case = {"src": src, "sel": sel, "op": "chain", "chain": chain, "red": red, "phase": phase, "opt": opt, "u": u, "o": None}
            if phase == "after" and red[0] in ("max", "min"):
                t = _true_chunks(src, sel)
                if t is None or any(0 in d for d in t):
                    # family resolved-zero-chunk:minmax (min/max over arrays holding zero-length chunks): dedicated probe in C28.PROBES
                    ctx.notes["avoid.resolved-zero-chunk"] = ctx.notes.get("avoid.resolved-zero-chunk", 0) + 1
                    continue
            res = base.eval_case(case)
            outcome = "refused" if res["da"][0] == "raise" else "value"
            ctx.count(("chain", len(chain), red[0], red[1] is None, phase, outcome, sum(e[0] == "i" for st in chain for e in st)))
            bad = base.judge(case, res)
            if not bad:
                continue
            sig, what = bad
            sig = classify_chain(case, sig)
            ctx.sample({"failing": base.describe(case)})
            ctx.fail(sig, {"case": case, "what": what, "program": base.describe(case)}, what)


# ============================================================================= stream B: known/unknown mixes


def _wrap(o, k):
    for _ in range(k):
        o = [o]
    return o


def _ax(a, ax, i):
    return a[(slice(None),) * ax + (i,)]


def _red(f, A):
    return functools.reduce(f, A)


MIX_OPS = {
    # ---- inputs with independent lengths along c["ax"]
    "concatenate": lambda m, A, c: m.concatenate(A, axis=c["ax"]),
    "concatenate_negax": lambda m, A, c: m.concatenate(A, axis=c["ax"] - c["nd"]),
    "concatenate_tuple": lambda m, A, c: m.concatenate(tuple(A), c["ax"]),
    "vstack": lambda m, A, c: m.vstack(A),
    "hstack": lambda m, A, c: m.hstack(A),
    "dstack": lambda m, A, c: m.dstack(A),
    "append": lambda m, A, c: _red(lambda p, q: m.append(p, q, axis=c["ax"]), A),
    "append_flat": lambda m, A, c: _red(lambda p, q: m.append(p, q), A),
    "block": lambda m, A, c: m.block([_wrap(o, c["nd"] - c["ax"] - 1) for o in A]),
    "union1d": lambda m, A, c: _red(m.union1d, A),
    "outer": lambda m, A, c: m.outer(A[0], A[1]),
    "isin": lambda m, A, c: m.isin(A[0], A[1]),
    "tensordot_o": lambda m, A, c: m.tensordot(A[0], A[1], axes=((c["o"],), (c["o"],))),
    "concat_sum": lambda m, A, c: m.concatenate(A, axis=c["ax"]).sum(axis=c["ax"]),
    "concat_sum_all": lambda m, A, c: m.concatenate(A, axis=c["ax"]).sum(),
    "concat_slice": lambda m, A, c: _ax(m.concatenate(A, axis=c["ax"]), c["ax"], slice(1, -1)),
    "concat_rev": lambda m, A, c: _ax(m.concatenate(A, axis=c["ax"]), c["ax"], slice(None, None, -1)),
    "concat_concat": lambda m, A, c: m.concatenate([m.concatenate(A[:-1], axis=c["ax"]), A[-1]], axis=c["ax"]),
    # ---- inputs that share the (unknown) shape
    "stack0": lambda m, A, c: m.stack(A, axis=0),
    "stack_last": lambda m, A, c: m.stack(A, axis=-1),
    "where": lambda m, A, c: m.where(A[0] > c["t"], A[1 % len(A)], A[-1]),
    "add": lambda m, A, c: _red(lambda p, q: p + q, A),
    "maximum": lambda m, A, c: _red(m.maximum, A),
    "tensordot_u": lambda m, A, c: m.tensordot(A[0], A[1], axes=((c["ax"],), (c["ax"],))),
    "concat_other": lambda m, A, c: m.concatenate(A, axis=c["o"]),
    "concat_other_allow": lambda m, A, c: m.concatenate(A, axis=c["o"]) if m is np else m.concatenate(A, axis=c["o"], allow_unknown_chunksizes=True),
}
JOIN_OPS = ["concatenate", "concatenate_negax", "concatenate_tuple", "vstack", "hstack", "dstack", "append", "append_flat", "block",
            "union1d", "outer", "isin", "tensordot_o", "concat_sum", "concat_sum_all", "concat_slice", "concat_rev", "concat_concat"]
SAME_OPS = ["stack0", "stack_last", "where", "add", "maximum", "tensordot_u", "concat_other", "concat_other_allow"]
ELEMWISE = {"where", "add", "maximum"}
STILL_UNKNOWN_OK = {"union1d"}
DTYPES = {"i8": np.int64, "f8": np.float64, "i4": np.int32}


def build_operands(m, case):
    base = B()
    specs = case["operands"]
    A = [None] * len(specs)
    for i, sp in enumerate(specs):
        if sp["k"] == "K":
            data = source_data(sp["src"]).astype(DTYPES[sp.get("dtype", "i8")])
            A[i] = data if m is np else m.from_array(data, chunks=tuple(tuple(c) for c in sp["src"]["chunks"]))
        elif sp["k"] == "U":
            A[i] = base.build_sel(sp["sel"], sp["src"], m)
            if m is not np and sp.get("resolve"):
                A[i].compute_chunk_sizes()
    for i, sp in enumerate(specs):
        if sp["k"] == "Ud":
            A[i] = A[sp["of"]] * 2 + 1
        elif sp["k"] == "Km":
            # a known array with the TRUE shape of operand sp["of"] (chunks stored in the case)
            shape = tuple(sum(c) for c in sp["chunks"])
            n = int(np.prod(shape))
            data = ((np.arange(n, dtype=np.int64) * sp.get("mul", 1) + sp.get("off", 0)) % sp.get("mod", 1 << 40)).reshape(shape)
            A[i] = data if m is np else m.from_array(data, chunks=tuple(tuple(c) for c in sp["chunks"]))
    return A


def eval_mix(case):
    import dask
    import dask_array as da

    base = B()
    f = MIX_OPS[case["op"]]
    out = {"post": []}
    with warnings.catch_warnings():
        warnings.simplefilter("ignore")
        try:
            out["np"] = ("ok", f(np, build_operands(np, case), case))
        except Exception as e:
            out["np"] = ("raise", type(e).__name__)
        with dask.config.set({"array.optimize-graph": bool(case.get("opt", True))}):
            try:
                r = f(da, build_operands(da, case), case)
                if isinstance(r, da.Array):
                    shp, cks = r.shape, r.chunks
                    v = r.compute()
                    out["da"] = ("ok", v, shp, cks)
                else:
                    out["da"] = ("ok", r, None, None)
            except Exception as e:
                out["da"] = ("raise", type(e).__name__, str(e)[:160].replace("\n", " "))
                return out
            if isinstance(r, da.Array) and out["np"][0] == "ok" and r.ndim:
                # chunks advertised as known must be the block sizes; resolving the RESULT must give the true sizes
                try:
                    true = base.block_shapes(r)
                    for idx, shp_b in true.items():
                        for ax, (j, s) in enumerate(zip(idx, shp_b)):
                            c = cks[ax][j]
                            if not _nan(c) and int(c) != s:
                                out["post"].append(("advertised-known-chunk-wrong", f"block {idx}: advertised chunks {cks}, true block shape {shp_b}"))
                                break
                    if any(_nan(c) for d in cks for c in d):
                        r.compute_chunk_sizes()
                        rc = r.chunks
                        ok = all(not _nan(c) for d in rc for c in d) and all(
                            tuple(rc[ax][j] for ax, j in enumerate(idx)) == tuple(s) for idx, s in true.items())
                        if not ok:
                            out["post"].append(("compute_chunk_sizes:sizes", f"resolving the result gives chunks {rc}, true block shapes {sorted(true.items())}"))
                        elif tuple(r.shape) != np.asarray(out["np"][1]).shape or not base.same(r.compute(), out["np"][1]):
                            out["post"].append(("compute_chunk_sizes:shape", f"resolved result has shape {r.shape}, NumPy {np.asarray(out['np'][1]).shape}"))
                except Exception as e:
                    if case["phase"] == "after":
                        out["post"].append(("after-resolve:refused:result-resolution", f"{type(e).__name__}: {str(e)[:120]}"))
    return out


def judge_mix(case, res):
    base = B()
    npo, dao = res["np"], res["da"]
    op = case["op"]
    if npo[0] == "raise":
        return None  # the program has no NumPy value
    if dao[0] == "raise":
        if case["phase"] != "after":
            return None  # a refusal while sizes are unknown
        return (f"mix:after-resolve:refused:{op}", f"all inputs resolved, yet the operation raises {dao[1]}: {dao[2]}")
    if not base.same(dao[1], npo[1]):
        g, w = base.canon(dao[1]), base.canon(npo[1])
        return (f"mix:wrong-result:{op}", f"got shape {g.shape} {g.tolist()!r:.100} want shape {w.shape} {w.tolist()!r:.100}")
    if dao[2] is not None:
        want_shape = base.canon(npo[1]).shape
        adv = dao[2]
        if len(adv) != len(want_shape) or any(not _nan(s) and int(s) != w for s, w in zip(adv, want_shape)):
            return (f"mix:advertised-shape:{op}", f"advertised shape {adv} vs computed {want_shape}")
        if case["phase"] == "after" and any(_nan(s) for s in adv) and op not in STILL_UNKNOWN_OK:
            return (f"mix:after-resolve:still-unknown:{op}", f"advertised shape {adv} still unknown although every input is resolved")
    if res.get("post"):
        sig, what = res["post"][0]
        return (f"mix:{sig}:{op}" if not sig.startswith("after-resolve") else f"mix:{sig}", what)
    return None


def describe_mix(case):
    out = []
    for i, sp in enumerate(case["operands"]):
        if sp["k"] == "K":
            s = sp["src"]
            out.append(f"A{i} = da.from_array(source_data({{shape:{s['shape']}, mul:{s['mul']}, off:{s['off']}, mod:{s['mod']}}}).astype({sp.get('dtype', 'i8')}), chunks={s['chunks']})")
        elif sp["k"] == "U":
            s = sp["src"]
            out.append(f"A{i} = select(da.from_array(source_data({{shape:{s['shape']}, mul:{s['mul']}, off:{s['off']}, mod:{s['mod']}}}), chunks={s['chunks']}), {sp['sel']})"
                       + ("; A%d.compute_chunk_sizes()" % i if sp.get("resolve") else ""))
        elif sp["k"] == "Ud":
            out.append(f"A{i} = A{sp['of']} * 2 + 1")
        else:
            out.append(f"A{i} = da.from_array(((arange(prod(shape))*{sp.get('mul', 1)}+{sp.get('off', 0)})%{sp.get('mod', 1 << 40)}).reshape(true shape of A{sp['of']}), chunks={sp['chunks']})")
    out.append(f"result = mix_op[{case['op']}]([A0..A{len(case['operands']) - 1}]; ax={case['ax']}, o={case.get('o')}, t={case.get('t')})  [phase={case['phase']}, optimize-graph={case.get('opt', True)}]")
    return "; ".join(out)


def _rand_src(rng, shape, mod=None):
    return {"op": "src", "shape": list(shape), "chunks": [list(c) for c in rand_chunks_nd(rng, tuple(shape))],
            "mul": rng.choice([1, 1, 3, 7]), "off": rng.randint(-3, 3), "mod": mod or rng.choice([1 << 40, 11, 13])}


def gen_unknown(rng, nd, ax, other):
    """(src, sel) of an array with `nd` axes whose axis `ax` is unknown and whose other axes have lengths `other`"""
    base = B()
    if nd == 1:
        r = rng.random()
        if r < 0.25:
            shape = [rng.randint(2, 4), rng.randint(2, 4)]
            src = _rand_src(rng, shape)
            sel = {"kind": "mask_nd", "mkind": rng.choice(["da", "da", "np", "expr", "other_expr"]),
                   "mchunks": [list(c) for c in rand_chunks_nd(rng, tuple(shape))], "wmul": rng.choice([3, 5, 7]), "woff": rng.randint(0, 3),
                   "wmod": rng.choice([5, 7, 11]), "form": "getitem"}
            w = source_data({"shape": shape, "mul": sel["wmul"], "off": sel["woff"], "mod": sel["wmod"]})
            sel["pred"] = _pred(rng, source_data(src) if sel["mkind"] == "expr" else w, empty=0.08)
            return src, sel
        for _ in range(20):
            src = base.gen_source(rng, ndim=rng.choice([1, 1, 1, 2]))
            sel = base.gen_sel(rng, src)
            if sel["kind"] == "argwhere":
                continue
            if len(src["shape"]) > 1 and sel["kind"] in ("mask_axis", "compress"):
                continue
            if rng.random() < 0.08:
                data = source_data(src)
                if sel["kind"] not in ("mask_axis", "compress", "unique"):
                    sel["pred"] = ["gt", int(data.max())]
            return src, sel
    if nd == 2 and ax == 0 and other[0] in (1, 2, 3) and rng.random() < 0.2:
        shape = [rng.randint(1, 4) for _ in range(other[0])]
        src = _rand_src(rng, shape)
        return src, {"kind": "argwhere", "pred": _pred(rng, source_data(src), empty=0.08)}
    shape = list(other)
    shape.insert(ax, rng.randint(1, 6))
    src = _rand_src(rng, shape)
    sel = {"kind": rng.choice(["mask_axis", "mask_axis", "compress"]), "axis": ax, "vmul": rng.choice([1, 3, 7]), "vmod": rng.choice([1 << 40, 5, 4])}
    v = (np.arange(shape[ax], dtype=np.int64) * sel["vmul"]) % sel["vmod"]
    sel["pred"] = _pred(rng, v, empty=0.08)
    if rng.random() < 0.15:
        sel["vchunks"] = list(gen.rand_chunks(rng, shape[ax]))
    return src, sel


def _true_chunks(src, sel):
    """resolved chunks of the selection (None when the selection is refused)"""
    base = B()
    try:
        with warnings.catch_warnings():
            warnings.simplefilter("ignore")
            y = base.build_sel(sel, src, base_da())
            y.compute_chunk_sizes()
            return [[int(c) for c in d] for d in y.chunks]
    except Exception:
        return None


def _phases(rng, pattern):
    nu = sum(1 for p in pattern if p == "U")
    if nu == 0:
        return [("known", [False] * len(pattern))]
    out = [("before", [False] * len(pattern)), ("after", [p == "U" for p in pattern])]
    if nu >= 2 and rng.random() < 0.6:
        flags = [False] * len(pattern)
        us = [i for i, p in enumerate(pattern) if p == "U"]
        for i in rng.sample(us, rng.randint(1, nu - 1)):
            flags[i] = True
        out.append(("partial", flags))
    return out


def _join_dims(rng, op):
    if op in ("union1d", "outer", "isin"):
        return 1, 0
    if op == "vstack":
        nd = rng.choice([2, 2, 3])
        return nd, 0
    if op == "hstack":
        nd = rng.choice([1, 2, 2, 3])
        return nd, 0 if nd == 1 else 1
    if op == "dstack":
        return 3, 2
    if op == "tensordot_o":
        nd = rng.choice([2, 2, 3])
        return nd, rng.randrange(nd)
    nd = rng.choice([1, 2, 2, 3])
    return nd, rng.randrange(nd)


def gen_join(ctx):
    """every op x every K/U pattern; inputs have independent lengths along the joining axis"""
    rng = ctx.rng
    for op in JOIN_OPS:
        for n in (2, 3):
            if n == 3 and op in ("outer", "isin", "tensordot_o"):
                continue
            pats = [p for p in itertools.product("KU", repeat=n) if "U" in p or n == 2]
            if n == 3:
                pats = rng.sample(pats, ctx.scale(4, len(pats)))
            for pattern in pats:
                nd, ax = _join_dims(rng, op)
                other = [rng.randint(1, 4) for _ in range(nd - 1)]
                operands = []
                for p in pattern:
                    if p == "K":
                        shape = list(other)
                        shape.insert(ax, 0 if rng.random() < 0.1 else rng.randint(1, 5))
                        sp = {"k": "K", "src": _rand_src(rng, shape)}
                        if rng.random() < 0.15:
                            sp["dtype"] = rng.choice(["f8", "i4"])
                        operands.append(sp)
                    else:
                        src, sel = gen_unknown(rng, nd, ax, other)
                        operands.append({"k": "U", "src": src, "sel": sel})
                o = None
                if nd >= 2:
                    o = rng.choice([i for i in range(nd) if i != ax])
                for phase, flags in _phases(rng, pattern):
                    ops2 = []
                    for sp, fl in zip(operands, flags):
                        sp = dict(sp)
                        if sp["k"] == "U":
                            sp["resolve"] = bool(fl)
                        ops2.append(sp)
                    yield {"stream": "mix", "op": op, "nd": nd, "ax": ax, "o": o, "operands": ops2, "phase": phase,
                           "opt": rng.random() < 0.6, "pattern": "".join(pattern)}


def _km_chunks(rng, true, ax, mode):
    """chunks of a known partner with the true shape: along ax aligned / other block count / same count mis-aligned"""
    n = sum(true[ax])
    cks = [list(gen.rand_chunks(rng, sum(d))) for d in true]
    nb = len(true[ax])
    if mode == "aligned":
        cks[ax] = list(true[ax])
    elif mode == "other-count":
        for _ in range(20):
            c = list(gen.rand_chunks(rng, n))
            if len(c) != nb:
                cks[ax] = c
                break
        else:
            return None
    else:  # same count, different sizes
        if nb < 2 or n < nb:
            return None
        for _ in range(20):
            cuts = sorted(rng.sample(range(1, n), nb - 1))
            c = [b - a for a, b in zip([0] + cuts, cuts + [n])]
            if c != list(true[ax]):
                cks[ax] = c
                break
        else:
            return None
    return cks


def gen_same(ctx):
    """ops whose inputs share the unknown shape: the selection U, a derived Ud, the same selection of other data U2,
    a known partner Km of the true shape, in every order"""
    rng = ctx.rng
    pats2 = [("U", "Km"), ("Km", "U"), ("U", "Ud"), ("Ud", "U"), ("U", "U2"), ("U2", "U")]
    pats3 = [p for p in itertools.product(("U", "Km", "U2"), repeat=3) if "U" in p and p.count("U") == 1 and p != ("U", "U", "U")]
    for op in SAME_OPS:
        pats = list(pats2)
        if op in ("where", "add", "maximum", "stack0", "concat_other"):
            pats += rng.sample(pats3, ctx.scale(5, len(pats3)))
        if op == "tensordot_u":
            pats = pats2
        for pat in pats:
            for mode in (("aligned", "other-count", "same-count") if "Km" in pat else ("-",)):
                nd = rng.choice([1, 2, 2, 3])
                if op.startswith("concat_other") and nd == 1:
                    nd = 2
                ax = rng.randrange(nd)
                other = [rng.randint(1, 4) for _ in range(nd - 1)]
                for _ in range(8):
                    if nd == 1:
                        src, sel = gen_unknown(rng, 1, 0, [])
                    else:
                        src, sel = gen_unknown(rng, nd, ax, other)
                    if "U2" in pat and sel["kind"] not in ("mask_axis", "compress", "mask_nd"):
                        continue  # U2 needs a mask that does not depend on the data
                    if "U2" in pat and sel["kind"] == "mask_nd" and sel["mkind"] == "expr":
                        continue
                    true = _true_chunks(src, sel)
                    if true is not None and all(sum(d) > 0 for d in true):
                        break
                else:
                    continue
                if sel["kind"] == "argwhere":
                    other = [len(src["shape"])]
                operands, ok = [], True
                iu = pat.index("U")
                for p in pat:
                    if p == "U":
                        operands.append({"k": "U", "src": src, "sel": sel})
                    elif p == "U2":
                        s2 = dict(src)
                        s2["mul"], s2["off"] = rng.choice([2, 5, 9]), rng.randint(-5, 5)
                        if rng.random() < 0.5 and sel["kind"] in ("mask_axis", "compress") and "vchunks" not in sel:
                            # other chunking on the KNOWN axes only (the unknown axis must keep its block structure)
                            cks = [list(c) for c in rand_chunks_nd(rng, tuple(src["shape"]))]
                            cks[sel["axis"]] = list(src["chunks"][sel["axis"]])
                            s2["chunks"] = cks
                        operands.append({"k": "U", "src": s2, "sel": sel})
                    elif p == "Ud":
                        operands.append({"k": "Ud", "of": iu})
                    else:
                        cks = _km_chunks(rng, true, ax if sel["kind"] != "argwhere" else 0, mode)
                        if cks is None:
                            ok = False
                            break
                        operands.append({"k": "Km", "of": iu, "chunks": cks, "mul": rng.choice([1, 3, 10]), "off": rng.randint(-2, 2), "mod": rng.choice([1 << 40, 17])})
                if not ok:
                    continue
                if sel["kind"] == "argwhere":
                    nd, ax = 2, 0
                o = rng.choice([i for i in range(nd) if i != ax]) if nd >= 2 else None
                if o is None and op.startswith("concat_other"):
                    continue
                pattern = ["U" if sp["k"] == "U" else "K" for sp in operands]
                for phase, flags in _phases(rng, pattern):
                    if phase == "before" and op in ELEMWISE and mode == "same-count":
                        # family unknown-elemwise-positional-blocks (dedicated probes in C28.PROBES)
                        ctx.notes["avoid.positional-blocks"] = ctx.notes.get("avoid.positional-blocks", 0) + 1
                        continue
                    if phase == "partial" and op in ELEMWISE and mode == "same-count":
                        ctx.notes["avoid.positional-blocks"] = ctx.notes.get("avoid.positional-blocks", 0) + 1
                        continue
                    ops2 = []
                    for sp, fl in zip(operands, flags):
                        sp = dict(sp)
                        if sp["k"] == "U":
                            sp["resolve"] = bool(fl)
                        ops2.append(sp)
                    yield {"stream": "mix", "op": op, "nd": nd, "ax": ax, "o": o, "t": rng.randint(0, 6), "operands": ops2, "phase": phase,
                           "opt": rng.random() < 0.6, "pattern": "/".join(pat) + ":" + mode}


def _zero_chunk(case):
    for sp in case["operands"]:
        if sp["k"] == "U":
            t = _true_chunks(sp["src"], sp["sel"])
            if t is not None and any(0 in d for d in t):
                return True
        if sp["k"] == "K" and any(0 in c for c in sp["src"]["chunks"]):
            return True
    if case.get("stream") == "validity":
        from harness.props_ext import c28_validity

        return c28_validity.replay(ctx, case, sig)
    return False


MIX_ZERO_CHUNK_CLASS = {"append_flat": "reshape"}
UNIFY_SKIP = "unknown-unify-known-operand-not-rechunked"


def _unify_skip_family(case):
    """Family UNIFY_SKIP: an elementwise op over (i) an operand that still has unknown chunks and (ii) a FULLY KNOWN
    operand whose chunking of some KNOWN axis differs from another operand's: unify_chunks_expr skips the rechunk of
    a fully known operand altogether as soon as the unified layout holds a nan on any axis ("can't rechunk to nan
    sizes"), also on the axes whose unified layout is known, so its blocks are paired / broadcast mis-aligned."""
    if case["op"] not in ELEMWISE or case["phase"] == "after":
        return False
    try:
        with warnings.catch_warnings():
            warnings.simplefilter("ignore")
            A = build_operands(base_da(), case)
    except Exception:
        return False
    cks = [a.chunks for a in A]
    nd = max(len(c) for c in cks)
    cks = [((None,) * (nd - len(c))) + tuple(c) for c in cks]  # broadcasting aligns trailing axes
    unknown = [c for c in cks if any(d is not None and any(_nan(v) for v in d) for d in c)]
    known = [c for c in cks if c not in unknown]
    if not unknown or not known:
        return False
    for k in known:
        for j in range(nd):
            if k[j] is None or sum(k[j]) <= 1:
                continue
            for other in cks:
                if other is k or other[j] is None or any(_nan(v) for v in other[j]) or sum(other[j]) <= 1:
                    continue
                if tuple(other[j]) != tuple(k[j]):
                    return True
    if case.get("stream") == "validity":
        from harness.props_ext import c28_validity

        return c28_validity.replay(ctx, case, sig)
    return False


def classify_mix(case, sig):
    """documented families that also show through the mixes (same defects, reached through another call)"""
    if sig.startswith("mix:after-resolve:refused:") and case["op"] in MIX_ZERO_CHUNK_CLASS and _zero_chunk(case):
        return "resolved-zero-chunk:" + MIX_ZERO_CHUNK_CLASS[case["op"]]
    if (sig.startswith("mix:wrong-result:") or sig.startswith("mix:advertised-shape:")) and _unify_skip_family(case):
        return UNIFY_SKIP
    return sig


def _s(shape, chunks, mul=1, off=0, mod=1 << 40):
    return {"op": "src", "shape": list(shape), "chunks": [list(c) for c in chunks], "mul": mul, "off": off, "mod": mod}


_ODD_ROWS = {"kind": "mask_axis", "axis": 0, "vmul": 1, "vmod": 1 << 40, "pred": ["mod", 2]}  # rows 1, 3: true blocks (1, 1)
MIX_PROBES = [
    # (signature, case, what): dedicated probes of families found through this stream (fail while the defect exists)
    (UNIFY_SKIP,
     {"stream": "mix", "op": "add", "nd": 2, "ax": 0, "o": 1, "t": 0, "phase": "before", "opt": True, "pattern": "probe",
      "operands": [{"k": "U", "src": _s([4, 2], [[2, 2], [1, 1]]), "sel": _ODD_ROWS, "resolve": False},
                   {"k": "Km", "of": 0, "chunks": [[1, 1], [2]], "mul": 10, "off": 0, "mod": 1 << 40}]},
     "x=from_array(arange(8).reshape(4,2), chunks=((2,2),(1,1))); y=x[from_array([F,T,F,T], chunks=2)]; "
     "k=from_array(arange(4).reshape(2,2)*10, chunks=((1,1),(2,))); (y+k).compute() has shape (2,4) [[2,12,3,13],[26,36,27,37]], "
     "NumPy [[2,13],[26,37]]: k is not rechunked to (1,1) along the KNOWN axis 1 because the unified layout of axis 0 is unknown"),
    (UNIFY_SKIP,
     {"stream": "mix", "op": "where", "nd": 2, "ax": 0, "o": 1, "t": 2, "phase": "partial", "opt": False, "pattern": "probe",
      "operands": [{"k": "U", "src": _s([4, 2], [[2, 2], [2]]), "sel": _ODD_ROWS, "resolve": True},
                   {"k": "U", "src": _s([4, 2], [[2, 2], [1, 1]], mul=3), "sel": _ODD_ROWS, "resolve": False},
                   {"k": "Ud", "of": 1}]},
     "the fully known operand may itself be a RESOLVED selection: where(a > 2, b, b*2+1) with a resolved, chunked ((1,1),(2,)), b unresolved, chunked ((nan,nan),(1,1))"),
]


def minimise_mix(case, sig, budget=30):
    """greedy shrink: fewer operands, single-chunk known axes, shorter sources (the signature must stay the same)"""
    import copy

    left = [budget]

    def fails(c):
        if left[0] <= 0:
            return False
        left[0] -= 1
        try:
            b = judge_mix(c, eval_mix(c))
        except Exception:
            return False
        return bool(b) and classify_mix(c, b[0]) == sig

    best = case
    plain = all(sp["k"] in ("K", "U") for sp in case["operands"])
    changed = True
    while changed and left[0] > 0:
        changed = False
        if plain and len(best["operands"]) > 2:
            for i in range(len(best["operands"])):
                c = copy.deepcopy(best)
                del c["operands"][i]
                us = [sp for sp in c["operands"] if sp["k"] == "U"]
                if c["phase"] == "partial":
                    c["phase"] = "after" if all(sp.get("resolve") for sp in us) else "before" if not any(sp.get("resolve") for sp in us) else "partial"
                if fails(c):
                    best, changed = c, True
                    break
            if changed:
                continue
        for i, sp in enumerate(best["operands"]):
            if sp["k"] not in ("K", "U") or not plain:
                continue
            src = sp["src"]
            for ax, n in enumerate(src["shape"]):
                cands = []
                if len(src["chunks"][ax]) > 1 and not (sp["k"] == "U" and sp["sel"].get("mchunks")):
                    c = copy.deepcopy(best)
                    c["operands"][i]["src"]["chunks"][ax] = [n]
                    c["operands"][i].get("sel", {}).pop("vchunks", None)
                    cands.append(c)
                if n > 1 and ax == best["ax"] and len(src["shape"]) == best["nd"] and not (sp["k"] == "U" and (sp["sel"].get("mchunks") or sp["sel"].get("vchunks"))):
                    c = copy.deepcopy(best)
                    s2 = c["operands"][i]["src"]
                    s2["shape"][ax] = n - 1
                    s2["chunks"][ax][-1] -= 1
                    if s2["chunks"][ax][-1] == 0 and len(s2["chunks"][ax]) > 1:
                        s2["chunks"][ax].pop()
                    cands.append(c)
                for c in cands:
                    if fails(c):
                        best, changed = c, True
                        break
                if changed:
                    break
            if changed:
                break
    return best


def run_mix_case(ctx, case):
    res = eval_mix(case)
    outcome = "refused" if res["da"][0] == "raise" else ("no-numpy-value" if res["np"][0] == "raise" else "value")
    ctx.count(("mix", case["op"], case.get("pattern"), case["phase"], outcome))
    if outcome == "refused" and case["phase"] != "after":
        k = "mix.refusals." + res["da"][1]
        ctx.notes[k] = ctx.notes.get(k, 0) + 1
    bad = judge_mix(case, res)
    if not bad:
        return False
    sig, what = bad
    sig = classify_mix(case, sig)
    nmin = ctx.notes.get("mix.minimised", 0)
    if nmin < 6:
        ctx.notes["mix.minimised"] = nmin + 1
        small = minimise_mix(case, sig)
        again = judge_mix(small, eval_mix(small))
        if again and classify_mix(small, again[0]) == sig:
            case, what = small, again[1]
    ctx.sample({"failing": describe_mix(case)})
    ctx.fail(sig, {"case": case, "what": what, "program": describe_mix(case)}, what)
    return True


@_sync
def mixes(ctx):
    for sig, pc, what in MIX_PROBES:
        bad = judge_mix(pc, eval_mix(pc))
        ctx.count(("mix-probe", sig, pc["op"]))
        if bad:
            ctx.fail(classify_mix(pc, bad[0]), {"case": pc, "what": bad[1], "program": describe_mix(pc)}, what)
        else:
            ctx.notes["probe_no_longer_fails." + sig] = ctx.notes.get("probe_no_longer_fails." + sig, 0) + 1
    for _ in range(ctx.scale(1, 3)):
        for case in itertools.chain(gen_join(ctx), gen_same(ctx)):
            run_mix_case(ctx, case)


# ============================================================================= entry points


def run_streams(ctx):
    warnings.simplefilter("ignore")
    t0 = ctx.elapsed()
    maskgrid(ctx)
    t1 = ctx.elapsed()
    chains(ctx)
    t2 = ctx.elapsed()
    mixes(ctx)
    t3 = ctx.elapsed()
    from harness.props_ext import c28_validity

    c28_validity.run_stream(ctx)
    t4 = ctx.elapsed()
    ctx.notes["ext.seconds"] = {"maskgrid": round(t1 - t0, 1), "chain": round(t2 - t1, 1), "mix": round(t3 - t2, 1), "validity": round(t4 - t3, 1)}


def replay(ctx, case, sig=None):
    """replay of a case with a "stream" key (mix); maskgrid / chain failures are ordinary C28 cases"""
    if case.get("stream") == "mix":
        bad = judge_mix(case, eval_mix(case))
        if bad:
            ctx.fail(classify_mix(case, bad[0]), {"case": case, "what": bad[1], "program": describe_mix(case)}, bad[1])
        return True
    if case.get("stream") == "validity":
        from harness.props_ext import c28_validity

        return c28_validity.replay(ctx, case, sig)
    return False
