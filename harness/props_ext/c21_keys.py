"""C21 — record keys at the STRING level: `_norm_key` and `_Flattener.resolve` of dask_array/_frisky/graph_records.py.

A Frisky worker resolves every embedded TaskRef by the STRING of its key, and `str(('x', np.int64(0))) != str(('x', 0))`
although the two tuples are `==` and hash equal.  Model: lean/DaskArrayModel/Model/RecordKeys.lean (typed key components,
`pyEq`, `keyStr`, `normalize`, `resolve`, `records`), driver family `rky.*` (Drv/RecordKeys.lean), theorems
Props/C21Keys.lean (`C21k_*`).

(1) correspondence (the real functions of /repo, nothing re-implemented here):
      `rky.str`        str(key) of keys mixing plain and NumPy scalars (np.int8 … np.uint64, np.intc, np.longlong, np.intp,
                       bool, np.bool_, str, np.str_), 1-tuples, bare string keys;
      `rky.normalize`  `_norm_key(key)` in a TYPED encoding (the type of every component is compared, not only the value);
      `rky.pyeq`       Python `==` (and equal hashes) of two keys, the second one usually a re-typed copy of the first;
      `rky.resolve`    `_Flattener(parent).resolve(term, deps)` on generated terms: TaskRef / Alias with such keys, DataNode,
                       literals, _task_spec List / Tuple / Dict, plain list / tuple / dict, inner Task with keyword
                       arguments, inner `_execute_subgraph` tasks (first three arguments passed through), an unhandled
                       GraphNode (NotImplementedError) — compared: the rewritten term with str() of every embedded
                       reference, sorted(deps), the lifted records;
      `rky.records`    `_records(key, node)` on the same terms as graph nodes (incl. self-alias, bare data).
(2) search: the string-level completeness of real `__frisky_graph__()` records is `ref_audit` of
    harness/props_ext/c21_catalog.py (called by harness.props.C21.exec_records on every executed record set) — not
    duplicated.  Added here, on the records the REAL `_records` returns for the generated nodes (oracle: the contract of
    the module docstring, no model involved): for every record the set of str(key) of the embedded references equals the
    declared deps, and whenever the written keys have no np.str_ / np.bool_ component every embedded key has canonical
    types.  Signatures `keys:embedded-ref-string-not-declared`, `keys:declared-dep-not-referenced`,
    `keys:embedded-key-not-canonical`.
"""
from __future__ import annotations

import numpy as np

INT_TYPES = [np.int8, np.int16, np.int32, np.int64, np.uint8, np.uint16, np.uint32, np.uint64, np.intc, np.longlong,
             np.ulonglong, np.intp, np.short]
NAMES = ["x", "y", "add-1f", "a_b", "sum.0", "T", "F", "7", "np", "x-sub1"]


def _f0(*a, **k):
    return 0


def _f1(*a, **k):
    return 1


def _f2(*a, **k):
    return 2


FUNCS = {id(_f0): "f0", id(_f1): "f1", id(_f2): "f2"}


# ------------------------------------------------------------------------------------------ generators

def gen_comp(rng, first=False):
    r = rng.random()
    if first and r < 0.85:
        nm = rng.choice(NAMES)
        return np.str_(nm) if rng.random() < 0.12 else nm
    if r < 0.25:
        return rng.choice([0, 1, 2, 3, 10, -1, 127, 1000])
    if r < 0.6:
        t = rng.choice(INT_TYPES)
        v = rng.choice([0, 1, 2, 3, 10, 100, 127])
        if rng.random() < 0.2 and np.issubdtype(t, np.signedinteger):
            v = -v
        return t(v)
    if r < 0.7:
        return rng.choice([True, False])
    if r < 0.78:
        return np.bool_(rng.choice([True, False]))
    if r < 0.92:
        return rng.choice(NAMES)
    return np.str_(rng.choice(NAMES))


def gen_key(rng, bare=0.12):
    if rng.random() < bare:
        nm = rng.choice(NAMES)
        return np.str_(nm) if rng.random() < 0.2 else nm
    n = rng.choice([1, 2, 2, 3, 3, 4])
    return tuple(gen_comp(rng, first=(i == 0)) for i in range(n))


def retype(rng, k):
    """a key that is (mostly) == to k with other component types"""
    if not isinstance(k, tuple):
        return np.str_(k) if rng.random() < 0.5 else str(k)
    out = []
    for c in k:
        if isinstance(c, (bool, np.bool_)) or isinstance(c, (int, np.integer)):
            v = int(c)
            ch = rng.random()
            if ch < 0.3:
                out.append(v)
            elif ch < 0.4 and v in (0, 1):
                out.append(bool(v))
            elif ch < 0.5 and v in (0, 1):
                out.append(np.bool_(v))
            elif ch < 0.9:
                t = rng.choice(INT_TYPES)
                try:
                    out.append(t(v))
                except (OverflowError, ValueError):
                    out.append(v)
            else:
                out.append(v + 1)
        else:
            s = str(c)
            out.append(np.str_(s) if rng.random() < 0.4 else (s if rng.random() < 0.9 else s + "q"))
    return tuple(out)


def make_odd():
    from dask._task_spec import GraphNode

    class Odd(GraphNode):
        __slots__ = ()

        def __init__(self):
            self.key = None
            self._dependencies = frozenset()

        def __call__(self, values=()):
            return 0

        def __repr__(self):
            return "Odd"

    return Odd()


_OPAQUE = {}  # id(object) -> literal number: the pass-through arguments of a fused task (compared by IDENTITY)
_KEEP = []


def opaque(rng):
    """what `_execute_subgraph` really carries in its first three arguments: an inner graph with Tasks / TaskRefs whose keys
    exist only inside it, an output key, input labels — data for the adapter; anything but the very same object coming
    out is a disagreement"""
    from dask._task_spec import Task, TaskRef

    ch = rng.random()
    if ch < 0.4:
        o = {"inner": Task("inner", _f0, TaskRef(("in", np.int64(rng.randint(0, 3)))))}
    elif ch < 0.7:
        o = (TaskRef(("in", np.int64(0))), "lbl")
    else:
        o = [TaskRef("in-%d" % rng.randint(0, 3))]
    _KEEP.append(o)
    _OPAQUE[id(o)] = 100 + len(_KEEP)
    return o


def gen_term(rng, d, keys, odd=0.0):
    from dask._task_spec import Alias, DataNode, Dict, List, Task, TaskRef, Tuple, _execute_subgraph

    def key():
        if keys and rng.random() < 0.5:
            k = rng.choice(keys)
            return retype(rng, k) if rng.random() < 0.5 else k
        k = gen_key(rng)
        keys.append(k)
        return k

    def sub(n):
        return [gen_term(rng, d - 1, keys, odd) for _ in range(rng.randint(0, n))]

    r = rng.random()
    if odd and r < odd:
        return make_odd()
    if d <= 0 or r < 0.28:
        return TaskRef(key())
    if r < 0.36:
        return Alias(("inl", 0), key())
    if r < 0.42:
        return DataNode(None, rng.randint(0, 5))
    if r < 0.5:
        return rng.randint(0, 5)
    if r < 0.58:
        return List(*sub(3))
    if r < 0.64:
        return Tuple(*sub(3))
    if r < 0.7:
        return sub(3)
    if r < 0.76:
        return tuple(sub(3))
    if r < 0.82:
        vals = sub(3)
        return {i + 10: v for i, v in enumerate(vals)}
    if r < 0.86:
        vals = sub(2)
        return Dict({i + 20: v for i, v in enumerate(vals)})
    kw = {n: gen_term(rng, d - 1, keys, odd) for n in rng.sample(["p", "q", "r"], rng.randint(0, 2))}
    if r < 0.92:
        nlead = rng.choice([3, 3, 3, 2, 0])
        lead = [opaque(rng) if nlead == 3 and rng.random() < 0.7 else rng.randint(0, 9) for _ in range(nlead)]
        return Task(None, _execute_subgraph, *lead, *sub(2), **kw)
    return Task(None, rng.choice([_f0, _f1, _f2]), *sub(3), **kw)


# ------------------------------------------------------------------------------------------ encoders

def enc_comp(c):
    if type(c) is bool:
        return "T" if c else "F"
    if isinstance(c, np.bool_):
        return "~T" if c else "~F"
    if type(c) is int:
        return str(c)
    if isinstance(c, np.integer):
        return repr(c)[3:].split("(")[0] + "~" + str(int(c))  # the scalar's repr name (np.longlong prints as np.int64 here)
    if type(c) is str:
        return "'" + c
    if isinstance(c, np.str_):
        return "~'" + str(c)
    raise ValueError(type(c))


def enc_key(k):
    if isinstance(k, tuple):
        if not k:
            raise ValueError
        return ":".join(enc_comp(c) for c in k)
    if type(k) is str:
        return "$" + k
    if isinstance(k, np.str_):
        return "$~" + str(k)
    raise ValueError(type(k))


def _fid(f):
    from dask._task_spec import _execute_subgraph

    if f is _execute_subgraph:
        return "sg"
    return FUNCS.get(id(f), "fx")


def _lit(v):
    if id(v) in _OPAQUE:
        return _OPAQUE[id(v)]
    if type(v) is int and v >= 0:
        return v
    raise ValueError(repr(v))


def enc_term(a):
    from dask._task_spec import Alias, DataNode, GraphNode, NestedContainer, Task, TaskRef, _execute_subgraph

    if isinstance(a, TaskRef):
        return "R" + enc_key(a.key)
    if isinstance(a, Alias):
        return "A" + enc_key(a.target)
    if isinstance(a, DataNode):
        return "D%d" % _lit(a.value)
    if isinstance(a, NestedContainer) and a.klass in (list, tuple):
        return ("L" if a.klass is list else "T") + "[" + ";".join(enc_term(x) for x in a.args) + "]"
    if isinstance(a, Task):
        kws = list(a.kwargs or {})
        vals = [enc_term(a.kwargs[n]) for n in kws]
        if a.func is _execute_subgraph and len(a.args) >= 3:
            lead = ",".join(str(_lit(v)) for v in a.args[:3])
            return "Ssg(" + lead + "|" + ",".join(kws) + "|" + ";".join([enc_term(x) for x in a.args[3:]] + vals) + ")"
        fid = "nc" + a.klass.__name__ if isinstance(a, NestedContainer) else _fid(a.func)
        return "K" + fid + "(" + ",".join(kws) + "|" + ";".join([enc_term(x) for x in a.args] + vals) + ")"
    if isinstance(a, GraphNode):
        return "X"
    if isinstance(a, list):
        return "l[" + ";".join(enc_term(x) for x in a) + "]"
    if isinstance(a, tuple):
        return "t[" + ";".join(enc_term(x) for x in a) + "]"
    if isinstance(a, dict):
        return "d[" + ",".join(str(_lit(k)) for k in a) + "|" + ";".join(enc_term(v) for v in a.values()) + "]"
    return "V%d" % _lit(a)


def enc_out(a):
    """a REAL rewritten argument: references by the str() of the embedded key object"""
    from dask._task_spec import GraphNode, TaskRef

    if id(a) in _OPAQUE:
        return "V%d" % _OPAQUE[id(a)]
    if isinstance(a, TaskRef):
        return "R" + str(a.key)
    if isinstance(a, GraphNode):
        return "?node"
    if isinstance(a, list):
        return "l[" + ";".join(enc_out(x) for x in a) + "]"
    if isinstance(a, tuple):
        return "t[" + ";".join(enc_out(x) for x in a) + "]"
    if isinstance(a, dict):
        return "d[" + ",".join(str(k) for k in a) + "|" + ";".join(enc_out(v) for v in a.values()) + "]"
    try:
        return "V%d" % _lit(a)
    except ValueError:
        return "?" + type(a).__name__  # never produced by the unchanged code on the generated terms


def enc_rec(rec, to_container=None):
    import toolz
    from dask._task_spec import NestedContainer

    key, func, args, kwargs, deps = rec
    kws = list(kwargs or {})
    parts = [enc_out(x) for x in args] + [enc_out(kwargs[n]) for n in kws]
    if func is toolz.identity:
        fid = "id"
    elif getattr(func, "__self__", None) is not None and isinstance(func.__self__, type) and issubclass(func.__self__, NestedContainer):
        fid = "nc" + func.__self__.klass.__name__
    else:
        fid = _fid(func)
    return "#".join([str(key), fid, ",".join(kws) + "|" + ";".join(parts), "+".join(deps)])


# ------------------------------------------------------------------------------------------ the oracle of (2)

def embedded(a, out):
    from dask._task_spec import TaskRef

    if isinstance(a, TaskRef):
        out.append(a.key)
    elif isinstance(a, (list, tuple)):
        for x in a:
            embedded(x, out)
    elif isinstance(a, dict):
        for x in a.values():
            embedded(x, out)
    return out


def written_keys(a, out):
    from dask._task_spec import Alias, Task, TaskRef

    if isinstance(a, TaskRef):
        out.append(a.key)
    elif isinstance(a, Alias):
        out.append(a.target)
    elif isinstance(a, Task):
        for x in a.args:
            if id(x) not in _OPAQUE:
                written_keys(x, out)
        for x in (a.kwargs or {}).values():
            written_keys(x, out)
    elif isinstance(a, (list, tuple)):
        for x in a:
            written_keys(x, out)
    elif isinstance(a, dict):
        for x in a.values():
            written_keys(x, out)
    return out


def _np_free(k):
    cs = k if isinstance(k, tuple) else (k,)
    return not any(isinstance(c, (np.str_, np.bool_)) for c in cs)


def _canonical(k):
    cs = k if isinstance(k, tuple) else (k,)
    return all(type(c) in (int, str) for c in cs)


def contract_failures(recs, written):
    out = []
    normalizable = all(_np_free(k) for k in written)
    for key, func, args, kwargs, deps in recs:
        from dask._task_spec import _execute_subgraph

        a = tuple(args)[3:] if func is _execute_subgraph and len(args) >= 3 else tuple(args)
        ks = embedded(a, []) + embedded(dict(kwargs or {}), [])
        strs = {str(k) for k in ks}
        if strs - set(deps):
            out.append(("keys:embedded-ref-string-not-declared",
                        f"record {key}: embedded reference {sorted(strs - set(deps))[0]} is not in the declared deps {list(deps)[:4]}"))
        if set(deps) - strs:
            out.append(("keys:declared-dep-not-referenced",
                        f"record {key}: declared dep {sorted(set(deps) - strs)[0]} is the string of no embedded reference {sorted(strs)[:4]}"))
        if normalizable:
            bad = [k for k in ks if not _canonical(k)]
            if bad:
                out.append(("keys:embedded-key-not-canonical", f"record {key}: embedded key {bad[0]!r} keeps a NumPy / bool component"))
    return out


# ------------------------------------------------------------------------------------------ run

def run(ctx, replay=None):
    from dask._task_spec import Alias, DataNode, List, Task, Tuple, _execute_subgraph
    from dask_array._frisky.graph_records import _Flattener, _norm_key, _records

    rng = ctx.rng
    _OPAQUE.clear()
    del _KEEP[:]
    # ---- keys
    n_keys = ctx.scale(700, 6000)
    p_str, p_norm, p_eq = [], [], []
    for _ in range(n_keys):
        k = gen_key(rng)
        ek = enc_key(k)
        p_str.append((f"rky.str {ek}", "ok " + str(k)))
        p_norm.append((f"rky.normalize {ek}", "ok " + enc_key(_norm_key(k))))
        k2 = retype(rng, k) if rng.random() < 0.8 else gen_key(rng)
        eq = bool(k == k2)
        if eq and hash(k) != hash(k2):
            eq = False  # never happens in CPython/NumPy; would show up as a disagreement
        p_eq.append((f"rky.pyeq {ek} {enc_key(k2)}", "ok 1" if eq else "ok 0"))
        ctx.count(("key", isinstance(k, tuple) and len(k), sorted({type(c).__name__ for c in (k if isinstance(k, tuple) else (k,))})[0]))
    ctx.sample({"key": repr(gen_key(rng)), "stream": "c21_keys"})

    def kinds(req, model):
        return (req.count("~"), req.count(":") // 2, model[:4])

    ctx.correspond("rky.str", p_str, branch_key=kinds)
    ctx.correspond("rky.normalize", p_norm, branch_key=kinds)
    ctx.correspond("rky.pyeq", p_eq, branch_key=lambda req, model: (req.count("~") // 2, model))

    # ---- terms
    n_terms = ctx.scale(900, 12000)
    p_res, p_rec = [], []
    reported = set()
    for i in range(n_terms):
        keys = []
        odd = 0.03 if rng.random() < 0.15 else 0.0
        term = gen_term(rng, rng.randint(1, 4), keys, odd)
        parent = gen_key(rng)
        try:
            et = enc_term(term)
            ep = enc_key(parent)
        except ValueError:
            continue
        if len(et) > 5000:
            continue
        # (a) one resolve call
        fl = _Flattener(str(parent))
        deps = set()
        try:
            out = fl.resolve(term, deps)
            impl = "ok " + enc_out(out) + " | " + "+".join(sorted(deps)) + " | " + "##".join(enc_rec(r) for r in fl.extra)
        except NotImplementedError:
            impl = "err NotImplementedError"
        p_res.append((f"rky.resolve {ep} {et}", impl))
        # (b) the same term as a graph node
        top = rng.random()
        node = None
        if isinstance(term, (Task, Alias, DataNode)):
            node = term
        if node is None or top < 0.3:
            sub = [term] + [gen_term(rng, 2, keys, odd) for _ in range(rng.randint(0, 2))]
            kw = {n: gen_term(rng, 1, keys, odd) for n in rng.sample(["p", "q"], rng.randint(0, 1))}
            ch = rng.random()
            if ch < 0.2:
                node = List(*sub)
            elif ch < 0.3:
                node = Tuple(*sub)
            elif ch < 0.45:
                node = Task(None, _execute_subgraph, *[opaque(rng) if rng.random() < 0.5 else i for i in (1, 2, 3)], *sub, **kw)
            elif ch < 0.5:
                node = Alias(parent, rng.choice([parent, retype(rng, parent), gen_key(rng)]))
            elif ch < 0.55:
                node = rng.randint(0, 9)
            else:
                node = Task(None, rng.choice([_f0, _f1, _f2]), *sub, **kw)
        try:
            en = enc_term(node)
        except ValueError:
            continue
        try:
            recs = _records(parent, node)
            impl = "ok " + "##".join(enc_rec(r) for r in recs)
        except NotImplementedError:
            recs = None
            impl = "err NotImplementedError"
        p_rec.append((f"rky.records {ep} {en}", impl))
        ctx.count(("term", et[:1], en[:1], impl[:3], min(et.count("~"), 3)))
        if i < 2:
            ctx.sample({"stream": "c21_keys", "parent": repr(parent), "node": en[:200]})
        # (2) the contract on the real records (no model)
        if recs is not None:
            for sig, what in contract_failures(recs, written_keys(node, [])):
                if sig not in reported:
                    reported.add(sig)
                    ctx.fail(sig, {"request": f"rky.records {ep} {en}", "impl": impl, "stream": "c21_keys"}, what)

    def tk(req, model):
        return (req.count("K"), req.count("S"), req.count("d["), model.count("-sub"), model[:3])

    ctx.correspond("rky.resolve", p_res, branch_key=tk)
    ctx.correspond("rky.records", p_rec, branch_key=tk)
    ctx.notes["c21_keys"] = {"keys": n_keys, "resolve_terms": len(p_res), "record_nodes": len(p_rec)}
