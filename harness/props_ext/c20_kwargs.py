"""C20 extension: the keyword space of map_blocks jointly with its fusion context.

Every quick run enumerates the FULL product

    MODES (which of drop_axis / new_axis / chunks= are used, and how)  x  BELOW (what feeds the call)  x  ABOVE (what consumes it)

once per round (quick: 2 rounds, thorough: 10), with everything else drawn from the rng:

  * ranks of the array inputs: 0-3 inputs of rank 1-3, right-aligned, incl. mixed ranks in both orders ((2,1), (1,2), (3,2), (3,1), (3,2,1) …);
    per input axis: the common chunking of that index label / one chunk / one chunk of length 1 (broadcast) / same block count, other sizes;
  * drop_axis as int, negative int, list (1-2 axes, sometimes all), new_axis as int or list (1-2 axes), or implicit (chunks= longer
    than the input rank); chunks= entries as tuples (created axes get SEVERAL chunks in the *_multi modes), ints, or the inherited tuple;
  * enforce_ndim, meta=, name=, token=, method form `x.map_blocks`, non-array positional arguments (block_info is keyed by argument
    position), which keywords the function accepts (block_info / block_id / both);
  * BELOW: plain from_array / a fusable elementwise op on one input / on every input / a binary elementwise op / a rechunk;
    ABOVE: nothing / fusable elementwise op / binary elementwise op with an equally chunked array / culling slice / reduction /
    elementwise op then culling slice / a SECOND recorded map_blocks call (two payload lookups in one fused chain).

The block function's value encodes the blocks it was handed AND the identity it was told (block_id, block_info[None]['chunk-location']),
so a payload looked up at the wrong grid position changes the result even when shapes happen to agree.  The oracle is C20.evaluate:
brute-force block_info of EVERY input and of the output from the call-time layouts, under optimize-graph True (fused path) and False.
"""
from __future__ import annotations

import itertools

import numpy as np

from harness import programs as P
from harness.props import C20 as K

MODES = ("plain", "chunks", "new", "new_multi", "new_implicit", "drop", "drop_new", "drop_new_multi", "drop_chunks")
BELOW = ("src", "elemwise_one", "elemwise_all", "binary_one", "rechunk_one")
ABOVE = ("none", "elemwise", "binary", "getitem", "reduce", "elemwise_getitem", "map_blocks")
RANKS = ((1,), (2,), (3,), (2, 1), (1, 2), (2, 2), (3, 2), (2, 3), (3, 1), (1, 3), (3, 2, 1), (2, 1, 2), (3, 3))
FUSABLE = ("affine", "neg", "mod7", "abs")  # elementwise ops that keep magnitudes small (values stay far from int64 overflow)
FUSABLE_SRC = FUSABLE + ("sq",)  # x*x (the same dependency twice) only directly over a source

NOTES = {}


def _note(k):
    NOTES[k] = NOTES.get(k, 0) + 1


class _Deck:
    """draw without replacement, refill when empty: uniform coverage of a finite list within one run"""

    def __init__(self, rng, items):
        self.rng, self.items, self.cur = rng, list(items), []

    def draw(self):
        if not self.cur:
            self.cur = list(self.items)
            self.rng.shuffle(self.cur)
        return self.cur.pop()


def _sizes(rng, n, hi=3):
    return [rng.randint(1, hi) for _ in range(n)]


def gen_layouts(rng, ranks, multi_bias):
    """label -> common chunking; then one layout per input (trailing alignment)"""
    R = max(ranks)
    base = {}
    for lab in range(R):
        nb = rng.choice([1, 2, 2, 3] if multi_bias else [1, 1, 2, 3])
        base[lab] = _sizes(rng, nb)
    leader_done = False
    out = []
    for r in ranks:
        lay = []
        full = r == R and not leader_done
        if full:
            leader_done = True
        for ax in range(r):
            b = base[r - 1 - ax]
            m = rng.random()
            if full or m < 0.6:
                lay.append(list(b))
            elif m < 0.72:
                lay.append([sum(b)])
            elif m < 0.82:
                lay.append([1])
            else:
                lay.append(_sizes(rng, len(b)))
        out.append(lay)
    return out


def _src(shape_chunks, rng):
    return {"op": "src", "shape": [sum(c) for c in shape_chunks], "chunks": [list(c) for c in shape_chunks],
            "mul": rng.choice([1, 3, 7]), "off": rng.randint(-3, 3), "mod": rng.choice([1 << 30, 11, 5])}


def _other_chunks(rng, lay):
    """another chunking of the same shape (for a rechunk below the call)"""
    out = []
    for c in lay:
        n = sum(c)
        cand = [list(P.gen.rand_chunks(rng, n)) for _ in range(3)]
        cand = [x for x in cand if x != list(c) and 0 not in x] or [[n]]
        out.append(cand[0])
    return out


class _Prog:
    def __init__(self):
        self.prog = []
        self.k = 0

    def add(self, step):
        self.k += 1
        step["out"] = f"v{self.k}"
        self.prog.append(step)
        return step["out"]


def gen_case(rng, mode, below, above, ranks):
    """Returns (program builder, name of the call's result, the mb_rec step) or None.  Pure structure generation:
    validity (construction succeeds, no empty arrays) is established by the caller running it once."""
    multi = mode.endswith("_multi") or mode == "new_implicit"
    if mode == "new_implicit" and rng.random() < 0.15:
        ranks = ()  # map_blocks without array arguments: the whole output is created
    layouts = gen_layouts(rng, ranks, multi_bias=True) if ranks else []
    R = max(ranks) if ranks else 0
    g = _Prog()
    # ---------------------------------------------------------------- below
    ins = []
    n_in = len(layouts)
    one = rng.randrange(n_in) if n_in else None
    for i, lay in enumerate(layouts):
        if below == "rechunk_one" and i == one:
            s = g.add(_src(_other_chunks(rng, lay), rng))
            if rng.random() < 0.4:
                s = g.add({"op": rng.choice(FUSABLE_SRC), "args": [s]})
            s = g.add({"op": "rechunk", "args": [s], "chunks": [list(c) for c in lay]})
        else:
            s = g.add(_src(lay, rng))
        if (below == "elemwise_one" and i == one) or below == "elemwise_all":
            s = g.add({"op": rng.choice(FUSABLE_SRC), "args": [s]})
            if rng.random() < 0.25:
                s = g.add({"op": rng.choice(FUSABLE), "args": [s]})
        if below == "binary_one" and i == one:
            t = g.add(_src(lay, rng))
            s = g.add({"op": rng.choice(["add", "sub", "maximum"]), "args": [s, t] if rng.random() < 0.5 else [t, s]})
        ins.append(s)
    # ---------------------------------------------------------------- the call
    step = {"op": "mb_rec", "args": ins, "kw": rng.choice(["info", "both", "both", "id"]), "idval": True, "method": False}
    drop = []
    if mode.startswith("drop") and R >= 1:
        form = rng.random()
        if R >= 2 and form < 0.3:
            k = rng.randint(1, R - 1)
            if R == 2 and rng.random() < 0.2:
                k = 2  # everything dropped: 0-d output (unless axes are created)
            drop = sorted(rng.sample(range(R), k))
            step["drop_axis"] = [d - R if rng.random() < 0.3 else d for d in drop]
            if rng.random() < 0.5:
                rng.shuffle(step["drop_axis"])
        else:
            d = rng.randrange(R)
            drop = [d]
            m = rng.random()
            step["drop_axis"] = d if m < 0.4 else (d - R if m < 0.6 else [d])
        if R == 1 and mode in ("drop", "drop_chunks") and rng.random() < 0.6:
            return None  # 0-d outputs: keep them, but rare
    n_old = R - len(drop)
    n_new = 0
    if mode in ("new", "new_multi", "drop_new", "drop_new_multi"):
        n_new = 1 if (n_old >= 3 or rng.random() < 0.65) else 2
        pos = sorted(rng.sample(range(n_old + n_new), n_new))
        step["new_axis"] = pos[0] if (n_new == 1 and rng.random() < 0.5) else (pos if rng.random() < 0.7 else pos[::-1])
    elif mode == "new_implicit":
        n_new = 1 if (n_old >= 2 or rng.random() < 0.6) else 2
        if not ranks:
            n_new = rng.randint(1, 3)
    out_ind, new_labels = K.out_labels(list(ranks), drop, list(range(n_new)) if mode == "new_implicit" else K.step_new(step), None)
    if mode in ("chunks", "new_multi", "new_implicit", "drop_new_multi", "drop_chunks") or (mode in ("new", "drop_new") and rng.random() < 0.3):
        spec = []
        want_multi = multi
        for lab in out_ind:
            if lab in new_labels:
                if want_multi and (rng.random() < 0.8 or lab == new_labels[-1]):
                    spec.append(_sizes(rng, rng.choice([2, 2, 3])))
                    want_multi = False
                else:
                    spec.append(rng.choice([1, 2, 3]) if rng.random() < 0.6 else _sizes(rng, rng.choice([1, 2])))
            else:
                base = None
                for lay in layouts:
                    ax = len(lay) - 1 - lab
                    if ax >= 0 and (base is None or len(lay[ax]) > len(base)):
                        base = lay[ax]
                m = rng.random()
                spec.append(list(base) if m < 0.4 else (_sizes(rng, len(base), 4) if m < 0.75 else rng.randint(1, 4)))
        step["chunks"] = spec
    if rng.random() < 0.25:
        step["enforce_ndim"] = True
    if rng.random() < 0.25:
        step["meta"] = True
    r = rng.random()
    if r < 0.15:
        step["name"] = "recname"
    elif r < 0.3:
        step["token"] = "rectok"
    if n_in and rng.random() < 0.2:
        p = rng.randint(0, n_in)
        step["scalars"] = [[p, rng.randint(-3, 9)]]
    elif n_in == 1 and rng.random() < 0.4:
        step["method"] = True
    y = g.add(step)
    return g, y, step


def add_above(g, y, above, out_chunks, rng):
    """consumers above the call; `out_chunks` = advertised chunks of the call's result"""
    shape = [sum(c) for c in out_chunks]
    root = y

    def cull(v, shp):
        if not shp:
            return v
        for _ in range(10):
            idx = P.rand_basic_index(rng, tuple(shp), allow_none=False, allow_neg_step=False, allow_int=rng.random() < 0.3, allow_ellipsis=False)
            res = np.empty(shp, dtype=np.int8)[idx]
            if res.size and res.shape != tuple(shp):
                return g.add({"op": "getitem", "args": [v], "index": P._enc_index(idx)})
        return v

    if above in ("elemwise", "elemwise_getitem"):
        root = g.add({"op": rng.choice(FUSABLE), "args": [root]})
        if rng.random() < 0.25:
            root = g.add({"op": rng.choice(FUSABLE), "args": [root]})
    if above == "binary":
        t = g.add(_src([list(c) for c in out_chunks], rng))
        root = g.add({"op": rng.choice(["add", "sub", "maximum"]), "args": [root, t] if rng.random() < 0.5 else [t, root]})
    if above in ("getitem", "elemwise_getitem"):
        root = cull(root, shape)
    if above == "map_blocks":
        # a second recorded call directly on the first (two payload lookups in one fused chain)
        if rng.random() < 0.4:
            root = g.add({"op": rng.choice(FUSABLE), "args": [root]})
        st2 = {"op": "mb_rec", "args": [root], "kw": rng.choice(["info", "both", "id"]), "idval": True, "method": rng.random() < 0.5}
        if shape and rng.random() < 0.35:
            st2["new_axis"] = [rng.randint(0, len(shape))]
            spec = [list(c) for c in out_chunks]
            spec.insert(st2["new_axis"][0], _sizes(rng, 2))
            st2["chunks"] = spec
        root = g.add(st2)
        if rng.random() < 0.4:
            root = g.add({"op": rng.choice(FUSABLE), "args": [root]})
    if above == "reduce":
        ax = None if (not shape or rng.random() < 0.3) else rng.randrange(len(shape))
        root = g.add({"op": "reduce", "fn": rng.choice(["sum", "max"]), "args": [root], "axis": ax, "keepdims": rng.random() < 0.3,
                      "split_every": rng.choice([None, 2])})
    return root


def build_one(rng, mode, below, above, rank_deck, decorate=None, tag="kw"):
    """one valid program of the combination (mode, below, above): (prog, root, key) or None.  `decorate(step, prog)` may add
    keys to the recorded call's step right after it was generated (before anything is constructed)."""
    import warnings

    made = None
    for _try in range(6):
        ranks = rank_deck.draw()
        if mode.startswith("drop") and _try < 4 and len(set(ranks)) == 1 and rng.random() < 0.5:
            continue  # lean towards mixed ranks under drop_axis
        try:
            r = gen_case(rng, mode, below, above, ranks)
        except Exception as e:  # a generator slip must be visible, not fatal
            _note("generator_exception:" + type(e).__name__)
            r = None
        if r is None:
            continue
        g, y, step = r
        if decorate is not None:
            decorate(step, g.prog)
        # construction once, for the advertised output chunks (needed to build the consumers) and validity
        with warnings.catch_warnings():
            warnings.simplefilter("ignore")
            try:
                denv, cap = K.run_dask(g.prog, K.Recorder())
            except Exception as e:
                if K.constructs_plain(g.prog):
                    # only the block_info/block_id payload builder refuses the call: C20.evaluate reports it
                    made = (g.prog, y, (tag, mode, below, above, tuple(ranks) if step["args"] else ()))
                    break
                _note("construction_refused:" + type(e).__name__)
                NOTES.setdefault("construction_refused.example", K.describe(g.prog) + " :: " + f"{type(e).__name__}: {str(e)[:160]}")
                continue
        oc = cap[y]["out_chunks"]
        if any(0 in c for c in oc) or int(np.prod([sum(c) for c in oc])) > 1500:
            continue
        root = add_above(g, y, above, oc, rng)
        # magnitudes far from int64 overflow (NumPy wraps silently, Python ints in the oracle do not)
        try:
            if above == "map_blocks":  # the second call's layouts
                with warnings.catch_warnings():
                    warnings.simplefilter("ignore")
                    try:
                        cap = K.run_dask(g.prog, K.Recorder())[1]
                    except Exception:
                        # evaluate() attributes the refusal (payload builder vs the call as such)
                        made = (g.prog, root, (tag, mode, below, above, tuple(ranks) if step["args"] else ()))
                        break
            with np.errstate(all="ignore"):
                npenv = K.run_numpy(g.prog, cap)
            if any(v.size and int(np.abs(v).max()) > (1 << 50) for v in npenv.values()):
                _note("skipped_large_values")
                continue
        except OverflowError:
            _note("skipped_large_values")
            continue
        made = (g.prog, root, (tag, mode, below, above, tuple(ranks) if step["args"] else ()))
        break
    if made is None:
        _note("no_case_for:" + mode)
    return made


def cases(rng, rounds):
    """yields (prog, root, key); one round = the full MODES x BELOW x ABOVE product in random order"""
    rank_deck = _Deck(rng, RANKS)
    for _ in range(rounds):
        combos = list(itertools.product(MODES, BELOW, ABOVE))
        rng.shuffle(combos)
        for mode, below, above in combos:
            made = build_one(rng, mode, below, above, rank_deck)
            if made is not None:
                yield made
