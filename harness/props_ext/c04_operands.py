"""Repeated operands and array-valued parameters (streams of C04).

Two kinds of node tie the blocks of an operand to the blocks of the output by something other than the
identity, and both are absent from the random-program stream of `harness.programs`:

(A) `multiuse` — ONE consumer uses the SAME operand several times under DIFFERENT index maps
    (einsum / blockwise with permuted labels, tensordot / matmul / dot / outer / vdot, where / elementwise /
    stack / concatenate with the operand and its transpose, broadcasting the operand against itself), with a
    fusable producer below (elementwise chains, two sources, map_blocks, creation, random, transposes,
    astype, where) so that blockwise fusion has to decide which members of the group can be addressed
    with the root's block coordinates.  Label sizes and chunkings are derived from the consumer's
    subscripts by union-find (an operand used as 'ij' and as 'ji' is square), with equal or different
    chunkings on the tied axes; a post-processing step (elementwise / transpose / reduction / slice) may
    put the consumer in the middle of a fusion group.
(B) `arrayparam` — creation functions whose PARAMETERS are arrays: every random distribution with
    array-valued parameters (NumPy and dask arrays, output-shaped and broadcast rows / columns / vectors,
    parameter expressions with fusable producers, the same array for two parameters, positional and keyword),
    through the Generator / RandomState / module-level front ends, `size=` given or derived from the
    parameters, `chunks=` "auto" / omitted / explicit / a byte string, under a small `array.chunk-size`
    so that auto-chunking really splits (counted: `auto-splits`), and the `*_like` family over a dask array.
    Distributions are drawn at DEGENERATE parameter values (normal(A, 0) = A, uniform(A, A) = A,
    integers(A, A+1) = A, binomial(A, 1) = A, poisson(0) = 0 …) so that NumPy gives the exact value of
    every block whatever the realization: a parameter block paired with the wrong output block is seen.

Every case is built with `array.optimize-graph` on and off and handed to `C04.check_array` (advertised keys
= grid, defined, closed, acyclic, layer contract on every materialized layer, advertised block extents);
when the structure holds the graph is executed key by key and the blocks under the advertised keys are
assembled and compared with NumPy.  A task that RAISES at run time is not a statement about the graph's
structure: counted in the notes (with an example), not reported here.

A failure replays from the case dict alone (`kind` = "multiuse" | "arrayparam").
"""
from __future__ import annotations

import functools
import time
import warnings

import numpy as np

from harness import graphs, programs

# =========================================================================================== shared


def _data(shape, mul=7, off=3, mod=11, shift=-5, dtype="float64"):
    n = int(np.prod(shape)) if len(shape) else 1
    return (((np.arange(n, dtype=np.int64) * mul + off) % mod) + shift).reshape(tuple(shape)).astype(dtype)


def _same(got, want):
    try:
        got = np.asarray(got)
        want = np.asarray(want)
    except Exception:
        return False
    if got.dtype == object or got.shape != want.shape:
        return False
    return bool(np.allclose(got, want, rtol=1e-9, atol=1e-9, equal_nan=True))


def _show(v):
    try:
        a = np.asarray(v)
        return f"shape {a.shape} {a.ravel()[:10].tolist()!r}"
    except Exception:
        return repr(v)[:120]


def _note(ctx, key, example=None):
    ctx.notes[key] = ctx.notes.get(key, 0) + 1
    if example is not None:
        ctx.notes.setdefault(key + "_example", example)


def check_collection(ctx, y, want, label, suffix, count, runtime_key):
    """C04 facts on `y` + the blocks under its advertised keys against NumPy.  -> list[(sig, detail)]"""
    from harness.props import C04

    fails = []
    info = {}
    bad, nl, nt = C04.check_array(y, label, info=info)
    fails += [(s + suffix, d) for s, d in bad]
    if count:
        ctx.notes["operands_layers_monitored"] = ctx.notes.get("operands_layers_monitored", 0) + nl
    if bad or want is None:
        return fails
    if info.get("execute_error") is not None:  # a task raising at run time: not the graph's structure
        e = info["execute_error"]
        if count:
            _note(ctx, runtime_key, f"{type(e).__name__}: {str(e)[:120]} :: {label}")
        return fails
    values = info.get("values")
    if values is None:
        return fails  # graph too large to be executed here
    try:
        got = graphs.assemble(y, values)
    except Exception as e:  # noqa: BLE001
        if count:
            _note(ctx, runtime_key, f"{type(e).__name__}: {str(e)[:120]} :: {label}")
        return fails
    if not _same(got, want):
        fails.append(("advertised-keys-wrong-value" + suffix,
                      f"{label}: blocks under the advertised keys assemble to {_show(got)}, NumPy says {_show(want)}"))
    return fails


# =========================================================================================== (A) multiuse

def _dbl(b):
    return b * 2


def _blk_lin(p, q, perm=None):
    return p - 2 * (q if perm is None else q.transpose(perm))


# producers: name -> f(m, x, y, da_mode) ; x, y sources of one shape (y possibly chunked differently)
def _prod(name, m, x, y, da_mode, case):
    if name == "src":
        return x
    if name == "add1":
        return x + 1
    if name == "chain":
        return (x + 1) * 2 - 3
    if name == "self":
        return x + x
    if name == "two":
        return x - y
    if name == "mapb":
        return x.map_blocks(_dbl, dtype=x.dtype) if da_mode else _dbl(x)
    if name == "mapb_add":
        return (x.map_blocks(_dbl, dtype=x.dtype) if da_mode else _dbl(x)) + 1
    if name == "astype":
        return (x + 1).astype("float32")
    if name == "where":
        return m.where(x > 0, x, -x + 1)
    if name == "ones":
        if da_mode:
            return x + m.ones(x.shape, chunks=x.chunks, dtype=x.dtype)
        return x + 1
    if name == "full":
        if da_mode:
            return m.full(x.shape, 3.0, chunks=x.chunks) * 2
        return np.full(x.shape, 3.0) * 2
    if name == "rand":
        if da_mode:
            return m.random.default_rng(case.get("rseed", 7)).integers(0, 9, size=x.shape, chunks=x.chunks).astype("float64")
        import dask_array as da

        return da.random.default_rng(case.get("rseed", 7)).integers(0, 9, size=x.shape, chunks=case["_xchunks"]).compute(scheduler="sync").astype("float64")
    if name == "rand_add":
        r = _prod("rand", m, x, y, da_mode, case)
        return r + x
    if name == "rechunk":
        if da_mode:
            return (x + 1).rechunk(y.chunks) + 0
        return x + 1
    if name == "slice":
        idx = tuple(slice(None, None, -1) for _ in range(x.ndim))
        return (x + 1)[idx] * 2
    if name == "persist":
        return (x + 1).persist(scheduler="sync") if da_mode else x + 1
    raise KeyError(name)


PRODUCERS = ("src", "add1", "chain", "self", "two", "mapb", "mapb_add", "astype", "where", "ones", "full", "rand", "rand_add",
             "rechunk", "slice", "persist")
# how the consumer's second operand relates to the first
SECONDS = ("same", "same", "same", "derived", "T", "other")

# consumers: name -> (subscripts that describe the label structure, uses = operand index per term)
#   operand 0 = a, operand 1 = b (see SECONDS).  kind decides which API call is made.
CONSUMERS = {
    # einsum, two uses of one operand under different index maps
    "einsum:ij,ji->ij": ("einsum", "ij,ji->ij", (0, 1)),
    "einsum:ij,ji->ji": ("einsum", "ij,ji->ji", (0, 1)),
    "einsum:ij,ji->": ("einsum", "ij,ji->", (0, 1)),
    "einsum:ij,ji->i": ("einsum", "ij,ji->i", (0, 1)),
    "einsum:ij,jk->ik": ("einsum", "ij,jk->ik", (0, 1)),
    "einsum:ij,kj->ik": ("einsum", "ij,kj->ik", (0, 1)),
    "einsum:ij,ik->jk": ("einsum", "ij,ik->jk", (0, 1)),
    "einsum:ij,ij->ji": ("einsum", "ij,ij->ji", (0, 1)),
    "einsum:ij,jk->ijk": ("einsum", "ij,jk->ijk", (0, 1)),
    "einsum:ij,ji,ij->ij": ("einsum", "ij,ji,ij->ij", (0, 1, 0)),
    "einsum:ij,jk,ki->i": ("einsum", "ij,jk,ki->i", (0, 1, 0)),
    "einsum:ij->ji": ("einsum", "ij->ji", (0,)),
    "einsum:ii->i": ("einsum", "ii->i", (0,)),
    "einsum:ii->": ("einsum", "ii->", (0,)),
    "einsum:iij->ij": ("einsum", "iij->ij", (0,)),
    "blockwise:ii->i": ("blockwise", "ii->i", (0,)),
    "einsum:i,j->ij": ("einsum", "i,j->ij", (0, 1)),
    "einsum:i,j->ji": ("einsum", "i,j->ji", (0, 1)),
    "einsum:ijk,kji->ijk": ("einsum", "ijk,kji->ijk", (0, 1)),
    "einsum:ijk,jik->kij": ("einsum", "ijk,jik->kij", (0, 1)),
    "einsum:ijk,kji->j": ("einsum", "ijk,kji->j", (0, 1)),
    # the same through da.blockwise (concatenate=True when a label is contracted)
    "blockwise:ij,ji->ij": ("blockwise", "ij,ji->ij", (0, 1)),
    "blockwise:ij,ji->ji": ("blockwise", "ij,ji->ji", (0, 1)),
    "blockwise:ij,ji,ij->ij": ("blockwise", "ij,ji,ij->ij", (0, 1, 0)),
    "blockwise:ij,ji->i": ("blockwise", "ij,ji->i", (0, 1)),
    "blockwise:ij,jk->ik": ("blockwise", "ij,jk->ik", (0, 1)),
    "blockwise:ijk,kji->ijk": ("blockwise", "ijk,kji->ijk", (0, 1)),
    "blockwise:i,j->ij": ("blockwise", "i,j->ij", (0, 1)),
    "blockwise-lin:ij,ji": ("blockwise-lin", "ij,ji->ij", (0, 1)),
    "blockwise-lin:ijk,kij": ("blockwise-lin", "ijk,kij->ijk", (0, 1)),
    # contractions / products
    "tensordot:1": ("tensordot", "ij,jk->ik", (0, 1), 1),
    "tensordot:0,0": ("tensordot", "ij,ik->jk", (0, 1), [[0], [0]]),
    "tensordot:1,1": ("tensordot", "ij,kj->ik", (0, 1), [[1], [1]]),
    "tensordot:01,10": ("tensordot", "ij,ji->", (0, 1), [[0, 1], [1, 0]]),
    "tensordot:01,01": ("tensordot", "ij,ij->", (0, 1), [[0, 1], [0, 1]]),
    "tensordot:outer": ("tensordot", "ij,kl->ijkl", (0, 1), 0),
    "matmul": ("matmul", "ij,jk->ik", (0, 1)),
    "matmul:T": ("matmulT", "ij,kj->ik", (0, 1)),
    "dot": ("dot", "ij,jk->ik", (0, 1)),
    "outer": ("outer", "i,j->ij", (0, 1)),
    "vdot:T": ("vdotT", "ij,ji->", (0, 1)),
    # elementwise family with the operand and its transpose
    "add:T": ("addT", "ij,ji->ij", (0, 1)),
    "mulsub:T": ("mulsubT", "ij,ji,ij->ij", (0, 1, 0)),
    "where:T": ("whereT", "ij,ji->ij", (0, 1)),
    "where3:T": ("where3T", "ij,ji,ij->ij", (0, 1, 0)),
    "maximum:T": ("maximumT", "ij,ji->ij", (0, 1)),
    "stack:T": ("stackT", "ij,ji->ij", (0, 1)),
    "concatenate:T": ("concatT", "ij,ji->ij", (0, 1)),
    "bcast:self": ("bcast", "ij,jk->ijk", (0, 1)),
    "bcast:vec": ("bcastvec", "i,j->ij", (0, 1)),
    "map_blocks:T": ("mapblocksT", "ij,ji->ij", (0, 1)),
}
POSTS = (None, None, None, "add1", "T", "sum0", "slice", "negT")


def _consume(name, m, a, b, da_mode):
    spec = CONSUMERS[name]
    kind, sub, uses = spec[0], spec[1], spec[2]
    ops = [a if u == 0 else b for u in uses]
    if kind == "einsum":
        return m.einsum(sub, *ops)
    if kind == "blockwise":
        ins, out = sub.split("->")
        terms = ins.split(",")
        if not da_mode:
            return np.einsum(sub, *ops)
        contracted = set("".join(terms)) - set(out)
        args = []
        for o, t in zip(ops, terms):
            args += [o, t]
        kw = {"concatenate": True} if contracted else {}
        return m.blockwise(functools.partial(np.einsum, sub), out, *args, dtype="float64", **kw)
    if kind == "blockwise-lin":
        ins, out = sub.split("->")
        t0, t1 = ins.split(",")
        perm = tuple(t1.index(c) for c in out)
        if not da_mode:
            return _blk_lin(ops[0], ops[1], perm)
        return m.blockwise(functools.partial(_blk_lin, perm=perm), out, ops[0], t0, ops[1], t1, dtype="float64")
    if kind == "tensordot":
        ax = spec[3]
        return m.tensordot(a, b, axes=ax if isinstance(ax, int) else tuple(tuple(x) for x in ax))
    if kind == "matmul":
        return m.matmul(a, b)
    if kind == "matmulT":
        return m.matmul(a, b.T)
    if kind == "dot":
        return m.dot(a, b)
    if kind == "outer":
        return m.outer(a, b)
    if kind == "vdotT":
        return m.vdot(a, b.T)
    if kind == "addT":
        return a + b.T
    if kind == "mulsubT":
        return a * b.T - a
    if kind == "whereT":
        return m.where(a > 0, a, b.T)
    if kind == "where3T":
        return m.where(a > b.T, a, b.T)
    if kind == "maximumT":
        return m.maximum(a, b.T)
    if kind == "stackT":
        return m.stack([a, b.T])
    if kind == "concatT":
        return m.concatenate([a, b.T], axis=1)
    if kind == "bcast":
        return a[:, :, None] * b[None, :, :]
    if kind == "bcastvec":
        return a[:, None] - 2 * b[None, :]
    if kind == "mapblocksT":
        if not da_mode:
            return _blk_lin(a, b.T)
        return m.map_blocks(_blk_lin, a, b.T, dtype="float64")
    raise KeyError(kind)


def _post(name, m, y):
    if name is None or getattr(y, "ndim", 0) == 0:
        return y
    if name == "add1":
        return y + 1
    if name == "T":
        return y.T
    if name == "negT":
        return (-y).T + 1
    if name == "sum0":
        return y.sum(axis=0)
    if name == "slice":
        return y[tuple(slice(None, None, 2) if d == y.ndim - 1 else slice(1, None) for d in range(y.ndim))]
    raise KeyError(name)


def _plan(consumer, second):
    """Union-find over labels and operand axes: which axes are tied to one size.  -> (ranks, classes)
    ranks: rank of operand 0 / 1; classes: list of lists of (operand, axis)."""
    spec = CONSUMERS[consumer]
    sub, uses = spec[1], spec[2]
    terms = sub.split("->")[0].split(",")
    parent = {}

    def find(a):
        parent.setdefault(a, a)
        while parent[a] != a:
            parent[a] = parent[parent[a]]
            a = parent[a]
        return a

    def union(a, b):
        parent[find(a)] = find(b)

    ranks = {}
    for t, u in zip(terms, uses):
        ranks[u] = len(t)
        for d, c in enumerate(t):
            union(("L", c), ("A", u, d))
    if 1 not in ranks:
        ranks[1] = ranks[0]
    if second in ("same", "derived"):
        # operand 1 IS operand 0 (or an elementwise function of it): same axes
        if ranks[0] != ranks[1]:
            return None
        for d in range(ranks[0]):
            union(("A", 0, d), ("A", 1, d))
    elif second == "T":
        if ranks[0] != ranks[1]:
            return None
        for d in range(ranks[0]):
            union(("A", 0, d), ("A", 1, ranks[0] - 1 - d))
    groups = {}
    for k in list(parent):
        if k[0] == "A":
            groups.setdefault(find(k), []).append((k[1], k[2]))
    return [ranks[0], ranks[1]], sorted(sorted(g) for g in groups.values())


def gen_multiuse(rng, consumer=None, producer=None, second=None, post=None, symmetric=None, pick_post=True):
    """One multiuse case (without the optimize flag)."""
    for _ in range(50):
        c = consumer or rng.choice(sorted(CONSUMERS))
        s = second or rng.choice(SECONDS)
        if 1 not in CONSUMERS[c][2]:
            s = "same"  # a single-operand consumer (the operand's axes tied by a repeated label)
        plan = _plan(c, s)
        if plan is not None:
            break
        if consumer and second:
            return None
    else:
        return None
    ranks, classes = plan
    sym = rng.random() < 0.75 if symmetric is None else symmetric
    shapes = [[0] * ranks[0], [0] * ranks[1]]
    chunks = [[None] * ranks[0], [None] * ranks[1]]
    ychunks = [[None] * ranks[0], [None] * ranks[1]]
    big = sum(ranks) >= 5
    for g in classes:
        n = rng.choice([2, 3, 4] if big else [4, 4, 5, 6])
        base = _chunking(rng, n)
        for (o, d) in g:
            shapes[o][d] = n
            chunks[o][d] = list(base) if sym else _chunking(rng, n)
            ychunks[o][d] = _chunking(rng, n)
    case = {"kind": "multiuse", "consumer": c, "second": s, "producer": producer or rng.choice(PRODUCERS),
            "shape": shapes[0], "chunks": chunks[0], "ychunks": ychunks[0],
            "post": (rng.choice(POSTS) if pick_post else None) if post is None else (post or None)}
    if s == "other":
        case["shape2"], case["chunks2"], case["producer2"] = shapes[1], chunks[1], rng.choice(PRODUCERS[:10])
    if case["producer"].startswith("rand"):
        case["rseed"] = rng.randint(0, 999)
    return case


def _chunking(rng, n):
    """a chunking of n with >= 2 blocks whenever n >= 2"""
    if n < 2:
        return [n]
    for _ in range(20):
        c = list(programs.gen.rand_chunks(rng, n))
        if len(c) >= 2:
            return c
    k = rng.randint(1, n - 1)
    return [k, n - k]


def build_multiuse(case, da_mode):
    import dask_array as da

    m = da if da_mode else np
    shape = tuple(case["shape"])

    def src(shape, chunks, mul, off):
        d = _data(shape, mul=mul, off=off)
        return da.from_array(d, chunks=tuple(tuple(c) for c in chunks)) if da_mode else d

    x = src(shape, case["chunks"], 7, 3)
    y = src(shape, case["ychunks"], 5, 1)
    c = dict(case, _xchunks=tuple(tuple(k) for k in case["chunks"]))
    a = _prod(case["producer"], m, x, y, da_mode, c)
    s = case["second"]
    if s == "same":
        b = a
    elif s == "derived":
        b = a * 2
    elif s == "T":
        b = a.T
    else:
        x2 = src(tuple(case["shape2"]), case["chunks2"], 3, 2)
        c2 = dict(case, _xchunks=tuple(tuple(k) for k in case["chunks2"]))
        b = _prod(case["producer2"], m, x2, x2, da_mode, c2)
    if da_mode:
        _LAST["a"], _LAST["b"] = a.chunks, b.chunks
        if CONSUMERS[case["consumer"]][0] == "mapblocksT" and a.chunks != b.T.chunks:
            # da.map_blocks does not align its operands: equal block structure is its precondition
            raise NotImplementedError("map_blocks over differently chunked operands")
    out = _consume(case["consumer"], m, a, b, da_mode)
    return _post(case.get("post"), m, out)


_LAST = {}


SIG_REPEATED_LABEL = "blockwise:repeated-label-in-one-operand:axes-chunked-differently"


def repeated_label_class(case):
    """Predicate on the INPUT: a term of the consumer carries one label on two axes of the operand and those axes are
    chunked differently.  Before /repo 85d14bd `unify_chunks_expr` did not consolidate two axes of ONE array, so the
    diagonal blocks (k, k) were not square (da.blockwise(np.diagonal, 'i', x, 'ii'): wrong block extents; einsum: raises);
    a failure on such an input is reported under the signature of that (repaired) class."""
    spec = CONSUMERS[case["consumer"]]
    terms = spec[1].split("->")[0].split(",")
    for t, u in zip(terms, spec[2]):
        if len(set(t)) == len(t):
            continue
        ch = _LAST.get("a" if u == 0 else "b")  # the operand's advertised chunks (recorded when the case was built)
        if ch is None or len(ch) != len(t):
            continue
        for c in set(t):
            axes = [d for d, k in enumerate(t) if k == c]
            if len({tuple(ch[d]) for d in axes}) > 1:
                return True
    return False


def run_multiuse(ctx, case, count=True):
    """-> list of (signature, detail), or None when the program is refused at construction."""
    import dask

    with warnings.catch_warnings():
        warnings.simplefilter("ignore")
        try:
            with np.errstate(all="ignore"):
                want = np.asarray(build_multiuse(case, False))
        except Exception as e:  # noqa: BLE001 - not a program NumPy accepts
            if count:
                _note(ctx, "multiuse_numpy_refused", f"{type(e).__name__}: {str(e)[:80]} :: {case['consumer']}")
            return None
        label = f"{case['consumer']}[{case['producer']},{case['second']}]" + (f".{case['post']}" if case.get("post") else "")
        with dask.config.set({"array.optimize-graph": bool(case.get("optimize", True))}):
            _LAST.clear()
            try:
                y = build_multiuse(case, True)
            except (NotImplementedError, ValueError, TypeError) as e:
                if count:
                    _note(ctx, "multiuse_refused_at_construction", f"{type(e).__name__}: {str(e)[:100]} :: {label}")
                return None
            try:
                fails = check_collection(ctx, y, want, label, "@multiuse", count, "multiuse_task_raised_at_run_time")
            except NotImplementedError:
                return None
            except Exception as e:  # noqa: BLE001
                msg = f"{type(e).__name__}: {e}"
                fails = [(f"graph-raises:{type(e).__name__}@multiuse", f"{label}: building/inspecting the graph raised {msg[:240]}")]
            if count:
                kinds = tuple(sorted({type(n).__name__ for n in y._lowered_expr.walk()}))
                ctx.count(("multiuse", case["consumer"].split(":")[0], case["second"], bool(case.get("optimize", True)),
                           "FusedBlockwise" in kinds))
                ctx.count(("multiuse-cell", case["consumer"], case["producer"]), n=0)
    if fails and repeated_label_class(case):
        fails = [(SIG_REPEATED_LABEL, d) for s, d in fails]
    return [(s, f"{d}  [{_describe_multiuse(case)}]") for s, d in fails]


def _describe_multiuse(case):
    return (f"a = {case['producer']}(x{tuple(case['shape'])} chunks {case['chunks']}), b = {case['second']}; "
            f"{case['consumer']}(a, b){'.' + case['post'] if case.get('post') else ''}; optimize-graph={case.get('optimize', True)}")


def shrink_multiuse(case, still):
    cur = dict(case)
    for key, vals in (("post", [None]), ("producer", ["add1", "src"]), ("second", ["same"]), ("producer2", ["add1"])):
        for v in vals:
            if key in cur and cur[key] != v:
                c = dict(cur, **{key: v})
                if key == "second" and v == "same":
                    c = {k: w for k, w in c.items() if k not in ("shape2", "chunks2", "producer2")}
                    if _plan(c["consumer"], "same") is None:
                        continue
                try:
                    if still(c):
                        cur = c
                        break
                except Exception:
                    pass
    # coarser chunkings: merge blocks down to two per axis
    for ax in range(len(cur["chunks"])):
        ch = cur["chunks"][ax]
        n = sum(ch)
        if len(ch) > 2:
            for k in (n // 2, ch[0]):
                if 0 < k < n:
                    c = dict(cur, chunks=[list(v) for v in cur["chunks"]])
                    c["chunks"][ax] = [k, n - k]
                    try:
                        if still(c):
                            cur = c
                            break
                    except Exception:
                        pass
    return cur


# =========================================================================================== (B) arrayparam

# distribution -> (Generator method, RandomState/module method, [(parameter name, role)], what the draw equals)
#   roles: A carrier (floats 1..9), Ai the same as integers, Ai1 = Ai + 1, A01 = A / 10, Z zeros, ONE ones, P positive
AP_DISTS = {
    "normal": ("normal", "normal", [("loc", "A"), ("scale", "Z")], "A"),
    "normal:free": ("normal", "normal", [("loc", "A"), ("scale", "P")], None),
    "poisson": ("poisson", "poisson", [("lam", "Z")], "0"),
    "poisson:free": ("poisson", "poisson", [("lam", "A")], None),
    "uniform": ("uniform", "uniform", [("low", "A"), ("high", "A")], "A"),
    "laplace": ("laplace", "laplace", [("loc", "A"), ("scale", "Z")], "A"),
    "logistic": ("logistic", "logistic", [("loc", "A"), ("scale", "Z")], "A"),
    "gumbel": ("gumbel", "gumbel", [("loc", "A"), ("scale", "Z")], "A"),
    "lognormal": ("lognormal", "lognormal", [("mean", "A01"), ("sigma", "Z")], "expA01"),
    "binomial": ("binomial", "binomial", [("n", "Ai"), ("p", "ONE")], "A"),
    "exponential": ("exponential", "exponential", [("scale", "Z")], "0"),
    "gamma": ("gamma", "gamma", [("shape", "A"), ("scale", "Z")], "0"),
    "rayleigh": ("rayleigh", "rayleigh", [("scale", "Z")], "0"),
    "geometric": ("geometric", "geometric", [("p", "ONE")], "1"),
    "integers": ("integers", "randint", [("low", "Ai"), ("high", "Ai1")], "A"),
    "chisquare:free": ("chisquare", "chisquare", [("df", "A")], None),
    "beta:free": ("beta", "beta", [("a", "A"), ("b", "P")], None),
}
AP_EXPLICIT = ("normal", "normal:free", "poisson", "poisson:free")  # node classes with explicit array operands
LIKE = ("ones_like", "zeros_like", "full_like", "empty_like")
FRONTS = ("default_rng", "default_rng", "RandomState", "module", "PCG64", "MT19937", "Philox", "SFC64")
CHUNK_SIZES = ("64B", "64B", "128B", "256B", "1kiB", "128MiB")
AP_POSTS = (None, None, None, "mul2", "T", "slice", "sum", "addparam")
PARAM_EXPRS = ("src", "src", "add0", "chain", "T", "rechunk", "persist", "slice", "create")


def _role_values(role, shape):
    a = (_data(shape, mul=3, off=1, mod=9, shift=1)).astype("float64")  # 1..9
    if role == "A":
        return a
    if role == "Ai":
        return a.astype("int64")
    if role == "Ai1":
        return a.astype("int64") + 1
    if role == "A01":
        return a / 10.0
    if role == "Z":
        return np.zeros(shape)
    if role == "ONE":
        return np.ones(shape)
    if role == "P":
        return a / 4.0 + 0.5
    raise KeyError(role)


def _role_scalar(role):
    return {"A": 3.0, "Ai": 3, "Ai1": 4, "A01": 0.3, "Z": 0.0, "ONE": 1.0, "P": 1.5}[role]


def _bshape(kind, shape):
    shape = list(shape)
    if kind == "full" or not shape:
        return shape
    if kind == "vec":  # fewer dimensions: the last axis
        return shape[-1:]
    if kind == "row":
        return [1] * (len(shape) - 1) + shape[-1:]
    if kind == "col":
        return shape[:1] + [1] * (len(shape) - 1)
    raise KeyError(kind)


def _want_param(p, role, shape):
    """the parameter's value broadcast to the output shape (what NumPy would use)"""
    if p["how"] == "s":
        return np.broadcast_to(np.asarray(_role_scalar(role)), tuple(shape)).astype("float64")
    return np.broadcast_to(_role_values(role, tuple(p["bshape"])), tuple(shape)).astype("float64")


def _make_param(p, role, da_mod):
    """the parameter object handed to the distribution"""
    if p["how"] == "s":
        return _role_scalar(role)
    vals = _role_values(role, tuple(p["bshape"]))
    if p["how"] == "np":
        return vals
    chunks = tuple(tuple(c) for c in p["chunks"])
    e = p.get("expr", "src")
    if e == "T" and vals.ndim >= 2:
        src = da_mod.from_array(np.ascontiguousarray(vals.T), chunks=chunks[::-1])
        return src.T
    if e == "create" and role in ("Z", "ONE"):
        return (da_mod.zeros if role == "Z" else da_mod.ones)(vals.shape, chunks=chunks, dtype=vals.dtype)
    src = da_mod.from_array(vals, chunks=chunks)
    if e == "add0":
        return src + 0
    if e == "chain":
        return (src + 1) * 2 // 2 - 1 if vals.dtype.kind == "i" else (src + 1) * 2 / 2 - 1
    if e == "rechunk":
        return (src + 0).rechunk(tuple(max(1, s // 2) for s in vals.shape))
    if e == "persist":
        return (src + 0).persist(scheduler="sync")
    if e == "slice":
        big = da_mod.from_array(np.concatenate([vals, vals], axis=0), chunks=(tuple(chunks[0]) * 2,) + chunks[1:])
        return big[: vals.shape[0]]
    return src


def _front(case):
    import dask_array as da

    f, seed = case["front"], case["seed"]
    if f == "default_rng":
        return da.random.default_rng(seed), True
    if f in ("PCG64", "MT19937", "Philox", "SFC64"):
        return da.random.Generator(getattr(np.random, f)(seed)), True
    if f == "RandomState":
        return da.random.RandomState(seed), False
    da.random.seed(seed)
    return da.random, False


def build_arrayparam(case):
    """-> (collection, expected NumPy value or None).  Called under the case's configuration."""
    import dask_array as da

    dist = case["dist"]
    shape = tuple(case["shape"])
    chunks = case.get("chunks", "auto")
    if isinstance(chunks, list):
        chunks = tuple(tuple(c) if isinstance(c, list) else c for c in chunks)
    if dist in LIKE:
        p = case["params"][0]
        a = _make_param(p, "A", da)
        kw = {}
        if "chunks" in case:
            kw["chunks"] = chunks
        if case.get("like_shape"):
            kw["shape"] = tuple(case["like_shape"])
        oshape = tuple(case.get("like_shape") or shape)
        if dist == "full_like":
            y, want = da.full_like(a, 2.5, **kw), np.full(oshape, 2.5)
        elif dist == "ones_like":
            y, want = da.ones_like(a, **kw), np.ones(oshape)
        elif dist == "zeros_like":
            y, want = da.zeros_like(a, **kw), np.zeros(oshape)
        else:
            y, want = da.empty_like(a, **kw), None
        return _ap_post(case, y, want, a, None)
    if dist in ("choice", "permutation"):
        g, is_gen = _front(case)
        pa = case["params"][0]
        a = _make_param(pa, "A", da)
        if dist == "permutation":
            return g.permutation(a), None
        kw = {"size": shape}
        if "chunks" in case:
            kw["chunks"] = chunks
        want = None
        if len(case["params"]) > 1:
            pp = case["params"][1]
            hot = np.zeros(pa["bshape"][0])
            hot[pp["hot"]] = 1.0
            kw["p"] = hot if pp["how"] == "np" else da.from_array(hot, chunks=tuple(tuple(c) for c in pp["chunks"]))
            want = np.full(shape, _role_values("A", tuple(pa["bshape"]))[pp["hot"]])  # a one-hot p: every draw is a[hot]
        return _ap_post(case, g.choice(a, **kw), want, None, None)
    gm, rm, roles, equals = AP_DISTS[dist]
    g, is_gen = _front(case)
    for _ in range(case.get("prefix", 0)):  # earlier draws from the same generator advance its state
        (g.random if is_gen else g.random_sample)(size=(3,), chunks=(2,))
    meth = getattr(g, gm if is_gen else rm)
    objs = []
    for p, (pname, role) in zip(case["params"], roles):
        if p["how"] == "ref":
            objs.append(objs[p["ref"]])
        else:
            objs.append(_make_param(p, role, da))
    args, kwargs = [], {}
    for p, (pname, role), o in zip(case["params"], roles, objs):
        if p.get("kw"):
            kwargs[pname] = o
        else:
            args.append(o)
    if case.get("size", True):
        kwargs["size"] = shape
    if "chunks" in case:
        kwargs["chunks"] = chunks
    y = meth(*args, **kwargs)
    want = None
    if equals is not None:
        p0 = case["params"][0]
        if equals in ("A", "expA01"):
            want = _want_param(p0 if p0["how"] != "ref" else case["params"][p0["ref"]], roles[0][1], shape)
            if equals == "expA01":
                want = np.exp(want)
        else:
            want = np.full(shape, float(equals))
    first = next((o for o in objs if hasattr(o, "dask") or hasattr(o, "expr")), None)
    first_np = None
    if first is not None:
        i = [k for k, o in enumerate(objs) if o is first][0]
        first_np = _want_param(case["params"][i], roles[i][1], shape)
    return _ap_post(case, y, want, first, first_np)


def _ap_post(case, y, want, param, param_np):
    post = case.get("post")
    if post is None or y.ndim == 0:
        return y, want
    w = want
    if post == "mul2":
        return y * 2, None if w is None else w * 2
    if post == "T":
        return y.T, None if w is None else w.T
    if post == "slice":
        idx = tuple(slice(1, None, 2) if d == 0 else slice(None, None, -1) for d in range(y.ndim))
        return y[idx], None if w is None else w[idx]
    if post == "sum":
        return y.sum(axis=0), None if w is None else w.sum(axis=0)
    if post == "addparam" and param is not None and param_np is not None:
        return y + param, None if w is None else w + param_np
    return y, want


def gen_arrayparam(rng, dist=None, front=None, auto=None, how=None):
    """One arrayparam case (without the optimize flag)."""
    # (array parameters of the OTHER distributions are the listed finding `random:array-param:generic-distribution:
    #  compute-raises` — the generic Random node keeps them as whole collections: nothing structural to see — and are
    #  walked by the systematic part only, one case per distribution)
    dist = dist or rng.choice(list(AP_EXPLICIT) * 3 + list(LIKE) + ["choice", "permutation"])
    nd = rng.choice([1, 2, 2, 2, 3])
    shape = [rng.choice([4, 6, 8, 10, 12]) if nd <= 2 else rng.choice([2, 3, 4]) for _ in range(nd)]
    case = {"kind": "arrayparam", "dist": dist, "front": front or rng.choice(FRONTS), "seed": rng.randint(0, 9999), "shape": shape}
    auto = rng.random() < 0.6 if auto is None else auto
    if auto:
        r = rng.random()
        if r < 0.5:
            case["chunks"] = "auto"
        elif r < 0.8:
            pass  # chunks omitted: the default
        else:
            case["chunks"] = rng.choice(["64B", "96B", "200B"])
        case["chunk_size"] = rng.choice(CHUNK_SIZES)
    else:
        r = rng.random()
        if r < 0.7:
            case["chunks"] = [list(_chunking(rng, n)) if rng.random() < 0.8 else [n] for n in shape]
        elif r < 0.85:
            case["chunks"] = [rng.randint(1, n) for n in shape]
        else:
            case["chunks"] = [-1 if rng.random() < 0.5 else rng.randint(1, n) for n in shape]
        if rng.random() < 0.3:
            case["chunk_size"] = rng.choice(CHUNK_SIZES)

    def param(role, force_array=False, kinds=("full", "full", "full", "row", "col", "vec"), like=None):
        h = how or rng.choice(["da", "da", "da", "np", "np", "s"])
        if like is not None:  # a parameter that must agree elementwise with an earlier one: same kind of object, same shape
            h = like["how"]
        if force_array and h == "s":
            h = "da"
        if h == "s":
            return {"how": "s"}
        b = rng.choice(kinds) if nd > 1 else "full"
        bs = list(like["bshape"]) if like is not None else _bshape(b, shape)
        p = {"how": h, "bshape": bs}
        if h == "da":
            style = rng.choice(["rows", "cols", "rand", "rand", "single", "ones"])
            ch = []
            for d, n in enumerate(bs):
                if n == 1 or style == "single":
                    ch.append([n])
                elif style == "rows":
                    ch.append(_chunking(rng, n) if d == 0 else [n])
                elif style == "cols":
                    ch.append([n] if d == 0 else _chunking(rng, n))
                elif style == "ones":
                    ch.append([1] * n)
                else:
                    ch.append(_chunking(rng, n))
            p["chunks"] = ch
            p["expr"] = rng.choice(PARAM_EXPRS)
        return p

    if dist in ("choice", "permutation"):
        # a dask / NumPy array POPULATION (and a one-hot probability vector: every draw is a[hot])
        n = rng.choice([4, 5, 6, 9])
        case["shape"] = shape = [rng.choice([4, 6, 9])] + ([rng.choice([2, 3])] if rng.random() < 0.4 else [])
        if isinstance(case.get("chunks"), list):
            case["chunks"] = [list(_chunking(rng, m)) for m in shape]
        # (permutation of a NumPy array is not offered: shuffle_slice reads `.chunks` of its argument)
        pa = {"how": rng.choice(["da", "da", "np"]) if dist == "choice" else "da", "bshape": [n], "chunks": [_chunking(rng, n)], "expr": rng.choice(PARAM_EXPRS[:4] + ("rechunk", "persist"))}
        case["params"] = [pa]
        if dist == "choice" and rng.random() < 0.7:
            case["params"].append({"how": rng.choice(["np", "da"]), "hot": rng.randrange(n), "chunks": [_chunking(rng, n)]})
        case["post"] = rng.choice([None, None, "mul2", "sum"]) if dist == "choice" else None
        return case
    if dist in LIKE:
        case["params"] = [param("A", force_array=True, kinds=("full",))]
        case["params"][0]["how"] = "da" if rng.random() < 0.85 else "np"
        if case["params"][0]["how"] == "da" and "chunks" not in case["params"][0]:
            case["params"][0]["chunks"] = [_chunking(rng, n) for n in shape]
            case["params"][0]["expr"] = rng.choice(PARAM_EXPRS)
        if rng.random() < 0.3:
            case["like_shape"] = [rng.choice([3, 5, 8, 12]) for _ in range(rng.choice([1, 2]))]
        if rng.random() < 0.5:
            case.pop("chunks", None)  # chunks=None: the layout of `a` (or auto for a new shape)
        case["post"] = rng.choice([None, None, "mul2", "T", "sum"])
        return case
    roles = AP_DISTS[dist][2]
    params = []
    for i, (pname, role) in enumerate(roles):
        tied = i and role in (roles[0][1], "Ai1")  # the draw is degenerate only when this parameter follows the first one
        if tied and role == roles[0][1] and rng.random() < 0.7 and params[0]["how"] != "s":
            params.append({"how": "ref", "ref": 0})  # the same array for both parameters
        elif tied:
            params.append(param(role, like=params[0]))
        else:
            params.append(param(role, force_array=(i == 0)))
    # keyword / positional (positional parameters first)
    kwfrom = rng.choice([len(params)] * 3 + list(range(len(params))))
    for i, p in enumerate(params):
        if i >= kwfrom:
            p["kw"] = True
    case["params"] = params
    full = any(p["how"] in ("da", "np") and p["bshape"] == shape for p in params)
    case["size"] = not (full and rng.random() < 0.4)
    case["post"] = rng.choice(AP_POSTS)
    return case


def run_arrayparam(ctx, case, count=True):
    """-> list of (signature, detail), or None when refused at construction."""
    import dask

    cfg = {"array.optimize-graph": bool(case.get("optimize", True))}
    if case.get("chunk_size"):
        cfg["array.chunk-size"] = case["chunk_size"]
    label = f"{case['front']}.{case['dist']}" + (f".{case['post']}" if case.get("post") else "")
    with warnings.catch_warnings():
        warnings.simplefilter("ignore")
        with dask.config.set(cfg), np.errstate(all="ignore"):
            try:
                y, want = build_arrayparam(case)
            except (NotImplementedError, ValueError, TypeError) as e:
                if count:
                    _note(ctx, "arrayparam_refused_at_construction", f"{type(e).__name__}: {str(e)[:100]} :: {label}")
                return None
            explicit = case["dist"] in AP_EXPLICIT or case["dist"] in LIKE or case["dist"] in ("choice", "permutation")
            try:
                fails = check_collection(ctx, y, want, label, "@arrayparam", count,
                                         "arrayparam_task_raised_at_run_time" + ("" if explicit else ":generic-distribution"))
            except NotImplementedError:
                return None
            except Exception as e:  # noqa: BLE001
                msg = f"{type(e).__name__}: {e}"
                if not explicit and isinstance(e, ValueError) and "shape mismatch" in msg:
                    # the generic Random node keeps an array-valued parameter as a whole COLLECTION inside its args /
                    # kwargs operands: deriving its meta (first asked for by a consumer's chunks / dtype) hands the
                    # whole parameter to NumPy next to size=(0, …).  A refusal while metadata is derived, not a statement
                    # about a graph (reported by C23 as `random:array-param:generic-distribution:compute-raises`).
                    if count:
                        _note(ctx, "arrayparam_generic_distribution_meta_raises", f"{msg[:120]} :: {label}")
                    return None
                fails = [(f"graph-raises:{type(e).__name__}@arrayparam", f"{label}: building/inspecting the graph raised {msg[:240]}")]
            if count and not fails:
                hows = tuple(sorted({p["how"] + (":" + ("full" if p.get("bshape") == case["shape"] else "bcast") if p["how"] in ("da", "np") and "bshape" in p else "")
                                     for p in case["params"]}))
                auto = case.get("chunks", "auto") == "auto" or isinstance(case.get("chunks"), str)
                splits = int(np.prod(y.numblocks)) > 1 if y.ndim else False
                ctx.count(("arrayparam", case["dist"].split(":")[0], "gen" if case["front"] not in ("RandomState", "module") else case["front"],
                           hows, "auto" if auto else "explicit", bool(case.get("optimize", True))))
                if auto and splits:
                    _note(ctx, "arrayparam_auto_splits")
                has_deps = any(len(n.dependencies()) for n in y.expr.walk() if type(n).__name__.startswith("Random"))
                if has_deps:
                    _note(ctx, "arrayparam_random_nodes_with_array_dependencies")
    return [(s, f"{d}  [{_describe_arrayparam(case)}]") for s, d in fails]


def _describe_arrayparam(case):
    ps = []
    for p in case["params"]:
        if p["how"] == "s":
            ps.append("scalar")
        elif p["how"] == "ref":
            ps.append(f"same-as-{p['ref']}")
        elif "hot" in p:
            ps.append(f"p=one-hot({p['hot']}) {p['how']}" + (f" chunks {p['chunks']}" if p["how"] == "da" else ""))
        elif p["how"] == "np":
            ps.append(f"np{tuple(p['bshape'])}")
        else:
            ps.append(f"da{tuple(p['bshape'])} chunks {p['chunks']} {p.get('expr', 'src')}")
        if p.get("kw"):
            ps[-1] += " (keyword)"
    return (f"{case['front']}({case['seed']}).{case['dist']}({'; '.join(ps)}, size={tuple(case['shape']) if case.get('size', True) else None}, "
            f"chunks={case.get('chunks', '<omitted>')}){'.' + case['post'] if case.get('post') else ''} under array.chunk-size={case.get('chunk_size', '<default>')}, "
            f"optimize-graph={case.get('optimize', True)}")


def shrink_arrayparam(case, still):
    import json

    cur = json.loads(json.dumps(case))

    def attempt(c):
        nonlocal cur
        try:
            if still(c):
                cur = c
                return True
        except Exception:
            pass
        return False

    if cur.get("post"):
        attempt(dict(cur, post=None))
    if cur["front"] != "default_rng":
        attempt(dict(cur, front="default_rng"))
    for i in range(len(cur["params"])):
        p = cur["params"][i]
        for simpler in ({"how": "s"}, dict(p, expr="src") if p.get("expr") not in (None, "src") else None, dict(p, kw=False) if p.get("kw") and i == 0 else None):
            if simpler is None or simpler == p:
                continue
            if simpler == {"how": "s"} and any(q.get("ref") == i for q in cur["params"]):
                continue
            ps = [dict(q) for q in cur["params"]]
            ps[i] = simpler
            if attempt(dict(cur, params=ps)):
                p = simpler
    if not cur.get("size", True):
        attempt(dict(cur, size=True))
    return cur


# =========================================================================================== streams

def _walk(ctx, runner, shrinker, base, per_sig, sample=False):
    """one base case x optimize on/off; failures shrunk (first three inputs of a signature) and reported"""
    n = 0
    for opt in (True, False):
        case = dict(base, optimize=opt)
        fails = runner(ctx, case)
        if fails is None:
            break
        n += 1
        if sample and opt:
            ctx.sample({k: v for k, v in case.items() if k not in ("ychunks",)})
        seen = set()
        for sig, detail in fails:
            if sig in seen:
                continue
            seen.add(sig)
            per_sig[sig] = per_sig.get(sig, 0) + 1
            if per_sig[sig] > 3:
                ctx.notes["operands_more_failing_cases"] = ctx.notes.get("operands_more_failing_cases", 0) + 1
                continue
            small = case
            try:
                def still(c, sig=sig):
                    f = runner(ctx, c, count=False)
                    return bool(f) and any(s == sig for s, _ in f)

                small = shrinker(case, still)
                f2 = runner(ctx, small, count=False)
                detail = next((d for s, d in (f2 or []) if s == sig), detail)
            except Exception:
                small = case
            ctx.fail(sig, small, detail)
    return n


def run_stream(ctx):
    rng = ctx.rng
    per_sig = {}
    # ---- (A) systematic: every consumer x {same operand twice} x a rotating fusable producer, symmetric chunks,
    #      + every producer under the permuted-label einsum / blockwise; then random cases
    t0 = time.time()
    budget = ctx.scale(7, 90)
    done = 0
    names = sorted(CONSUMERS)
    fus = ("add1", "chain", "two", "mapb_add", "ones", "rand_add", "where", "astype")
    grid = []
    off = rng.randrange(len(fus))
    for i, c in enumerate(names):
        grid.append(gen_multiuse(rng, consumer=c, producer=fus[(i + off) % len(fus)], second="same", post=False, symmetric=True))
    for p in PRODUCERS:
        for c in ("einsum:ij,ji->ij", "blockwise-lin:ij,ji"):
            grid.append(gen_multiuse(rng, consumer=c, producer=p, second="same", post=False, symmetric=True))
    for s in ("derived", "T", "other"):
        for c in ("einsum:ij,ji->ij", "blockwise:ij,ji->ij", "tensordot:01,10", "add:T"):
            grid.append(gen_multiuse(rng, consumer=c, producer=rng.choice(fus), second=s, post=False, symmetric=True))
    grid = [g for g in grid if g is not None]
    nrand = ctx.scale(120, 2500)
    for i in range(len(grid) + nrand):
        if time.time() - t0 > budget:
            ctx.notes["multiuse_stopped_early_at"] = i
            break
        base = grid[i] if i < len(grid) else gen_multiuse(rng)
        if base is None:
            continue
        done += _walk(ctx, run_multiuse, shrink_multiuse, base, per_sig, sample=(i in (0, len(grid))))
    ctx.notes["multiuse_cases"] = done
    ctx.notes["multiuse_grid"] = len(grid)
    # ---- (B) systematic: every distribution x {output-shaped dask parameter chunked by rows / by columns, NumPy row}
    #      under chunks="auto" with a small array.chunk-size; then random cases
    t0 = time.time()
    budget = ctx.scale(6, 90)
    done = 0
    grid = []
    for d in sorted(AP_DISTS):
        for style in ("rows", "cols", "np") if d in AP_EXPLICIT else (rng.choice(("rows", "cols", "np")),):
            c = gen_arrayparam(rng, dist=d, front=rng.choice(("default_rng", "RandomState", "module", "Philox")), auto=True,
                               how="np" if style == "np" else "da")
            c["chunk_size"] = rng.choice(("64B", "128B"))
            c["shape"] = [rng.choice([6, 8, 10]), rng.choice([6, 8])]
            bk = rng.choice(["full", "row", "col", "vec"])  # one broadcast kind per case: tied parameters stay elementwise equal
            for p in c["params"]:
                if p["how"] == "da":
                    p["bshape"] = list(c["shape"])
                    n0, n1 = c["shape"]
                    p["chunks"] = [_chunking(rng, n0), [n1]] if style == "rows" else [[n0], _chunking(rng, n1)]
                elif p["how"] == "np":
                    p["bshape"] = _bshape(bk, c["shape"])
            c["size"] = True
            grid.append(c)
    for d in LIKE + ("choice", "choice", "permutation"):
        grid.append(gen_arrayparam(rng, dist=d, auto=True, front=rng.choice(("RandomState", "module", "default_rng")) if d == "choice" else None))
    nrand = ctx.scale(150, 3000)
    for i in range(len(grid) + nrand):
        if time.time() - t0 > budget:
            ctx.notes["arrayparam_stopped_early_at"] = i
            break
        base = grid[i] if i < len(grid) else gen_arrayparam(rng)
        done += _walk(ctx, run_arrayparam, shrink_arrayparam, base, per_sig, sample=(i in (0, len(grid))))
    ctx.notes["arrayparam_cases"] = done
    ctx.notes["arrayparam_grid"] = len(grid)


def replay(ctx, case):
    runner = run_multiuse if case.get("kind") == "multiuse" else run_arrayparam
    for sig, detail in runner(ctx, case) or []:
        ctx.fail(sig, case, detail)
