"""C19 extension — AXIS BOOKKEEPING of the direct `map_overlap` path (`_map_overlap_direct`, taken when `drop_axis=`,
`new_axis=` or `chunks=` is given).

One case = one `da.map_overlap` call on concrete data whose block function really changes the rank: it reads its
halo (weighted stencil, distinct weight per offset), SUMS over the dropped axes (after cutting the halo it was handed
on them), inserts the new axes (optionally stacking `rep` weighted copies along the first new axis, with `chunks=`),
with
  * rank 2–4 inputs, per-axis DIFFERENT depths (dict with missing keys / tuple / scalar / per-array list, asymmetric
    `(l, r)` with boundary "none") and per-axis DIFFERENT boundary kinds;
  * `drop_axis` as int / negative int / list / tuple / negatives in a list / mixed signs, one or two axes,
    first / middle / last; `new_axis` as int / list, before / between / after; both together;
  * `chunks=` given (the extended block sizes) or not; `trim=True` / `trim=False` (direct path only: the plain
    `trim=False` finding of the MapOverlap expression is not touched here);
  * a second input of LOWER (or equal) rank (broadcast from the right) with `align_arrays` True (own chunking) / False,
    handed over after OR BEFORE the higher-rank one (`swap`: the trim settings must come from the highest-rank input);
  * the method spelling `x.map_overlap(func, depth, boundary, **kw)`, `allow_rechunk=False` on blocks that already hold
    their halo, the per-array list spelling of depth / boundary with a single array.

Oracle (NumPy only): `np.pad` per axis with the boundary kind on the WHOLE array, the stencil on the whole padded
array, crop, sum over the normalised dropped axes, `expand_dims` at the normalised new positions; for `trim=False`
the block function applied to every extended region (np.ix_-free slicing of the padded array) and concatenated.
Checked: computed values AND shape, the advertised shape, the advertised chunks (they must add up to the shape;
when no automatic rechunk / unification can happen they must be the input's chunks on the kept axes), and that the
argument objects handed in are unchanged.  Equivalent spellings (drop_axis=-2 / 1 / [1] / (1,) on rank 3 …) are all
held against the same oracle, so they agree with each other.

Case kind "ovaxes"; signatures `overlap-axes:map_overlap:<drop|drop-neg|new|drop+new|drop-neg+new|chunks>[+two][:notrim]`
+ `` (wrong values/shape) / `:raises` / `:meta` (advertised shape) / `:chunks` (advertised chunks) / `:argument-mutated`.
"""
from __future__ import annotations

import copy
import itertools
import warnings

import numpy as np

from harness.props_ext.c19_seq import (
    REFUSALS,
    _brief,
    bound_kinds,
    dec,
    depth_lr,
    enc_boundary,
    ext_ranges,
    mk,
    pad_whole,
    safe_chunks,
    sten_lr,
)

BOUNDS = ["periodic", "reflect", "nearest", "none", 7]


# =========================================================================== block function (module level: stable token)


def f_axes(*blocks, sx=(), sy=(), drop=(), cut=(), pos=(), rep=1, swap=False):
    """stencil on every input (own axes/halo widths), broadcast sum, halo cut + sum over `drop`, new axes at `pos`
    (positions in the OUTPUT), `rep` weighted copies along the first new axis; `swap`: the lower-rank input comes first"""
    if swap:
        blocks = blocks[::-1]
    a = sten_lr(blocks[0], *sx)
    if len(blocks) > 1:
        a = a + 3 * sten_lr(blocks[1], *sy)
    if drop:
        sl = [slice(None)] * a.ndim
        for k, (c0, c1) in zip(drop, cut):
            sl[k] = slice(c0, a.shape[k] - c1)
        a = a[tuple(sl)].sum(axis=tuple(drop))
    if pos:
        a = np.expand_dims(a, tuple(pos))
        if rep > 1:
            a = np.concatenate([(j + 1) * a for j in range(rep)], axis=pos[0])
    return a


# =========================================================================== the oracle's own reading of the arguments


def _item(spec, i):
    return spec["l"][i] if isinstance(spec, dict) and "l" in spec else spec


def _as_list(v):
    if v is None:
        return []
    if isinstance(v, (list, tuple)):
        return [int(i) for i in v]
    return [int(v)]


def sten_args(lr):
    axes = [ax for ax in range(len(lr)) if tuple(lr[ax]) != (0, 0)]
    return [axes, [lr[ax][0] for ax in axes], [lr[ax][1] for ax in axes]]


def needs_no_rechunk(cks, l, r, kind):
    if min(cks) < max(l, r):
        return False
    if kind == "none" and len(cks) > 1 and (cks[0] <= l or cks[-1] <= r):
        return False
    return True


def read(case):
    """Everything the oracle needs, derived from the case alone."""
    shape = tuple(case["shape"])
    nd = len(shape)
    chunks = tuple(tuple(int(c) for c in cs) for cs in case["chunks"])
    lr = [tuple(v) for v in depth_lr(_item(case["depth"], 0), nd)]
    kinds = bound_kinds(_item(case["boundary"], 0), nd)
    drop = sorted({d % nd for d in _as_list(dec(case.get("drop_axis")))})
    newl = _as_list(dec(case.get("new_axis")))
    nout = nd - len(drop) + len(newl)
    pos = sorted({p % nout for p in newl})
    kept = [ax for ax in range(nd) if ax not in drop]
    old_out = [ax for ax in range(nout) if ax not in pos]  # output position of kept[j]
    cut = [list(lr[k]) if kinds[k] != "none" else [0, 0] for k in drop]
    sec = case.get("second")
    info = dict(shape=shape, nd=nd, chunks=chunks, lr=lr, kinds=kinds, drop=drop, pos=pos, nout=nout, kept=kept, old_out=old_out,
                cut=cut, rep=int(case.get("rep", 1)), sec=None)
    if sec is not None:
        m = int(sec["ndim"])
        info["sec"] = dict(m=m, shape=shape[nd - m:], chunks=tuple(tuple(int(c) for c in cs) for cs in sec["chunks"]),
                           lr=[tuple(v) for v in depth_lr(_item(case["depth"], 1), m)], kinds=bound_kinds(_item(case["boundary"], 1), m))
    return info


def signature(case, info):
    dl = _as_list(dec(case.get("drop_axis")))
    parts = []
    if dl:
        parts.append("drop-neg" if any(d < 0 for d in dl) else "drop")
    if info["pos"]:
        parts.append("new")
    sig = "overlap-axes:map_overlap:" + ("+".join(parts) if parts else "chunks")
    if info["sec"] is not None:
        sig += "+two"
    if not case.get("trim", True):
        sig += ":notrim"
    return sig


def oracle(case, info, x, y):
    lr, kinds, drop, pos, rep = info["lr"], info["kinds"], info["drop"], info["pos"], info["rep"]
    fkw = dict(sx=sten_args(lr), sy=(), drop=drop, cut=info["cut"], pos=pos, rep=rep)
    px, crop = pad_whole(x, lr, kinds)
    sec = info["sec"]
    if sec is not None:
        fkw["sy"] = sten_args(sec["lr"])
        py, cropy = pad_whole(y, sec["lr"], sec["kinds"])
    if case.get("trim", True):
        whole = sten_lr(px, *fkw["sx"])[crop]
        if sec is not None:
            whole = whole + 3 * sten_lr(py, *fkw["sy"])[cropy]
        if drop:
            whole = whole.sum(axis=tuple(drop))
        if pos:
            whole = np.expand_dims(whole, tuple(pos))
            if rep > 1:
                whole = np.concatenate([(j + 1) * whole for j in range(rep)], axis=pos[0])
        return whole, fkw
    # trim=False: the block function on every extended region; dropped axes are handed over whole
    nd = info["nd"]
    ranges = []
    for ax in range(nd):
        if ax in drop:
            ranges.append([(0, px.shape[ax])])
        else:
            ranges.append(ext_ranges(x.shape[ax], info["chunks"][ax], lr[ax][0], lr[ax][1], kinds[ax]))
    kept, old_out = info["kept"], info["old_out"]

    def rec(sel, j):
        if j == len(kept):
            sl = tuple(slice(*(ranges[ax][sel.get(ax, 0)])) for ax in range(nd))
            blocks = [px[sl]]
            if sec is not None:
                blocks.append(py[sl[nd - sec["m"]:]])
            return f_axes(*blocks, **fkw)
        ax = kept[j]
        return np.concatenate([rec({**sel, ax: i}, j + 1) for i in range(len(ranges[ax]))], axis=old_out[j])

    return rec({}, 0), fkw


def extended_chunks(info):
    """chunks= spelling of the un-trimmed output: the extended block sizes on the kept axes, `rep` on the first new
    axis, 1 on further new axes"""
    out = [None] * info["nout"]
    for j, ax in enumerate(info["kept"]):
        rs = ext_ranges(info["shape"][ax], info["chunks"][ax], info["lr"][ax][0], info["lr"][ax][1], info["kinds"][ax])
        out[info["old_out"][j]] = tuple(b - a for a, b in rs)
    for n, p in enumerate(info["pos"]):
        out[p] = (info["rep"] if n == 0 else 1,)
    return tuple(out)


# =========================================================================== one case


def check(ctx, case):
    import dask
    import dask_array as da

    info = read(case)
    sig = signature(case, info)
    trim = bool(case.get("trim", True))
    sec = info["sec"]
    try:
        x = mk(info["shape"], case["dseed"])
        y = mk(sec["shape"], case["dseed"] + 7919) if sec is not None else None
        with warnings.catch_warnings():
            warnings.simplefilter("ignore")
            want, fkw = oracle(case, info, x, y)
    except Exception:  # noqa: BLE001  (not a well-formed case for the definition)
        return "oracle-rejects"
    depth = dec(case["depth"])
    boundary = dec(case["boundary"])
    kw = {}
    if case.get("drop_axis") is not None:
        kw["drop_axis"] = dec(case["drop_axis"])
    if case.get("new_axis") is not None:
        kw["new_axis"] = dec(case["new_axis"])
    if case.get("give_chunks"):
        kw["chunks"] = extended_chunks(info)
    if not trim:
        kw["trim"] = False
    if sec is not None and not case.get("align_arrays", True):
        kw["align_arrays"] = False
    if case.get("allow_rechunk") is False:
        kw["allow_rechunk"] = False
    swap = bool(case.get("swap")) and sec is not None
    if swap:
        # the lower-rank input is handed over FIRST (the trim settings must still come from the highest-rank one)
        depth = depth[::-1] if isinstance(depth, list) else depth
        boundary = boundary[::-1] if isinstance(boundary, list) else boundary
        fkw["swap"] = True
    args = {"depth": depth, "boundary": boundary, "kw": kw}
    keep = copy.deepcopy(args)

    def failed(suffix, what, **more):
        seen = ctx.notes.setdefault("ovaxes.failures_by_signature", {})
        seen[sig + suffix] = seen.get(sig + suffix, 0) + 1
        if seen[sig + suffix] > 3:  # the first three inputs of a class are reported in full, the rest only counted
            return
        ctx.fail(sig + suffix, dict(case, call=f"da.map_overlap(f_axes, {'x' if sec is None else 'y, x' if swap else 'x, y'}, depth={keep['depth']!r}, boundary={keep['boundary']!r}, "
                                               f"dtype=int64, **{keep['kw']!r})", **more), what)

    with warnings.catch_warnings(), dask.config.set(scheduler="sync"):
        warnings.simplefilter("ignore")
        try:
            arrs = [da.from_array(x, chunks=info["chunks"])]
            if sec is not None:
                arrs.append(da.from_array(y, chunks=sec["chunks"]))
            if swap:
                arrs = arrs[::-1]
            if case.get("method") and sec is None:
                r = arrs[0].map_overlap(f_axes, depth, boundary, dtype=x.dtype, **kw, **fkw)
            else:
                r = da.map_overlap(f_axes, *arrs, depth=depth, boundary=boundary, dtype=x.dtype, **kw, **fkw)
            adv_shape = tuple(r.shape)
            adv_chunks = tuple(tuple(c) for c in r.chunks)
            got = np.asarray(r.compute())
        except Exception as e:  # noqa: BLE001
            if any(isinstance(e, c) and s in str(e) for c, s in REFUSALS):
                return "refused"
            failed(":raises", "map_overlap on the direct path (drop_axis / new_axis / chunks) raises where the NumPy definition has a value",
                   error=f"{type(e).__name__}: {str(e)[:300]}", want=_brief(want))
            return "raises"
    if args != keep or repr(args) != repr(keep):
        failed(":argument-mutated", "map_overlap changed an argument object it was handed", before=repr(keep), after=repr(args))
        return "mutated"
    if got.shape != want.shape or not np.array_equal(got, want):
        failed("", f"map_overlap on the direct path differs from the NumPy definition (np.pad per axis, stencil, sum over the dropped axes, new axes inserted): "
                   f"computed shape {got.shape}, NumPy {want.shape}", got=_brief(got), want=_brief(want))
        return "bad"
    if adv_shape != want.shape:
        failed(":meta", f"advertised shape {adv_shape} but the computed result and NumPy have {want.shape}", adv_shape=list(adv_shape))
        return "meta"
    if tuple(sum(c) for c in adv_chunks) != want.shape:
        failed(":chunks", f"advertised chunks {adv_chunks} do not add up to the shape {want.shape}", adv_chunks=[list(c) for c in adv_chunks])
        return "chunks"
    stable = all(needs_no_rechunk(info["chunks"][ax], *info["lr"][ax], info["kinds"][ax]) for ax in range(info["nd"]))
    if sec is not None:
        stable = stable and sec["chunks"] == info["chunks"][info["nd"] - sec["m"]:]
    if stable:
        exp = [None] * info["nout"]
        for j, ax in enumerate(info["kept"]):
            exp[info["old_out"][j]] = info["chunks"][ax] if trim else extended_chunks(info)[info["old_out"][j]]
        for n, p in enumerate(info["pos"]):
            exp[p] = (info["rep"] if n == 0 else 1,)
        if adv_chunks != tuple(exp):
            failed(":chunks", f"advertised chunks {adv_chunks}, expected {tuple(exp)} (the input's blocks on the kept axes; no rechunk is needed)",
                   adv_chunks=[list(c) for c in adv_chunks])
            return "chunks"
    return "ok"


# =========================================================================== generators


def _enc_axes(axes, nd, style):
    """Spell a set of axes: "pos" / "neg" int (one axis), "list", "tuple", "list-neg", "tuple-neg", "mixed"."""
    axes = list(axes)
    neg = [a - nd for a in axes]
    if style == "pos":
        return axes[0]
    if style == "neg":
        return neg[0]
    if style == "list":
        return {"l": axes}
    if style == "tuple":
        return {"t": axes}
    if style == "list-neg":
        return {"l": neg}
    if style == "tuple-neg":
        return {"t": neg}
    if style == "mixed":
        return {"l": [a if j % 2 else a - nd for j, a in enumerate(axes)][::-1]}
    raise KeyError(style)


def _enc_depth(per, form, rng):
    def e(v):
        return {"t": list(v)} if isinstance(v, (list, tuple)) else int(v)

    if form == "scalar":
        return int(per[0])
    if form == "tuple":
        return {"t": [e(v) for v in per]}
    items = [[ax, e(v)] for ax, v in enumerate(per) if v != 0 or rng.random() < 0.4]
    if rng.random() < 0.3:
        items = items[::-1]
    return {"d": items}


def _rand_chunks(rng, n):
    """few blocks (the halo exchange is the expensive part), sizes below / at / above the depths"""
    c = rng.randint(1, n)
    if c == n or rng.random() < 0.15:
        return [n]
    if rng.random() < 0.5 and n // c <= 3:
        return [c] * (n // c) + ([n % c] if n % c else [])
    return [c, n - c]


def build(rng, nd, drop=(), dstyle=None, new=None, dseed=0, trim=True, give_chunks=False, second=None, align=True, asym=False,
          uniform=False, structured=None):
    """One case.  `drop`: normalised axes; `new`: int or list of output positions; `second`: rank of a second array."""
    hi = {2: 9, 3: 7, 4: 5}[nd]
    shape = [rng.randint(4, hi) for _ in range(nd)]
    if uniform:
        per = [rng.choice([1, 2])] * nd
        kinds = [rng.choice(BOUNDS)] * nd
    else:
        per = rng.sample([0, 1, 2, 3], nd)  # all different: a depth landing on the wrong axis is visible
        kinds = [rng.choice(BOUNDS) for _ in range(nd)]
        if len(set(map(str, kinds))) == 1:
            kinds[rng.randrange(nd)] = rng.choice([b for b in BOUNDS if b != kinds[0]])
    if asym:
        ax = rng.choice([a for a in range(nd) if a not in drop] or [0])
        per[ax] = rng.choice([[1, 0], [0, 2], [2, 1], [1, 3]])
        kinds[ax] = "none"
    for ax in range(nd):
        m = max(per[ax]) if isinstance(per[ax], list) else per[ax]
        shape[ax] = max(shape[ax], m + 1)

    def lr(ax):
        v = per[ax]
        return (v, v) if isinstance(v, int) else tuple(v)

    if structured is None:
        structured = give_chunks or not trim
    chunks = []
    many = 0
    for ax in range(nd):
        if ax in drop and lr(ax) != (0, 0):
            chunks.append([shape[ax]])  # a haloed axis that is dropped: one block (blocks of a dropped axis are concatenated)
        elif nd == 4 and many >= 2:
            chunks.append([shape[ax]])
        elif structured:
            chunks.append(safe_chunks(rng, shape[ax], *lr(ax), kinds[ax]))
        else:
            chunks.append(_rand_chunks(rng, shape[ax]))
        many += len(chunks[-1]) > 1
    dform = "scalar" if uniform and not asym and rng.random() < 0.6 else rng.choice(["dict", "dict", "tuple"])
    bform = "scalar" if uniform and not asym else rng.choice(["tuple", "dict"])
    depth = _enc_depth(per, dform, rng)
    boundary = enc_boundary(kinds, bform, rng)
    case = {"kind": "ovaxes", "shape": shape, "chunks": chunks, "depth": depth, "boundary": boundary, "dseed": int(dseed), "trim": bool(trim),
            "give_chunks": bool(give_chunks)}
    if drop:
        case["drop_axis"] = _enc_axes(drop, nd, dstyle or ("pos" if len(drop) == 1 else "list"))
    if new is not None:
        case["new_axis"] = {"l": list(new)} if isinstance(new, (list, tuple)) else int(new)
        if give_chunks:
            case["rep"] = rng.choice([1, 2, 3])
    if second:
        m = second
        if align and not structured:
            c2 = [[shape[ax]] if (ax in drop and lr(ax) != (0, 0)) else _rand_chunks(rng, shape[ax]) for ax in range(nd - m, nd)]
        else:
            c2 = [list(c) for c in chunks[nd - m:]]
        case["second"] = {"ndim": m, "chunks": c2}
        case["align_arrays"] = bool(align)
        if not (uniform and dform == "scalar" and rng.random() < 0.5):
            case["depth"] = {"l": [depth, _enc_depth(per[nd - m:], rng.choice(["dict", "tuple"]), rng)]}
        if not (uniform and not asym and rng.random() < 0.5):
            case["boundary"] = {"l": [boundary, enc_boundary(kinds[nd - m:], "tuple", rng)]}
    return case


def key_of(case, info, outcome):
    d = case.get("drop_axis")
    dstyle = None if d is None else ("int" if isinstance(d, int) else next(iter(d))) + ("-" if any(v < 0 for v in _as_list(dec(d))) else "+")
    nd = info["nd"]
    dclass = tuple("first" if k == 0 else "last" if k == nd - 1 else "mid" for k in info["drop"])
    nclass = tuple("front" if p == 0 else "end" if p == info["nout"] - 1 else "between" for p in info["pos"])
    after = any(info["lr"][a] != info["lr"][k] or str(info["kinds"][a]) != str(info["kinds"][k]) for k in info["drop"] for a in range(k + 1, nd))
    sec = info["sec"]
    return ("ovaxes", nd, dstyle, dclass, nclass, isinstance(case.get("new_axis"), dict), after, bool(case.get("give_chunks")), bool(case.get("trim", True)),
            None if sec is None else (sec["m"], bool(case.get("align_arrays", True)), bool(case.get("swap"))), bool(case.get("method")), case.get("allow_rechunk") is False, outcome)


def grid(rng, tier="quick"):
    """The systematic part: every (rank, dropped axis/axes) with a negative spelling and a positive one, every new-axis
    position, both together, chunks=, trim=False, a second lower-rank input."""
    k = 0
    rot = itertools.cycle(["pos", "list", "tuple"])
    rotn = itertools.cycle(["list-neg", "tuple-neg"])
    thorough = tier == "thorough"
    for nd in (2, 3, 4):
        for a in range(nd):
            styles = ["pos", "neg", "list", "tuple", "list-neg", "tuple-neg"] if thorough else ["neg", next(rotn), next(rot)]
            for st in styles:
                k += 1
                yield build(rng, nd, drop=(a,), dstyle=st, dseed=k)
        if nd >= 3:
            rot2 = itertools.cycle(["list", "tuple"])
            for pair in itertools.combinations(range(nd), 2):
                for st in (["list", "tuple", "list-neg", "tuple-neg", "mixed"] if thorough else [next(rotn), "mixed" if k % 2 else next(rot2)]):
                    k += 1
                    yield build(rng, nd, drop=pair, dstyle=st, dseed=k)
    # new axes: before / between / after, int and list
    for nd in (2, 3):
        for p in range(nd + 1):
            k += 1
            yield build(rng, nd, new=p, dseed=k)
        for lst in ([0, 1], [nd + 1, 0], [1, nd], [nd, nd + 1]):  # (one of them spelled in descending order)
            k += 1
            yield build(rng, nd, new=lst, dseed=k)
    # both together (new positions are positions in the output, whose rank is nd - #drop + #new)
    for nd in (3, 4):
        for a in range(nd):
            for p in ([0, nd - 1] if not thorough else range(nd)):
                k += 1
                yield build(rng, nd, drop=(a,), dstyle="neg" if k % 2 else next(rot), new=p, dseed=k)
        k += 1
        yield build(rng, nd, drop=(0, nd - 1), dstyle=next(rotn), new=[0, 2], dseed=k)
    # chunks= given: alone (it alone selects the direct path), with drop, with new (a new axis longer than 1), trim=False
    for nd in (2, 3):
        for kwargs in (dict(), dict(drop=(nd - 2,), dstyle="neg"), dict(new=1), dict(drop=(0,), dstyle="list-neg", new=[nd - 1]),
                       dict(trim=False), dict(trim=False, drop=(nd - 2,), dstyle="neg"), dict(trim=False, new=0), dict(asym=True, drop=(0,), dstyle="neg")):
            k += 1
            yield build(rng, nd, give_chunks=True, dseed=k, **kwargs)
    # trim=False without chunks= (direct path: the blocks' own sizes are advertised)
    for nd in (2, 3):
        for kwargs in (dict(drop=(0,), dstyle="neg"), dict(drop=(nd - 1,), dstyle="list"), dict(new=nd), dict(drop=(nd - 2,), dstyle="tuple-neg", new=0)):
            k += 1
            yield build(rng, nd, trim=False, dseed=k, **kwargs)
    # a second input of lower rank, broadcast from the right
    for nd in (2, 3, 4):
        for m in range(1, nd):
            for align in (True, False):
                k += 1
                a = (k + m) % nd
                c = build(rng, nd, drop=(a,), dstyle="neg" if align else next(rot), second=m, align=align, dseed=k, uniform=(k % 3 == 0))
                if (k + m) % 2:
                    c["swap"] = True
                yield c
        k += 1
        yield build(rng, nd, new=1, second=nd - 1, dseed=k)
        k += 1
        yield build(rng, nd, second=nd, drop=(nd - 2,), dstyle="neg", dseed=k)
    # asymmetric depths (boundary "none") on a kept axis
    for nd in (2, 3):
        for a in range(nd):
            k += 1
            yield build(rng, nd, drop=(a,), dstyle="neg", asym=True, dseed=k)


def random_case(rng, k):
    nd = rng.choice([2, 3, 3, 3, 4])
    ndrop = rng.choice([0, 1, 1, 1, 2] if nd > 2 else [0, 1, 1])
    drop = tuple(sorted(rng.sample(range(nd), ndrop)))
    dstyle = None
    if drop:
        dstyle = rng.choice(["pos", "neg", "neg", "list", "tuple", "list-neg", "tuple-neg"] if ndrop == 1 else ["list", "tuple", "list-neg", "tuple-neg", "mixed", "mixed"])
    new = None
    if rng.random() < (0.35 if drop else 0.8):
        nout = nd - ndrop
        new = rng.randint(0, nout) if rng.random() < 0.6 else sorted(rng.sample(range(nout + 2), 2), reverse=rng.random() < 0.3)
    trim = rng.random() < 0.8
    give = rng.random() < 0.25 or (not drop and new is None)
    second = None
    if rng.random() < 0.25:
        second = rng.randint(1, nd)
    structured = True if (give or not trim) else rng.random() < 0.3
    case = build(rng, nd, drop=drop, dstyle=dstyle, new=new, dseed=k, trim=trim, give_chunks=give, second=second, align=rng.random() < 0.7,
                 asym=rng.random() < 0.15, uniform=rng.random() < 0.15, structured=structured)
    if structured and rng.random() < 0.4:
        case["allow_rechunk"] = False  # every block already holds its halo: must not change anything
    if second is not None and rng.random() < 0.4:
        case["swap"] = True
    if second is None:
        if rng.random() < 0.3:
            case["method"] = True  # x.map_overlap(func, depth, boundary, **kwargs)
        if rng.random() < 0.25:
            case["depth"] = {"l": [case["depth"]]}  # the per-array list spelling with one array
        if rng.random() < 0.15:
            case["boundary"] = {"l": [case["boundary"]]}
    return case


def search(ctx):
    import time

    rng = ctx.rng
    t0 = time.time()
    n = 0
    budget = ctx.scale(8.0, 90.0)
    cases = itertools.chain(((c, True) for c in grid(rng, ctx.tier)), ((random_case(rng, 1000 + j), False) for j in range(ctx.scale(60, 1500))))
    for case, fixed in cases:
        info = read(case)
        r = check(ctx, case)
        ctx.count(key_of(case, info, r))
        n += 1
        if n in (5, 60):
            ctx.sample(case)
        if not fixed and time.time() - t0 > budget:  # (the grid always runs whole; only the random tail is cut on a loaded machine)
            ctx.notes["ovaxes.cut_short_after"] = n
            break
    ctx.notes["search.ovaxes"] = n
    ctx.notes["t.ovaxes_s"] = round(time.time() - t0, 1)
