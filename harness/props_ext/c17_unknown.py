"""C17, operands with UNKNOWN (nan) chunk sizes in chunk unification.

A boolean-mask selection (`x[m]`, `x[x % k != r]`, `x[:, m]`) has blocks whose sizes are not known until
computed.  Unification cannot cut a known operand to match such blocks, so for an elemwise / blockwise /
`where` program that mixes an unknown operand with known (or other unknown) operands the only acceptable
outcomes are
  * a refusal: ValueError (at construction, unification, lowering, graph build or compute), or
  * NumPy's values, with every operand of every aligned node carrying ONE block grid per index (same number of
    blocks, equal sizes where both are known; length-1 axes excepted) -- before and after lowering.
After `compute_chunk_sizes()` (and for partners that only broadcast against the unknown axis) every size is
known / irrelevant and the program MUST succeed with NumPy's values and the usual C17 structure.

Programs (all built through the public API, each point from clean registries, every policy x {no limit, a limit}):
  rank 1-2; mask from a dask bool array (chunked like x or differently) or from x itself; mask on rows or columns;
  before / after compute_chunk_sizes; partner relation on the unknown axis stratified over
    aligned (cuts == the real block sizes) | same block count, other cuts | all-ones (finer) | random other count |
    one block | broadcast (length 1) | lower rank | a second unknown operand (same / other mask, same / other count) |
    unknown on the other axis;
  partner's known axes chunked differently from x's (regression 211b84a); 1-3 partners; binops / where / blockwise;
  single or fused with following elemwise ops / reductions (stratified).
Oracles: NumPy on the same data; block-count / layout agreement read off the real expressions (no model involved).

Signatures (derived from the INPUT class, i.e. from the block grids the aligned nodes see):
  unknown:block-counts-differ:{unify,lowered,values}   operands with different block counts on an unknown index accepted
  unknown:{unify,lowered}:layouts-differ               known axes left with different cuts (regression 211b84a)
  unknown:values:blocks-aligned, unknown:lowered:advertised-chunks-differ, unknown:resolved:*, unknown:raises:<Class>
  known findings (one fixed probe each, PROBES; further members met by the random stream are only counted):
    unknown-elemwise-positional-blocks, unknown:refine:single-block-operand-unaligned, unknown:equal-count-known-cuts-differ
"""
from __future__ import annotations

import math
import warnings

import numpy as np

from harness import gen
from harness.props import C17

RELATIONS = ("aligned", "same_count", "ones", "other_count", "one_block", "broadcast", "lower_rank",
             "unknown_same", "unknown_other", "cross", "other_count")
POSTS = ("none", "affine", "neg", "sum", "affine_sum", "sum0", "chain2")
FORMS = ("binop", "binop", "binop", "where", "blockwise")
KNOWN_POSITIONAL = "unknown-elemwise-positional-blocks"


# --------------------------------------------------------------------------- helpers

def lay(c):
    """layout with nan -> None (JSON-able, comparable)"""
    return [None if (isinstance(v, float) and math.isnan(v)) else int(v) for v in c]


def lays(chunks):
    return [lay(c) for c in chunks]


def agree(c1, c2):
    """two layouts of one index may be the same grid: same number of blocks, equal sizes where both known"""
    return len(c1) == len(c2) and all(a == b or a is None or b is None for a, b in zip(c1, c2))


def is_unknown(c):
    return any(v is None for v in c)


def data(shape, k, salt):
    n = int(np.prod(shape)) if shape else 1
    return (np.arange(n, dtype="int64") * (2 * k + 1) + 11 * k + salt) .reshape(shape)


def cut(total, sizes):
    """sizes (positive ints) adjusted to add up to total"""
    out, s = [], 0
    for v in sizes:
        if s >= total:
            break
        v = min(v, total - s)
        out.append(v)
        s += v
    if s < total:
        out.append(total - s)
    return out


# --------------------------------------------------------------------------- build

class _BW1:
    """block function for the blockwise form: weighted sum of full-rank blocks (NumPy broadcasting inside)"""

    def __call__(self, *blocks):
        out = 0
        for k, b in enumerate(blocks):
            out = out + (k + 1) * np.asarray(b)
        return out


def select(da, o, salt, resolve=None):
    """-> (dask array, numpy array) of one operand (`did` selects the data, whatever the operand's position)"""
    shape = tuple(o["shape"])
    a = data(shape, o["did"], salt).astype(o.get("dtype", "int64"))
    x = da.from_array(a, chunks=tuple(tuple(c) for c in o["chunks"]))
    if o["type"] == "known":
        return x, a
    ax = o["maxis"]
    if o["mask_src"] == "self":  # 1-d only: mask computed from x itself
        kk, r = o["self_mod"]
        u, e = x[x % kk != r], a[a % kk != r]
    else:
        m = np.array(o["mask"], dtype=bool)
        md = da.from_array(m, chunks=(tuple(o["mask_chunks"]),))
        idx = (slice(None),) * ax + (md,)
        u, e = x[idx], a[(slice(None),) * ax + (m,)]
    if o.get("scale"):
        u, e = u * o["scale"], e * o["scale"]
    if o.get("resolve") if resolve is None else resolve:
        u = u.compute_chunk_sizes()
    return u, e


def build(case, da):
    nps, das = [], []
    for o in case["operands"]:
        d, a = select(da, o, case.get("salt", 0))
        das.append(d)
        nps.append(a)
    form = case["form"]
    if form == "where":
        t = case["where_t"]
        z, e = da.where(das[0] % 3 != t, das[1], das[2]), np.where(nps[0] % 3 != t, nps[1], nps[2])
    elif form == "blockwise":
        rank = max(a.ndim for a in nps)
        args = []
        for d in das:
            args += [d, tuple(range(rank - d.ndim, rank))]
        z = da.blockwise(_BW1(), tuple(range(rank)), *args, dtype="int64")
        e = 0
        for k, a in enumerate(nps):
            e = e + (k + 1) * a
    else:
        fn = {"add": (np.add, da.add), "mul": (np.multiply, da.multiply), "sub": (np.subtract, da.subtract),
              "max": (np.maximum, da.maximum)}
        z, e = das[0], nps[0]
        for k in range(1, len(das)):
            nf, df = fn[case["binops"][k - 1]]
            z, e = df(z, das[k]), nf(e, nps[k])
    first = z
    post = case["post"]
    if post in ("affine", "affine_sum"):
        z, e = z * 2 + 1, e * 2 + 1
    if post == "neg":
        z, e = -z, -e
    if post == "chain2":
        z, e = abs(z - 3) + z, abs(e - 3) + e
    if post in ("sum", "affine_sum"):
        z, e = z.sum(), e.sum()
    if post == "sum0":
        z, e = z.sum(axis=0), e.sum(axis=0)
    return z, np.asarray(e), das, first


# --------------------------------------------------------------------------- structure (nan tolerant)

def node_pairs(node):
    return C17.array_pairs(node)


REFINE_SINGLE = "unknown:refine:single-block-operand-unaligned"
EQUAL_COUNT_CUTS = "unknown:equal-count-known-cuts-differ"
ZERO_LEN1 = "unknown:resolved:zero-chunk-on-length-1-axis:lowered-grid-differs"
# classes decided by the coordinator to be known findings: reproduced every run by one FIXED probe each (below);
# the random stream counts further members of these classes in ctx.notes and reports everything else
KNOWN_CLASSES = (KNOWN_POSITIONAL, REFINE_SINGLE, EQUAL_COUNT_CUTS)


def _u(n, chunk, mask):
    return {"type": "unknown", "did": 0, "shape": [n], "chunks": [[chunk] * (n // chunk)], "maxis": 0, "mask_src": "array",
            "dtype": "int64", "mask": mask, "mask_chunks": [chunk] * (n // chunk), "resolve": False}


def _k(did, n, chunks):
    return {"type": "known", "did": did, "shape": [n], "chunks": [chunks], "dtype": "int64"}


T, F = True, False
PROBES = (
    # x=arange(6) chunks 3; a=x[(x<1)|(x>2)] real blocks (1,3); k chunks (3,1): a+k pairs blocks by position
    (KNOWN_POSITIONAL, {"kind": "unknown", "form": "binop", "operands": [_u(6, 3, [T, F, F, T, T, T]), _k(1, 4, [3, 1])],
                        "binops": ["add"], "post": "none", "relation": "same_count", "must_succeed": False,
                        "policy": "auto", "limit": None, "salt": 0}),
    # refine: u=x[[T,F,T,F]] chunks (nan,nan) + y with ONE block of 2: 4 elements where NumPy gives 2
    (REFINE_SINGLE, {"kind": "unknown", "form": "binop", "operands": [_u(4, 2, [T, F, T, F]), _k(1, 2, [2])],
                     "binops": ["add"], "post": "none", "relation": "one_block", "must_succeed": False,
                     "policy": "refine", "limit": None, "salt": 0}),
    # where(u%3!=0, k1, k2): k1 (2,1) and k2 (1,2) both accepted unchanged next to u (nan,nan)
    (EQUAL_COUNT_CUTS, {"kind": "unknown", "form": "where", "where_t": 0,
                        "operands": [_u(4, 2, [T, F, T, T]), _k(1, 3, [2, 1]), _k(2, 3, [1, 2])],
                        "post": "none", "relation": "same_count", "must_succeed": False,
                        "policy": "auto", "limit": None, "salt": 0}),
)


def count_class(counts):
    """block counts of the (non-broadcast) operands of one index -> equal | single (one block vs k blocks) | multi"""
    cs = sorted(set(counts))
    if len(cs) <= 1:
        return "equal"
    return "single" if (len(cs) == 2 and cs[0] == 1) else "multi"


def structure_sig(layouts, policy, oracle):
    """signature of a disagreement between the layouts of one index"""
    cls = count_class([len(c) for c in layouts])
    if cls == "equal":
        # same number of blocks: next to an unknown layout only the COUNTS are compared by the implementation
        return EQUAL_COUNT_CUTS if any(is_unknown(c) for c in layouts) else f"unknown:{oracle}:layouts-differ"
    if cls == "single" and policy == "refine" and any(is_unknown(c) for c in layouts):
        return REFINE_SINGLE
    return f"unknown:block-counts-differ:{oracle}"


def grid_conflict(pairs):
    """pairs: (operand expr, index tuple) -> (label, layouts of that label) of the first index on which the
    operands do not carry one block grid (length-1 axes excepted), else None"""
    per = {}
    for a, ind in pairs:
        for n, j in enumerate(ind):
            if a.shape[n] == 1:
                continue
            per.setdefault(j, []).append(lay(a.chunks[n]))
    for j, ls in per.items():
        for c in ls[1:]:
            if not all(agree(c, d) for d in ls):
                return j, ls
    return None


def check_unified(node, policy, fails, stats):
    """`unify_chunks_expr` on an un-lowered aligned node: when it does not refuse, the operands it returns carry one
    block grid per index, which is the advertised one"""
    from dask_array._expr import ArrayExpr, unify_chunks_expr

    try:
        chunkss, arrays, _ = unify_chunks_expr(*node.args, warn=False)
    except ValueError:
        stats["unify_refused"] = stats.get("unify_refused", 0) + 1
        return
    stats["unify_accepted"] = stats.get("unify_accepted", 0) + 1
    all_pairs = list(zip(node.args[::2], node.args[1::2]))
    pairs = [(a1, tuple(ind)) for (a0, ind), a1 in zip(all_pairs, arrays)
             if not (ind is None or tuple(ind) == () or not isinstance(a0, ArrayExpr))]
    info = {"chunkss": {str(C17.lab(j)): lay(c) for j, c in chunkss.items()}, "after": [lays(a.chunks) for a, _ in pairs],
            "inds": [[C17.lab(j) for j in ind] for _, ind in pairs]}
    bad = grid_conflict(pairs)
    if bad is None:
        for a, ind in pairs:
            for n, j in enumerate(ind):
                if a.shape[n] != 1 and not agree(lay(chunkss[j]), lay(a.chunks[n])):
                    bad = (j, [lay(chunkss[j]), lay(a.chunks[n])])
    if bad:
        fails.append((structure_sig(bad[1], policy, "unify"), dict(info, index=C17.lab(bad[0]), layouts=bad[1]),
                      "unify_chunks_expr accepted operands but returns them with different block grids on one index"))


def check_lowered(low, policy, fails):
    from dask_array._blockwise import Blockwise

    for node in low.walk():
        if not isinstance(node, Blockwise) or not getattr(node, "align_arrays", False):
            continue
        bad = grid_conflict(node_pairs(node))
        if bad:
            fails.append((structure_sig(bad[1], policy, "lowered"),
                          {"node": type(node).__name__, "index": C17.lab(bad[0]), "layouts": bad[1]},
                          "after lowering the operands of an aligned node have different block grids on one index"))
            return


# --------------------------------------------------------------------------- evaluation

def node_count_class(root):
    """over every aligned node of the un-lowered program and every index on which one of ITS operands is unknown:
    the block-count class of the node's (non-broadcast) operands"""
    from dask_array._blockwise import Blockwise

    order = ("equal", "single", "multi")
    cls = "equal"
    for node in root.walk():
        if not isinstance(node, Blockwise) or not getattr(node, "align_arrays", False):
            continue
        per = {}
        for a, ind in node_pairs(node):
            for n, j in enumerate(ind):
                if a.shape[n] != 1:
                    per.setdefault(j, []).append(lay(a.chunks[n]))
        for ls in per.values():
            if any(is_unknown(c) for c in ls):
                cls = max(cls, count_class([len(c) for c in ls]), key=order.index)
    return cls


def real_sizes_differ(case, da):
    """the REAL block sizes (after compute_chunk_sizes) of the top-level operands differ on an axis that is unknown
    in some operand: pairing blocks by position cannot be right"""
    raw = [select(da, o, case.get("salt", 0), resolve=False)[0] for o in case["operands"]]
    res = [select(da, o, case.get("salt", 0), resolve=True)[0] for o in case["operands"]]
    rank = max(d.ndim for d in res)
    for axis in range(1, rank + 1):
        if not any(d.ndim >= axis and is_unknown(lay(d.chunks[-axis])) for d in raw):
            continue
        ls = {tuple(lay(d.chunks[-axis])) for d, r in zip(res, raw) if d.ndim >= axis and r.shape[-axis] != 1}
        if len(ls) > 1:
            return True
    return False


def eval_point(case):
    """Evaluate one (program, config) point from clean state; pure function of `case`."""
    import dask
    import dask_array as da
    from dask_array._blockwise import Blockwise

    fails, stats = [], {}
    policy, limit = case["policy"], case["limit"]
    must = bool(case.get("must_succeed"))
    C17.clear_state()
    outcome = "ok"
    stage = "build"
    try:
        with dask.config.set({"array.unify-chunks-policy": policy, "array.unify-chunks-limit": limit}), \
                warnings.catch_warnings():
            warnings.simplefilter("ignore")
            z, expect, das, first = build(case, da)
            stage = "unify"
            root = z.expr
            for node in root.walk():
                if isinstance(node, Blockwise) and getattr(node, "align_arrays", False):
                    check_unified(node, policy, fails, stats)
            stage = "lower"
            low = root.lower_completely()
            check_lowered(low, policy, fails)
            adv = lays(z.chunks)
            if lays(low.chunks) != adv:
                lo = lays(low.chunks)
                zero1 = len(lo) == len(adv) and all(a == b or (0 in a and None not in a and sum(a) == 1) for a, b in zip(adv, lo))
                fails.append((ZERO_LEN1 if zero1 else "unknown:lowered:advertised-chunks-differ", {"advertised": adv, "lowered": lo},
                              "the lowered expression has a different block grid than the advertised chunks"))
            stage = "compute"
            got = np.asarray(z.compute(scheduler="synchronous"))
            if got.shape != expect.shape or not np.array_equal(got, expect):
                outcome = "wrong"
                detail = {"got": got.tolist() if got.size <= 64 else "…", "want": expect.tolist() if expect.size <= 64 else "…",
                          "operand_chunks": [lays(d.chunks) for d in das]}
                if must:
                    sig = "unknown:resolved:values"
                else:
                    cls = node_count_class(root)
                    detail["block_count_class"] = cls
                    if cls == "single" and policy == "refine":
                        sig = REFINE_SINGLE
                    elif cls != "equal":
                        sig = "unknown:block-counts-differ:values"
                    elif real_sizes_differ(case, da):
                        sig = KNOWN_POSITIONAL
                    else:
                        sig = "unknown:values:blocks-aligned"
                fails.append((sig, detail,
                              "operands with unknown chunk sizes were combined without a refusal and the values differ from NumPy"))
    except ValueError as e:
        outcome = "refused"
        stats["refused_at_" + stage] = 1
        if must:
            fails.append(("unknown:resolved:raises:ValueError", {"error": repr(e)[:300], "stage": stage},
                          "every chunk size is known (or only broadcast against): the program must not be refused"))
    except Exception as e:
        outcome = "raises"
        fails.append((f"unknown:raises:{type(e).__name__}", {"error": repr(e)[:300], "stage": stage},
                      "neither a refusal (ValueError) nor a result"))
    return {"fails": fails, "stats": stats, "outcome": outcome}


# --------------------------------------------------------------------------- generator

def gen_mask(rng, chunks, all_true):
    """a mask over an axis chunked `chunks`; mostly >=1 kept element per block"""
    m = []
    for c in chunks:
        if all_true:
            blk = [True] * c
        else:
            blk = [rng.random() < 0.6 for _ in range(c)]
            if not any(blk) and rng.random() < 0.9:
                blk[rng.randrange(c)] = True
        m += blk
    return m


def block_counts(mask, chunks):
    out, i = [], 0
    for c in chunks:
        out.append(sum(mask[i : i + c]))
        i += c
    return out


def other_cuts(rng, total, avoid_len, want_len=None):
    """a layout of `total` with positive sizes whose number of blocks is (not) `avoid_len`"""
    for _ in range(40):
        c = list(gen.rand_chunks(rng, total, maxparts=min(total, 6)))
        if want_len is not None:
            if len(c) == want_len:
                return c
        elif len(c) != avoid_len:
            return c
    return None


def gen_program(rng, relation, post, form):
    rank = rng.choice([1, 1, 2])
    if relation in ("cross", "lower_rank") or post == "sum0" and rng.random() < 0.5:
        rank = 2
    n = rng.choice([5, 6, 8, 10])
    shape = [n] if rank == 1 else [n, rng.choice([2, 3, 4])]
    maxis = 0 if rank == 1 else rng.choice([0, 0, 1])
    if relation == "cross":
        maxis = 0
    xch = [list(gen.rand_chunks(rng, d, maxparts=4)) for d in shape]
    if len(xch[maxis]) == 1:
        xch[maxis] = cut(shape[maxis], [rng.randint(1, shape[maxis] - 1)] * 2)
    all_true = relation == "cross" or rng.random() < 0.25
    mask_src = "self" if (rank == 1 and rng.random() < 0.3 and relation != "cross") else "array"
    did = [0]
    u = {"type": "unknown", "did": 0, "shape": shape, "chunks": xch, "maxis": maxis, "mask_src": mask_src,
         "dtype": rng.choice(["int64", "int64", "int32", "float64"])}
    if mask_src == "self":
        kk = rng.choice([2, 3, 4])
        u["self_mod"] = [kk, rng.randrange(kk)]
        a = data(tuple(shape), 0, 0)  # salt changes the mask: the partner lengths are fixed below for salt 0 only
        mask = [bool(v % kk != u["self_mod"][1]) for v in a]
        mch = xch[maxis]
    else:
        mch = xch[maxis] if rng.random() < 0.75 else list(gen.rand_chunks(rng, shape[maxis], maxparts=4))
        mask = gen_mask(rng, mch if len(mch) >= len(xch[maxis]) else xch[maxis], all_true)
        u["mask"] = mask
        u["mask_chunks"] = mch
    cnt = sum(mask)
    if cnt == 0:
        return None
    # the real block sizes of the selection (when the mask is chunked like x)
    real = block_counts(mask, xch[maxis]) if mch == xch[maxis] else None
    nblocks = len(xch[maxis]) if real is not None else None
    if relation in ("aligned", "same_count") and real is None:
        relation = "other_count"
    oshape = list(shape)
    oshape[maxis] = cnt
    resolve = rng.random() < 0.3
    u["resolve"] = resolve

    def known_partner(rel):
        psh = list(oshape)
        pch = []
        for ax in range(rank):
            if ax != maxis:
                if rng.random() < 0.25:
                    psh[ax] = 1
                pch.append([1] if psh[ax] == 1 else
                           (xch[ax] if rng.random() < 0.35 else list(gen.rand_chunks(rng, psh[ax], maxparts=4))))
                continue
            if rel == "aligned":
                if real is None or any(v == 0 for v in real):
                    return None
                c = list(real)
            elif rel == "same_count":
                if real is None:
                    return None
                c = other_cuts(rng, cnt, None, want_len=len(real))
                if c is None or c == real:
                    return None
            elif rel == "ones":
                c = [1] * cnt
            elif rel == "one_block":
                c = [cnt]
            elif rel == "broadcast":
                psh[ax] = 1
                c = [1]
            else:
                c = other_cuts(rng, cnt, nblocks)
                if c is None:
                    return None
            pch.append(c)
        if rel == "lower_rank":  # drops the leading axis
            psh, pch = psh[1:], pch[1:]
        did[0] += 1
        return {"type": "known", "did": did[0], "shape": psh, "chunks": pch, "dtype": rng.choice(["int64", "int32"])}

    ops = [u]
    if relation in ("unknown_same", "unknown_other"):
        v = dict(u, scale=3)
        if relation == "unknown_other":
            if mask_src == "self":
                return None
            # another mask with the same number of kept elements (other positions), or chunked differently
            m2 = list(mask)
            rng.shuffle(m2)
            v = dict(u, mask=m2, scale=3, did=1)
            if rng.random() < 0.4:
                xc2 = [list(c) for c in xch]
                xc2[maxis] = list(gen.rand_chunks(rng, shape[maxis], maxparts=4))
                v["chunks"] = xc2
                v["mask_chunks"] = xc2[maxis]
        v["resolve"] = rng.random() < 0.2
        ops.append(v)
    elif relation == "cross":
        if shape[1] < 2:
            return None
        v = dict(u, maxis=1, mask=[True] * shape[1], mask_chunks=xch[1], resolve=False)
        ops.append(v)
    else:
        p = known_partner(relation)
        if p is None:
            return None
        ops.append(p)
    if form == "where":
        while len(ops) < 3:
            p = known_partner(rng.choice(["aligned", "broadcast", relation if relation in ("ones", "other_count", "one_block", "same_count") else "broadcast"]))
            if p is None:
                return None
            ops.append(p)
        rng.shuffle(ops)
    elif rng.random() < 0.3:
        p = known_partner(rng.choice(["aligned", "broadcast", "ones"]))
        if p is not None:
            ops.append(p)
    if rng.random() < 0.4:
        ops.reverse()
    if post == "sum0" and max(len(o["shape"]) for o in ops) < 1:
        post = "sum"
    case = {"kind": "unknown", "form": form, "operands": ops, "post": post, "relation": relation}
    if form == "where":
        case["where_t"] = rng.randrange(3)
    if form == "binop":
        case["binops"] = [rng.choice(["add", "sub", "mul", "max"]) for _ in ops[1:]]
    # every size known or irrelevant -> must succeed
    unknown_ops = [o for o in ops if o["type"] == "unknown"]
    all_resolved = all(o.get("resolve") for o in unknown_ops)
    only_broadcast = (relation == "broadcast" or (relation == "lower_rank" and maxis == 0)) and len(ops) == 2
    case["must_succeed"] = bool(all_resolved or only_broadcast)
    return case


def case_key(case, res):
    ops = case["operands"]
    return ("unknown", case["form"], case["relation"], case["post"], case["policy"], case["limit"] is None,
            max(len(o["shape"]) for o in ops), sum(o["type"] == "unknown" for o in ops),
            any(o.get("resolve") for o in ops), res["outcome"])


def limits_for(rng, case):
    return [None, rng.choice([1, rng.randint(2, 64), 2**40])]


# --------------------------------------------------------------------------- run

def record(ctx, case, res):
    for sig, detail, what in res["fails"]:
        ctx.fail(sig, dict(case, detail=detail), what)


def replay(ctx, case):
    case = {k: v for k, v in case.items() if k != "detail"}
    res = eval_point(case)
    ctx.count(("replay-unknown",))
    record(ctx, case, res)
    ctx.notes["replayed"] = 1


def run(ctx):
    rng = ctx.rng
    for sig, case in PROBES:
        res = eval_point(case)
        ctx.count(("unknown-probe", sig))
        record(ctx, case, res)
        ctx.notes["unknown.probe." + sig] = "reproduced" if any(f[0] == sig for f in res["fails"]) else "not reproduced"
    NPROG = ctx.scale(len(RELATIONS) * len(POSTS), 12 * len(RELATIONS) * len(POSTS))
    made = 0
    k = 0
    outcomes = {}
    salt = 0
    while made < NPROG and k < 6 * NPROG:
        relation = RELATIONS[k % len(RELATIONS)]
        post = POSTS[(k // len(RELATIONS)) % len(POSTS)]
        form = FORMS[(k + k // len(RELATIONS) + k // (len(RELATIONS) * len(POSTS))) % len(FORMS)]
        prog = None
        for _ in range(8):
            prog = gen_program(rng, relation, post, form)
            if prog is not None:
                break
        k += 1
        if prog is None:
            continue
        made += 1
        for policy in C17.POLICIES:
            for limit in limits_for(rng, prog):
                salt += 1
                # a mask computed from x itself depends on the data: keep the data the partner lengths were derived from
                fixed = any(o.get("mask_src") == "self" for o in prog["operands"])
                case = dict(prog, policy=policy, limit=limit, salt=0 if fixed else salt % 3)
                res = eval_point(case)
                ctx.count(case_key(case, res))
                nk = sum(f[0] in KNOWN_CLASSES for f in res["fails"])
                if nk:
                    ctx.notes["unknown.points_in_known_classes"] = ctx.notes.get("unknown.points_in_known_classes", 0) + 1
                    res = dict(res, fails=[f for f in res["fails"] if f[0] not in KNOWN_CLASSES])
                record(ctx, case, res)
                key = f"unknown.{'must' if case['must_succeed'] else 'may-refuse'}.{res['outcome']}"
                outcomes[key] = outcomes.get(key, 0) + 1
                for s, v in res["stats"].items():
                    if True:
                        ctx.notes["unknown." + s] = ctx.notes.get("unknown." + s, 0) + int(v)
        if made % 9 == 0:
            ctx.sample({"program": prog})
    ctx.notes.update(outcomes)
    ctx.notes["unknown_program_points"] = made * 6
