"""Streams shared by C21 and C22:

(a) CONTAINER cases — programs whose tasks carry dask objects NESTED in container arguments / keyword arguments
    (lists, tuples, dicts of delayed objects / dask arrays, up to three deep, mixed with literals and literal
    containers) in map_blocks / Array.map_blocks / blockwise / map_overlap / apply_gufunc / from_delayed / store
    targets, with an optional op below and above.  The block function FOLDS its extra arguments position by
    position into one integer (raising TypeError on anything that is not a number / ndarray / plain container, i.e. on
    an unresolved Delayed, TaskRef or graph node), so a lost, swapped or unresolved nested reference changes the values.
      C21: records complete, executed records == executed __dask_graph__ block by block (NumPy is a third witness: a
           dask graph that itself differs from NumPy is outside C21 and only noted);
      C22: for every lowered node, the records of the layer the walk uses (generic adapter when the native layer
           declines) define exactly the keys of the node's Python `_layer()` with the same external dependencies and
           carry no graph node (`layer_fidelity`).
(b) HISTORY cases — one collection object: read its keys / records / graph (as a client does to create futures),
    mutate it in place (masked / slice / integer-list setitem with scalar, ndarray or dask values, ufunc out=, cumsum /
    reduction out=, compute_chunk_sizes), read again, fork it with copy.copy, build dependents before a mutation, flip
    array.optimize-graph.  After every mutation: the advertised output keys are defined by the records, equal the
    keys of a TWIN object that went through the same mutations without any read, and the records compute the
    post-update NumPy values (== the twin's dask graph).

All cases are plain JSON dicts and replay from the dict alone.
"""
from __future__ import annotations

import copy as _copy
import random

import numpy as np

from harness import graphs

M = 100003


# ------------------------------------------------------------------------------------------ block functions

def fold(t):
    """position-sensitive integer digest of a nested argument (numbers, ndarrays, plain containers ONLY)"""
    if isinstance(t, dict):
        r = 3
        for i, k in enumerate(sorted(t)):
            r = (r * 31 + (i + 2) * fold(t[k]) + len(str(k))) % M
        return r
    if isinstance(t, list):
        r = 1
        for i, v in enumerate(t):
            r = (r * 17 + (i + 1) * fold(v)) % M
        return r
    if isinstance(t, tuple):
        r = 2
        for i, v in enumerate(t):
            r = (r * 19 + (i + 1) * fold(v)) % M
        return r
    if isinstance(t, np.ndarray):
        if t.dtype == object:
            raise TypeError("object array reached the block function")
        f = t.astype(np.int64).ravel()
        return int((f * (np.arange(f.size, dtype=np.int64) + 1)).sum() + 5 * t.ndim) % M
    if isinstance(t, (bool, np.bool_)):
        return int(t)
    if isinstance(t, (int, np.integer)):
        return int(t) % M
    if isinstance(t, (float, np.floating)):
        return int(t * 4) % M
    if t is None:
        return 11
    raise TypeError(f"unresolved {type(t).__name__} reached the block function")


def fold_block(b, *args, **kwargs):
    return b + (fold(list(args)) * 7 + fold(kwargs)) % M


def fold_block2(b, c, *args, **kwargs):
    return b - c + (fold(list(args)) * 7 + fold(kwargs)) % M


def fold_rows(b, **kwargs):
    return b.sum(axis=-1) + fold(kwargs)


def fold_fill(n, *args, **kwargs):
    return np.arange(n, dtype=np.int64) * 2 + (fold(list(args)) * 7 + fold(kwargs)) % M


def _const(v):
    return v


def _inc(v):
    return v + 1


def _zeros(shape):
    return np.zeros(tuple(shape), dtype=np.int64)


def src_data(shape, mul=3, off=1, mod=17):
    n = int(np.prod(shape)) if shape else 1
    return ((np.arange(n, dtype=np.int64) * mul + off) % mod).reshape(shape)


# ------------------------------------------------------------------------------------------ argument trees
# tree := ["lit", int] | ["np", [ints]] | ["del", int] | ["delc", int] | ["arr0", int] | ["arr0e", int]
#       | ["arr1", [ints], [chunks]] | ["L", [tree…]] | ["T", [tree…]] | ["D", {name: tree}]

DASK_LEAVES = ("del", "delc", "arr0", "arr0e", "arr1")
# One argument (= one dask.delayed.unpack_collections call) draws its dask leaves from ONE family: the installed dask's
# unpack_collections / _finalize_args_collections pairs old and new keys by position after _ExprSequence.optimize()
# reordered them when a container mixes two expression-backed collections with a Delayed ([arr, delayed, arr2] arrives as
# [arr, arr2, delayed] in upstream dask.array as well) — not this package's code; mixed containers are a small separate class.
FAMILIES = (("del", "delc"), ("arr0", "arr0e", "arr1"), ("del",), ("arr0", "arr1"))


def tree_dask(t, made):
    """the argument with real dask objects at the leaves; `made` collects the dask arrays created"""
    import dask_array as da
    from dask.delayed import delayed

    k = t[0]
    if k == "lit":
        return t[1]
    if k == "np":
        return np.asarray(t[1], dtype=np.int64)
    if k == "del":
        return delayed(_const, pure=True)(t[1])
    if k == "delc":
        return delayed(_inc, pure=True)(delayed(_const, pure=True)(t[1] - 1))
    if k == "arr0":
        a = da.from_array(np.array(t[1], dtype=np.int64), chunks=())
        made.append(a)
        return a
    if k == "arr0e":
        a = da.from_array(np.array(t[1] - 1, dtype=np.int64), chunks=()) + 1
        made.append(a)
        return a
    if k == "arr1":
        a = da.from_array(np.asarray(t[1], dtype=np.int64), chunks=(tuple(t[2]),))
        made.append(a)
        return a
    if k == "L":
        return [tree_dask(x, made) for x in t[1]]
    if k == "T":
        return tuple(tree_dask(x, made) for x in t[1])
    if k == "D":
        return {n: tree_dask(x, made) for n, x in t[1].items()}
    raise ValueError(k)


def tree_np(t):
    k = t[0]
    if k in ("lit", "del", "delc"):
        return t[1]
    if k in ("arr0", "arr0e"):
        return np.array(t[1], dtype=np.int64)
    if k in ("np", "arr1"):
        return np.asarray(t[1], dtype=np.int64)
    if k == "L":
        return [tree_np(x) for x in t[1]]
    if k == "T":
        return tuple(tree_np(x) for x in t[1])
    if k == "D":
        return {n: tree_np(x) for n, x in t[1].items()}
    raise ValueError(k)


def tree_leaves(t, depth=0):
    if t[0] in ("L", "T"):
        for x in t[1]:
            yield from tree_leaves(x, depth + 1)
    elif t[0] == "D":
        for x in t[1].values():
            yield from tree_leaves(x, depth + 1)
    else:
        yield t[0], depth


def tree_class(t):
    """(container skeleton, dask leaf kinds, nesting depth of the deepest dask leaf)"""
    def skel(t):
        if t[0] in ("L", "T"):
            return t[0] + "".join(sorted({skel(x) for x in t[1]}))
        if t[0] == "D":
            return "D" + "".join(sorted({skel(x) for x in t[1].values()}))
        return "d" if t[0] in DASK_LEAVES else "."

    lv = list(tree_leaves(t))
    dk = sorted({k for k, _ in lv if k in DASK_LEAVES})
    return skel(t)[:8], tuple(dk), max([d for k, d in lv if k in DASK_LEAVES], default=-1)


def rand_leaf(rng, dask_p, kinds=DASK_LEAVES):
    if rng.random() < dask_p:
        k = rng.choice(kinds)
        if k == "arr1":
            n = rng.randint(1, 4)
            c = rng.randint(1, n)
            return ["arr1", [rng.randint(0, 9) for _ in range(n)], [c] * (n // c) + ([n % c] if n % c else [])]
        return [k, rng.randint(1, 9)]
    if rng.random() < 0.2:
        return ["np", [rng.randint(0, 5) for _ in range(rng.randint(1, 3))]]
    return ["lit", rng.randint(0, 9)]


def rand_tree(rng, depth, dask_p=0.5, kinds=DASK_LEAVES):
    if depth <= 0 or rng.random() < 0.2:
        return rand_leaf(rng, dask_p, kinds)
    c = rng.choice("LLTDD")
    n = rng.randint(1, 3)
    if c == "D":
        names = rng.sample(["k", "m", "scale", "z9", "a_b"], n)
        return ["D", {nm: rand_tree(rng, depth - 1, dask_p, kinds) for nm in names}]
    return [c, [rand_tree(rng, depth - 1, dask_p, kinds) for _ in range(n)]]


def shapes_grid(leaf, leaf2, lit):
    """the container skeletons enumerated in every run"""
    return {
        "bare": leaf,
        "list": ["L", [leaf, lit]],
        "tuple": ["T", [lit, leaf]],
        "dict": ["D", {"k": leaf, "m": lit}],
        "list-in-dict": ["D", {"k": ["L", [leaf, leaf2]]}],
        "dict-in-list": ["L", [["D", {"k": leaf}], lit]],
        "tuple-in-dict": ["D", {"k": ["T", [leaf]], "z9": lit}],
        "dict-in-dict": ["D", {"k": ["D", {"m": leaf2, "k": leaf}]}],
        "deep3": ["L", [["T", [["D", {"k": ["L", [leaf, lit]]}]]]]],
        "literal-only": ["D", {"k": ["L", [lit, ["np", [1, 2]]]], "m": ["T", [lit]]}],
    }


# ------------------------------------------------------------------------------------------ container cases

APIS = ("map_blocks", "method_map_blocks", "blockwise", "blockwise2", "map_overlap", "apply_gufunc", "from_delayed", "store", "random")
PRE = (None, "add1", "rechunk1")
POST = (None, "rechunk1", "slice", "T", "sum0", "add1")


def _apply_side(name, x, da_mode):
    if name is None:
        return x
    if name == "add1":
        return x + 1
    if name == "rechunk1":
        return x.rechunk(tuple(max(1, s) for s in x.shape)) if da_mode else x
    if name == "slice":
        return x[1:] if x.ndim == 1 else x[1:, ::2]
    if name == "T":
        return x.T
    if name == "sum0":
        return x.sum(axis=0)
    raise ValueError(name)


def build_container(case):
    """{name: collection}: 'y' the result, 'x' the (pre-processed) input, 'core' the container op itself,
    'n0','n1',… the dask arrays nested in its arguments"""
    import dask_array as da
    from dask.delayed import delayed

    made = []
    args = [tree_dask(t, made) for t in case.get("args", [])]
    kwargs = {n: tree_dask(t, made) for n, t in case.get("kwargs", {}).items()}
    api = case["api"]
    shape = tuple(case["shape"])
    env = {}
    if api != "from_delayed":
        x = da.from_array(src_data(shape), chunks=tuple(tuple(c) for c in case["chunks"]))
        x = _apply_side(case.get("pre"), x, True)
        env["x"] = x
    if api == "map_blocks":
        y = da.map_blocks(fold_block, x, *args, dtype="int64", **kwargs)
    elif api == "method_map_blocks":
        y = x.map_blocks(fold_block, *args, dtype="int64", **kwargs)
    elif api == "blockwise":
        ind = "ij"[: x.ndim]
        lit = [v for a in args for v in (a, None)]
        y = da.blockwise(fold_block, ind, x, ind, *lit, dtype="int64", **kwargs)
    elif api == "blockwise2":
        ind = "ij"[: x.ndim]
        x2 = da.from_array(src_data(shape, 5, 2, 13), chunks=tuple(tuple(c) for c in case["chunks"]))
        lit = [v for a in args for v in (a, None)]
        y = da.blockwise(fold_block2, ind, x, ind, x2, ind, *lit, dtype="int64", **kwargs)
    elif api == "map_overlap":
        y = da.map_overlap(fold_block, x, depth=case.get("depth", 1), boundary=case.get("boundary", "none"),
                           meta=np.array((), dtype=np.int64), **kwargs)
    elif api == "apply_gufunc":
        xr = x.rechunk({x.ndim - 1: -1})
        y = da.apply_gufunc(fold_rows, "(i)->()", xr, output_dtypes="int64", **kwargs)
    elif api == "from_delayed":
        n = int(shape[0])
        y = da.from_delayed(delayed(fold_fill, pure=True)(n, *args, **kwargs), (n,), dtype="int64")
    elif api == "random":
        # distribution parameters given as dask arrays: block references inside a Tuple / Dict container of the task
        r = case["rand"]
        g = da.random.default_rng(r["seed"]) if r["gen"] == "default_rng" else da.random.RandomState(r["seed"])
        x2 = da.from_array(src_data(shape, 5, 2, 13) + 1, chunks=x.chunks)
        kw = {"size": shape, "chunks": x.chunks}
        if r["dist"] == "normal":
            y = g.normal(x, x2, **kw) if r["how"] == "pos" else g.normal(loc=x, scale=x2, **kw) if r["how"] == "kw" else g.normal(x, scale=x2, **kw)
        elif r["dist"] == "poisson":
            y = g.poisson(x2, **kw) if r["how"] == "pos" else g.poisson(lam=x2, **kw)
        else:
            y = g.uniform(x, x + x2, **kw) if r["how"] == "pos" else g.uniform(low=x, high=x + x2, **kw) if r["how"] == "kw" else g.uniform(x, high=x + x2, **kw)
    elif api == "store":
        # the store target is a Delayed (created by a task); the stored result is returned as an array
        target = delayed(_zeros, pure=True)(list(shape)) if not case.get("target_nested") else delayed(_const, pure=True)(np.zeros(shape, dtype=np.int64))
        y = da.store(x, target, compute=False, return_stored=True, lock=False)
    else:
        raise ValueError(api)
    env["core"] = y
    env["y"] = _apply_side(case.get("post"), y, True)
    for i, a in enumerate(made):
        env[f"n{i}"] = a
    return env


def expected_container(case):
    args = [tree_np(t) for t in case.get("args", [])]
    kwargs = {n: tree_np(t) for n, t in case.get("kwargs", {}).items()}
    api = case["api"]
    shape = tuple(case["shape"])
    if api == "from_delayed":
        y = fold_fill(int(shape[0]), *args, **kwargs)
    else:
        x = _apply_side(case.get("pre"), src_data(shape), False)
        if api in ("map_blocks", "method_map_blocks", "blockwise", "map_overlap"):
            y = fold_block(x, *args, **kwargs)
        elif api == "blockwise2":
            y = fold_block2(x, src_data(shape, 5, 2, 13), *args, **kwargs)
        elif api == "apply_gufunc":
            y = fold_rows(x, **kwargs)
        elif api == "store":
            y = x
        elif api == "random":
            return {}  # no NumPy oracle: records ~ dask graph only (per-block seeds are part of the tasks)
    return {"y": _apply_side(case.get("post"), y, False), "core": y}


def container_class(case):
    pos = []
    for t in case.get("args", []):
        pos.append(("arg",) + tree_class(t))
    for t in case.get("kwargs", {}).values():
        pos.append(("kw",) + tree_class(t))
    return ("container", case["api"], case.get("pre"), case.get("post"), case["optimize"], tuple(sorted(pos))[:3])


def _mk_case(rng, api, args, kwargs, pre=None, post=None, optimize=True, shape=None, chunks=None, roots=("y",), **extra):
    if shape is None:
        shape = [rng.randint(3, 5), rng.randint(3, 6)] if api != "from_delayed" else [rng.randint(2, 6)]
    if chunks is None:
        chunks = []
        for n in shape:
            c = rng.randint(1, n)
            chunks.append([c] * (n // c) + ([n % c] if n % c else []))
    case = {"kind": "container", "api": api, "shape": list(shape), "chunks": chunks, "args": args, "kwargs": kwargs,
            "pre": pre, "post": post, "optimize": optimize, "roots": list(roots), "shared": True,
            "oseed": rng.randrange(10**6), "history": "group"}
    case.update(extra)
    return case


def container_grid(rng, full=False):
    """the enumerated part: every container skeleton x dask leaf kind in a map_blocks keyword argument (no bare dask
    keyword next to it: a bare reference elsewhere must not be what makes the nested one resolve), every skeleton in a
    positional argument, and a cross-section for the other APIs; optimize-graph alternates and is drawn per run"""
    out = []
    lit = ["lit", 4]
    leaves = {"del": ["del", 5], "delc": ["delc", 6], "arr0": ["arr0", 7], "arr0e": ["arr0e", 3], "arr1": ["arr1", [2, 0, 5], [2, 1]]}
    i = 0
    for lk, leaf in leaves.items():
        leaf2 = leaves["delc" if lk == "del" else "del"]
        for sk, tree in shapes_grid(leaf, leaf2, lit).items():
            if sk == "literal-only" and lk != "del":
                continue
            i += 1
            opt = bool((i + rng.randrange(2)) % 2)
            out.append(_mk_case(rng, "map_blocks", [], {"cfg": tree, "offset": ["lit", 2]}, optimize=opt, grid=f"kw/{sk}/{lk}"))
            if lk in ("del", "arr0") and not (sk == "bare" and lk.startswith("arr")):
                out.append(_mk_case(rng, rng.choice(("map_blocks", "method_map_blocks")), [tree], {}, optimize=not opt, grid=f"arg/{sk}/{lk}"))
    # a bare reference in one keyword and a nested one in another; two nested ones
    out.append(_mk_case(rng, "map_blocks", [], {"p": leaves["del"], "cfg": ["L", [leaves["delc"], lit]]}, optimize=False, grid="kw/bare+list"))
    out.append(_mk_case(rng, "map_blocks", [], {"p": ["D", {"k": leaves["del"]}], "cfg": ["L", [leaves["arr0"], lit]]}, optimize=True, grid="kw/dict+list"))
    sk_some = ("list", "dict", "tuple-in-dict", "deep3", "bare")
    for api in ("blockwise", "blockwise2", "apply_gufunc", "from_delayed", "map_overlap"):
        for j, sk in enumerate(sk_some):
            for lk in (("del", "arr0") if full or j % 2 == 0 else ("delc",)):
                leaf = leaves[lk]
                tree = shapes_grid(leaf, leaves["del"], lit)[sk]
                i += 1
                opt = bool((i + rng.randrange(2)) % 2)
                kw = {"cfg": tree}
                out.append(_mk_case(rng, api, [], kw, optimize=opt, grid=f"{api}/kw/{sk}/{lk}"))
                if api in ("blockwise", "from_delayed") and not (sk == "bare" and lk.startswith("arr")):
                    out.append(_mk_case(rng, api, [tree, lit], {}, optimize=not opt, grid=f"{api}/arg/{sk}/{lk}"))
    for j, (gen, dist, how) in enumerate((("default_rng", "normal", "pos"), ("default_rng", "normal", "kw"), ("RandomState", "normal", "both"),
                                         ("default_rng", "poisson", "kw"), ("RandomState", "poisson", "pos"), ("default_rng", "uniform", "both"))):
        out.append(_mk_case(rng, "random", [], {}, optimize=bool(j % 2), post=(None, "rechunk1", "add1")[j % 3],
                            rand={"gen": gen, "dist": dist, "how": how, "seed": rng.randrange(100)}, grid=f"random/{dist}/{how}"))
    # one block: the only layout in which a distribution WITHOUT an explicit-parameter expression class computes at all
    # when its parameters are dask arrays (they are kept as whole collections inside a tuple operand)
    out.append(_mk_case(rng, "random", [], {}, optimize=False, shape=[3, 4], chunks=[[3], [4]],
                        rand={"gen": "default_rng", "dist": "uniform", "how": "pos", "seed": 6}, grid="random/uniform/one-block"))
    for opt in (True, False):
        out.append(_mk_case(rng, "store", [], {}, optimize=opt, grid="store/delayed-target"))
        out.append(_mk_case(rng, "store", [], {}, optimize=opt, post="add1", target_nested=True, grid="store/delayed-ndarray-target"))
    # below / above another op, and grouped with the nested dask array / the input (shared `seen`)
    for pre, post in ((None, "rechunk1"), ("rechunk1", "slice"), (None, "T"), ("add1", None), (None, "sum0"), (None, "add1")):
        i += 1
        tree = shapes_grid(leaves["del"], leaves["delc"], lit)[("list-in-dict", "dict-in-list", "tuple-in-dict")[i % 3]]
        out.append(_mk_case(rng, "map_blocks", [], {"cfg": tree}, pre=pre, post=post, optimize=bool(i % 2), grid=f"around/{pre}/{post}"))
        out.append(_mk_case(rng, "map_blocks", [], {"cfg": tree}, pre=pre, post=post, optimize=not bool(i % 2), grid=f"around/{pre}/{post}"))
    tree = ["D", {"k": ["L", [leaves["arr0e"], lit]], "m": leaves["arr1"]}]
    for roots, hist in ((("y", "n0"), "group"), (("n0", "y"), "group-then-alone"), (("y", "x", "n1"), "alone-then-group"), (("core", "y"), "group-then-alone")):
        out.append(_mk_case(rng, "map_blocks", [], {"cfg": tree, "w": ["T", [leaves["delc"]]]}, post="rechunk1", optimize=bool(rng.randrange(2)), roots=roots, history=hist, grid="group/" + "+".join(roots)))
    return out


def random_container(rng):
    api = rng.choice(("map_blocks", "map_blocks", "method_map_blocks", "blockwise", "blockwise2", "apply_gufunc", "from_delayed", "from_delayed", "store", "map_overlap", "random"))
    args, kwargs = [], {}
    mixed = rng.random() < 0.06

    one_family = rng.choice(FAMILIES)  # from_delayed: ALL arguments go through one unpack_collections call

    def fam():
        return DASK_LEAVES if mixed else one_family if api == "from_delayed" else rng.choice(FAMILIES)

    if api in ("map_blocks", "method_map_blocks", "blockwise", "blockwise2", "from_delayed"):
        for _ in range(rng.choice((0, 0, 1, 1, 2))):
            t = rand_tree(rng, rng.randint(0, 3), rng.choice((0.3, 0.6, 0.9)), fam())
            if t[0] in ("arr1", "arr0", "arr0e") and api != "from_delayed":
                t = ["L", [t]]  # a bare dask array in a positional slot is a blockwise ARRAY operand, not a nested argument
            args.append(t)
    if api not in ("store", "random"):
        bare_ok = rng.random() < 0.4
        for nm in rng.sample(["cfg", "weights", "p", "q_r"], rng.choice((0, 1, 1, 2, 3))):
            t = rand_tree(rng, rng.randint(0 if bare_ok else 1, 3), rng.choice((0.3, 0.6, 0.9)), fam())
            if not bare_ok and t[0] in DASK_LEAVES:
                t = [rng.choice("LT"), [t]]
            kwargs[nm] = t
    pre = rng.choice(PRE + (None, None)) if api != "from_delayed" else None
    post = rng.choice(POST + (None, None, None))
    if api in ("from_delayed", "apply_gufunc") and post in ("slice", "T", "sum0"):
        post = rng.choice((None, "add1", "rechunk1"))
    optimize = rng.random() < 0.5
    if optimize and rng.random() < 0.7:
        # a blockwise neighbour is FUSED with the container op and the fused task hands the nested Delayed to the
        # function unresolved on the dask graph as well (outside this property, noted): mostly non-fusing neighbours
        pre = pre if pre != "add1" else rng.choice((None, "rechunk1"))
        post = post if post not in ("add1", "sum0", "T") else rng.choice((None, "rechunk1", "slice") if api not in ("from_delayed", "apply_gufunc", "store") else (None, "rechunk1"))
    case = _mk_case(rng, api, args, kwargs, pre=pre, post=post, optimize=optimize)
    if api == "map_overlap":
        case["depth"] = rng.choice((1, 1, 2))
        case["boundary"] = rng.choice(("none", "reflect", "periodic", "nearest"))
        case["chunks"] = [[n] if n < 2 * case["depth"] + 2 else [n - n // 2, n // 2] for n in case["shape"]]
    if api == "store":
        case["target_nested"] = rng.random() < 0.4
    if api == "random":
        case["rand"] = {"gen": rng.choice(("default_rng", "RandomState")), "dist": rng.choice(("normal", "poisson", "uniform")),
                        "how": rng.choice(("pos", "kw", "both")), "seed": rng.randrange(100)}
    # grouped with the input / the nested dask arrays / the bare container op
    r = rng.random()
    names = ["y"]
    if r < 0.35:
        env_names = ["core"] + (["x"] if api != "from_delayed" else [])
        nn = sum(1 for t in list(args) + list(kwargs.values()) for k, _ in tree_leaves(t) if k in ("arr0", "arr0e", "arr1"))
        env_names += [f"n{i}" for i in range(nn)]
        names += rng.sample(env_names, min(len(env_names), rng.randint(1, 2)))
        if rng.random() < 0.5:
            names.reverse()
        case["history"] = rng.choice(("group", "group-then-alone", "alone-then-group"))
    case["roots"] = names
    return case


def shrink_container(case, still, max_iter=120):
    """greedy: drop the ops around, the group, whole arguments, then replace subtrees by their first child / a literal"""
    cur = case
    it = 0

    def variants(c):
        if len(c["roots"]) > 1:
            yield dict(c, roots=[c["roots"][0] if c["roots"][0] in ("y", "core") else "y"], history="group")
        for f in ("pre", "post"):
            if c.get(f):
                yield dict(c, **{f: None})
        for i in range(len(c.get("args", []))):
            yield dict(c, args=c["args"][:i] + c["args"][i + 1:])
        for n in c.get("kwargs", {}):
            yield dict(c, kwargs={k: v for k, v in c["kwargs"].items() if k != n})

        def sub(t):
            if t[0] in ("L", "T"):
                for i, x in enumerate(t[1]):
                    if len(t[1]) > 1:
                        yield [t[0], t[1][:i] + t[1][i + 1:]]
                    for s in sub(x):
                        yield [t[0], t[1][:i] + [s] + t[1][i + 1:]]
                for x in t[1]:
                    if x[0] in ("L", "T", "D"):
                        yield x
            elif t[0] == "D":
                for n, x in t[1].items():
                    if len(t[1]) > 1:
                        yield ["D", {k: v for k, v in t[1].items() if k != n}]
                    for s in sub(x):
                        yield ["D", dict(t[1], **{n: s})]
                for x in t[1].values():
                    if x[0] in ("L", "T", "D"):
                        yield x
            elif t[0] in ("delc", "arr0e", "arr1", "np"):
                yield ["del", 5] if t[0] == "delc" else ["arr0", 7] if t[0] != "np" else ["lit", 1]

        for i, t in enumerate(c.get("args", [])):
            for s in sub(t):
                if not (s[0] in ("arr0", "arr0e", "arr1") and c["api"] != "from_delayed"):
                    yield dict(c, args=c["args"][:i] + [s] + c["args"][i + 1:])
        for n, t in c.get("kwargs", {}).items():
            for s in sub(t):
                yield dict(c, kwargs=dict(c["kwargs"], **{n: s}))
        if any(len(ch) > 1 for ch in c["chunks"]):
            yield dict(c, chunks=[[sum(ch)] for ch in c["chunks"]])

    progress = True
    while progress and it < max_iter:
        progress = False
        for v in variants(cur):
            it += 1
            if it > max_iter:
                break
            try:
                ok = still(v)
            except Exception:
                ok = False
            if ok:
                cur = v
                progress = True
                break
    return cur


# ------------------------------------------------------------------------------------------ layer fidelity (C22)

def _norm(key):
    if isinstance(key, tuple):
        return tuple(int(k) if isinstance(k, (int, np.integer)) and not isinstance(k, bool) else k for k in key)
    return key


def leftover_nodes(a, func=None, top=False):
    """names of graph-node classes left inside a record's arguments (records are flat: TaskRef deps, plain containers,
    literals).  A fused task carries its inner subgraph / output key / input labels as DATA in its first three arguments."""
    from dask._task_spec import GraphNode, _execute_subgraph

    if top and func is _execute_subgraph and isinstance(a, (list, tuple)) and len(a) >= 3:
        a = a[3:]
    if isinstance(a, GraphNode):
        return [type(a).__name__]
    if isinstance(a, (list, tuple)):
        return [n for x in a for n in leftover_nodes(x)]
    if isinstance(a, dict):
        return [n for x in a.values() for n in leftover_nodes(x)]
    return []


def walk_layer(node):
    """records of the layer `_walk_records` uses for this node, and which one it was"""
    from dask_array._frisky.graph_records import GraphRecordsLayer

    layer, how = None, "generic(no native layer)"
    mk = getattr(node, "_frisky_layer", None)
    if mk is not None:
        try:
            layer = mk()
            how = "python-side:" + type(layer).__name__
        except (NotImplementedError, ImportError) as e:
            layer, how = None, "generic(declined:%s)" % (type(e).__name__ if isinstance(e, ImportError) else str(e)[:40])
    if layer is None:
        layer = GraphRecordsLayer(node)
    return layer.to_task_records(), how


def layer_fidelity(node):
    """[(signature, detail)] — the records the walk emits for `node` vs the node's Python `_layer()`:
    same keys (plus `<key>-subN` helpers), same external dependencies per key, flat arguments."""
    from dask._task_spec import Alias, convert_legacy_graph
    from dask.core import flatten

    try:
        recs, how = walk_layer(node)
    except NotImplementedError:
        return [], "declined"
    local = node._layer()
    allk = set(local)
    for d in node.dependencies():
        allk.update(flatten(d.__dask_keys__()))
    dsk = convert_legacy_graph(local, allk)
    by = {}
    for r in recs:
        by.setdefault(r[0], r)
    out = []
    cname = type(node).__name__
    want_keys = {}
    for key, t in dsk.items():
        sk = str(_norm(key))
        if isinstance(t, Alias) and str(_norm(t.target)) == sk:
            continue  # a self alias (live future under its own key) emits no record
        want_keys[sk] = t
    for sk, t in want_keys.items():
        if sk not in by:
            out.append(("layer-records:key-missing", f"{cname} [{how}]: _layer() defines {sk}, the records do not"))
            break
        want = {str(_norm(d)) for d in getattr(t, "dependencies", ())}
        got, stack, seen = set(), list(by[sk][4]), set()
        while stack:
            d = stack.pop()
            if d in seen:
                continue
            seen.add(d)
            if d.startswith(sk + "-sub") and d in by:
                stack.extend(by[d][4])
            else:
                got.add(d)
        if got != want:
            out.append(("layer-records:dependencies-differ",
                        f"{cname} [{how}]: task {sk}: record deps {sorted(got)[:4]} != _layer() deps {sorted(want)[:4]} "
                        f"(missing {sorted(want - got)[:2]}, extra {sorted(got - want)[:2]})"))
            break
    for k, r in by.items():
        if k not in want_keys and not any(k.startswith(w + "-sub") for w in want_keys):
            out.append(("layer-records:extra-key", f"{cname} [{how}]: the records define {k}, _layer() does not"))
            break
    for r in recs:
        left = leftover_nodes(r[2], r[1], top=True) + leftover_nodes(r[3])
        if left:
            out.append(("layer-records:graph-node-left-in-record", f"{cname} [{how}]: record {r[0]} carries {sorted(set(left))} in its arguments"))
            break
    else:
        # the references a worker resolves BY KEY STRING (never through Python equality of key tuples): canonical key types in embedded
        # references, set of str(embedded key) == declared deps, no NumPy scalar repr in key / dep strings (harness.props_ext.c21_catalog)
        from harness.props_ext.c21_catalog import ref_audit

        for kind, detail in ref_audit(recs):
            out.append(("layer-records:" + kind, f"{cname} [{how}]: {detail}"))
    return out, how


# ------------------------------------------------------------------------------------------ history cases

BASES = ("src", "plus1", "mul2", "rechunked", "neg_sum")
READS = ("okeys", "dkeys", "records", "graph", "chunks", "name", "compute", "lowered")
MUTS = ("setitem_mask", "setitem_mask_other", "setitem_mask_darr0", "setitem_slice", "setitem_slice_np", "setitem_slice_darr", "setitem_intlist",
        "np_out", "da_out", "out_other", "out_where", "cumsum_out", "sum_out", "compute_chunk_sizes")


def _base(case, da_mode):
    import dask_array as da

    shape = tuple(case["shape"])
    a = src_data(shape, 3, 1, 23)
    if not da_mode:
        x = a
    else:
        x = da.from_array(a, chunks=tuple(tuple(c) for c in case["chunks"]))
    b = case.get("base", "src")
    if b == "plus1":
        x = x + 1
    elif b == "mul2":
        x = x * 2
    elif b == "rechunked":
        x = (x + 1).rechunk(tuple(max(1, s) for s in shape)) if da_mode else x + 1
    elif b == "neg_sum":
        x = (-x) + x.sum(axis=0)
    if not da_mode:
        x = np.array(x)
    return x


def _other(case, da_mode, k=1):
    import dask_array as da

    shape = tuple(case["shape"])
    a = src_data(shape, 5, 2 + k, 19)
    return da.from_array(a, chunks=tuple((s,) if i == 0 else (s - s // 2, s // 2) if s > 1 else (s,) for i, s in enumerate(shape))) if da_mode else a


def _dec_index(enc):
    out = []
    for e in enc:
        if isinstance(e, list) and e and e[0] == "s":
            out.append(slice(e[1], e[2], e[3]))
        elif isinstance(e, list):
            out.append(list(e))
        else:
            out.append(e)
    return tuple(out)


def apply_mutation(mut, x, a, case):
    """apply the in-place update to the dask collection x (None: NumPy side only) and to its NumPy mirror a; returns the
    new mirror (compute_chunk_sizes and a 1-d boolean selection keep it)"""
    import dask
    import dask_array as da

    m = mut["m"]
    if m == "setitem_mask":
        if x is not None:
            x[x > mut["thr"]] = mut["value"]
        a[a > mut["thr"]] = mut["value"]
    elif m == "setitem_mask_other":
        mk = _other(case, False) % 3 == 0
        if x is not None:
            x[_other(case, True) % 3 == 0] = mut["value"]
        a[mk] = mut["value"]
    elif m == "setitem_mask_darr0":
        if x is not None:
            x[x > mut["thr"]] = da.from_array(np.array(mut["value"], dtype=np.int64), chunks=())
        a[a > mut["thr"]] = mut["value"]
    elif m in ("setitem_slice", "setitem_slice_np", "setitem_slice_darr", "setitem_intlist"):
        idx = _dec_index(mut["index"])
        if m == "setitem_slice" or m == "setitem_intlist":
            v = vd = mut["value"]
        else:
            tgt = a[idx]
            n = tgt.shape[-1] if tgt.ndim else 1
            v = (np.arange(n, dtype=np.int64) * 7 + mut["value"]) % 31
            vd = v if m == "setitem_slice_np" or x is None else da.from_array(v, chunks=max(1, n // 2))
        if x is not None:
            x[idx] = vd
        a[idx] = v
    elif m == "np_out":
        fn = getattr(np, mut["fn"])
        if x is not None:
            fn(x, mut["c"], out=x) if mut["fn"] != "negative" else fn(x, out=x)
        fn(a, mut["c"], out=a) if mut["fn"] != "negative" else fn(a, out=a)
    elif m == "da_out":
        if x is not None:
            getattr(da, mut["fn"])(x, mut["c"], out=x) if mut["fn"] != "negative" else da.negative(x, out=x)
        fn = getattr(np, mut["fn"])
        fn(a, mut["c"], out=a) if mut["fn"] != "negative" else fn(a, out=a)
    elif m == "out_other":
        if x is not None:
            np.multiply(_other(case, True), mut["c"], out=x)
        np.multiply(_other(case, False), mut["c"], out=a)
    elif m == "out_where":
        if x is not None:
            np.add(x, mut["c"], out=x, where=_other(case, True) % 2 == 0)
        np.add(a, mut["c"], out=a, where=_other(case, False) % 2 == 0)
    elif m == "cumsum_out":
        if x is not None:
            da.cumsum(_other(case, True), axis=mut.get("axis", 0), out=x)
        a[...] = np.cumsum(_other(case, False), axis=mut.get("axis", 0))
    elif m == "sum_out":
        # a reduction over a stacked operand written into x (same shape)
        if x is not None:
            da.stack([_other(case, True), _other(case, True, 2)]).sum(axis=0, out=x)
        a[...] = _other(case, False) + _other(case, False, 2)
    elif m == "unknown_select":
        # not in place: the collection is REPLACED by a selection with unknown chunk sizes (prepares compute_chunk_sizes)
        raise ValueError("handled by the driver")
    elif m == "compute_chunk_sizes":
        if x is not None:
            with dask.config.set(scheduler="sync"):
                x.compute_chunk_sizes()
    else:
        raise ValueError(m)
    return a


def _read(kind, x):
    import dask

    if kind == "okeys":
        x.__frisky_output_keys__()
    elif kind == "dkeys":
        x.__dask_keys__()
    elif kind == "records":
        try:
            x.__frisky_graph__()
        except NotImplementedError:
            pass
    elif kind == "graph":
        x.__dask_graph__()
    elif kind == "chunks":
        try:
            x.__frisky_records_chunks__()
        except NotImplementedError:
            pass
    elif kind == "name":
        x.name
    elif kind == "compute":
        with dask.config.set(scheduler="sync"):
            x.compute()
    elif kind == "lowered":
        x._lowered_expr
    else:
        raise ValueError(kind)


def _blocks_in_order(x, values, keys):
    """the ndarray assembled from `values` under `keys` (flat, C order over x.numblocks)"""
    from itertools import product

    nb = x.numblocks
    if not nb:
        return np.asarray(values[keys[0]])
    grid = np.empty(nb, dtype=object)
    for idx, k in zip(product(*(range(n) for n in nb)), keys):
        grid[idx] = np.asarray(values[k])
    return np.block(grid.tolist())


def _same(got, want):
    got = np.asarray(got)
    return got.shape == want.shape and got.dtype != object and np.array_equal(got, want)


def observe(x, exec_records, oseed=0):
    """('declined',) or dict(okeys, undefined, problems, value) of the collection's records at its advertised output keys"""
    try:
        okeys = x.__frisky_output_keys__()
        recs = x.__frisky_graph__()
    except NotImplementedError:
        return None
    values, problems, _ = exec_records(recs, random.Random(oseed))
    undefined = [k for k in okeys if k not in {r[0] for r in recs}]
    val = None
    if not problems and not undefined:
        try:
            val = _blocks_in_order(x, values, okeys)
        except Exception as e:
            problems = [("blocks-do-not-assemble", f"{type(e).__name__}: {str(e)[:100]}")]
    return {"okeys": okeys, "undefined": undefined, "problems": problems, "value": val, "n": len(recs)}


def graph_value(x):
    from dask.core import flatten

    vals, _ = graphs.execute(graphs.to_tasks(dict(x.__dask_graph__())), rng=None, order="fifo")
    keys = list(flatten(x.__dask_keys__()))
    return _blocks_in_order(x, vals, keys)


def run_history(ctx, case, exec_records, count=True):
    """[(signature, detail)] | None (construction refused / outside the property)."""
    import dask

    fails = []
    notes = ctx.notes

    def play(with_reads):
        """run the steps; yields (step, mutation name, x, mirror, mirror before the update, dependents, forks, optimize)
        after every in-place update and once at the end.  with_reads=False: the TWIN (only the updates, no read, no fork)"""
        x = _base(case, True)
        a = _base(case, False)
        deps, forks = [], []
        opt = case["optimize"]
        for i, st in enumerate(case["steps"]):
            out = None
            with dask.config.set({"array.optimize-graph": opt}):
                if st[0] == "read":
                    if with_reads:
                        _read(st[1], x)
                elif st[0] == "dependent":
                    if with_reads:
                        z = (x + 1) if st[1] == "add1" else x.sum(axis=0) if st[1] == "sum0" else x[::-1]
                        za = (a + 1) if st[1] == "add1" else a.sum(axis=0) if st[1] == "sum0" else a[::-1]
                        if len(st) > 2:
                            _read(st[2], z)
                        deps.append((z, np.array(za), f"dependent {st[1]} built at step {i}"))
                elif st[0] == "fork":
                    if with_reads:
                        forks.append((x, np.array(a), f"original left behind by copy.copy at step {i}"))
                        x = _copy.copy(x)
                elif st[0] == "select":
                    # replaced (not in place): 1-d selection with unknown chunk sizes
                    x = x[x % st[1] != 0]
                    a = a[a % st[1] != 0]
                elif st[0] == "mut":
                    before = np.array(a)
                    a = apply_mutation(st[1], x, a, case)
                    out = (i, st[1]["m"], x, a, before, deps, forks, opt)
            if st[0] == "optflip":
                opt = not opt
            if out is not None:
                yield out
        yield None, "end", x, a, None, deps, forks, opt

    try:
        twin_states = {}
        for i, m, tx, ta, _, _, _, topt in play(False):
            with dask.config.set({"array.optimize-graph": topt}):
                snap = type(tx)(tx.expr)  # a snapshot over the twin's current expression: the twin itself never reads anything
                try:
                    tk = snap.__frisky_output_keys__()
                except NotImplementedError:
                    tk = None
                twin_states[i] = (tk, snap)
    except NotImplementedError:
        notes["history_refused"] = notes.get("history_refused", 0) + 1
        return None
    except Exception as e:
        notes["history_construction_raised"] = notes.get("history_construction_raised", 0) + 1
        notes.setdefault("history_construction_raised_example", f"{type(e).__name__}: {str(e)[:120]} :: {case['steps']}")
        return None

    def check(x, want, label, before=None, twin=None, opt=True):
        with dask.config.set({"array.optimize-graph": opt}):
            ob = observe(x, exec_records, case.get("oseed", 0))
            if ob is None:
                notes["history_declined"] = notes.get("history_declined", 0) + 1
                return
            if count:
                notes["history_records_executed"] = notes.get("history_records_executed", 0) + ob["n"]
            stale = ""
            if twin is not None and twin[0] is not None and ob["okeys"] != twin[0]:
                # not a failure by itself (the property speaks about the keys the collection advertises), but it explains one
                stale = (f" [the advertised keys {ob['okeys'][:1]} differ from those of a collection that went through the same updates "
                         f"without any earlier read: {twin[0][:1]}]")
            if ob["undefined"]:
                fails.append(("history:output-key-undefined", f"{label}: {len(ob['undefined'])} of {len(ob['okeys'])} advertised output keys are not defined by the records, e.g. {ob['undefined'][0]}" + stale))
                return
            for kind, detail in ob["problems"]:
                fails.append(("history:records:" + kind, f"{label}: {detail}" + stale))
            if ob["problems"]:
                return
            if not _same(ob["value"], want):
                # is it the history, or is the dask graph of an unread twin wrong in the same way (outside C21)?
                tv = None
                try:
                    tv = graph_value(twin[1]) if twin is not None else None
                except Exception:
                    tv = None
                if tv is not None and _same(ob["value"], np.asarray(tv)) and not _same(tv, want):
                    notes["outside_C21:in-place update differs from NumPy on the dask graph too"] = notes.get("outside_C21:in-place update differs from NumPy on the dask graph too", 0) + 1
                    notes.setdefault("outside_C21:in-place example", f"{label}: {case['steps']}")
                    return
                if before is not None and _same(ob["value"], before):
                    fails.append(("history:output-keys-hold-pre-update-values", f"{label}: the records under the advertised output keys compute the values from BEFORE the update: "
                                  f"{np.asarray(ob['value']).ravel()[:6].tolist()}, expected {want.ravel()[:6].tolist()}" + stale))
                else:
                    fails.append(("history:records-differ-from-numpy", f"{label}: records give {np.asarray(ob['value']).ravel()[:6].tolist()} shape {np.asarray(ob['value']).shape}, "
                                  f"NumPy gives {want.ravel()[:6].tolist()} shape {want.shape}" + stale))
                return
            # the dask graph of the SAME object at its advertised keys
            try:
                gv = graph_value(x)
            except Exception as e:
                fails.append(("history:dask-graph-lacks-advertised-keys", f"{label}: {type(e).__name__}: {str(e)[:120]}"))
                return
            if not _same(gv, np.asarray(ob["value"])):
                fails.append(("history:records-differ-from-dask-graph", f"{label}: records {np.asarray(ob['value']).ravel()[:6].tolist()} vs dask graph {np.asarray(gv).ravel()[:6].tolist()}"))

    try:
        for i, m, x, a, before, deps, forks, opt in play(True):
            label = f"after {m} (step {i})" if i is not None else "at the end"
            check(x, np.array(a), label, before, twin_states.get(i), opt)
            if fails:
                break
            if i is None:
                for z, zv, zl in deps:
                    check(z, zv, zl, None, None, opt)
                for f, fv, fl in forks:
                    check(f, fv, fl, None, None, opt)
                if deps and not fails:
                    # x and its dependents walked with one shared `seen`
                    with dask.config.set({"array.optimize-graph": opt}):
                        try:
                            seen = set()
                            recs, okeys = [], []
                            members = [x] + [z for z, _, _ in deps]
                            for c in members:
                                recs += c.__frisky_graph__(seen=seen)
                            produced = {r[0] for r in recs}
                            dangling = {d for r in recs for d in r[4]} - produced
                            if not dangling:
                                values, problems, _ = exec_records(recs, random.Random(case.get("oseed", 0)))
                                for kind, detail in problems:
                                    fails.append(("history:group:" + kind, detail))
                                if not problems:
                                    for c, want in zip(members, [np.array(a)] + [zv for _, zv, _ in deps]):
                                        ok = c.__frisky_output_keys__()
                                        if any(k not in values for k in ok):
                                            fails.append(("history:group:output-key-undefined", f"shared-seen walk of the updated collection and {len(deps)} dependents"))
                                            break
                                        if not _same(_blocks_in_order(c, values, ok), want):
                                            fails.append(("history:group:records-differ-from-numpy", f"shared-seen walk of the updated collection and its dependents built before the update"))
                                            break
                        except NotImplementedError:
                            pass
    except NotImplementedError:
        notes["history_refused"] = notes.get("history_refused", 0) + 1
        return None
    except Exception as e:
        if fails:
            return fails
        notes["history_run_raised"] = notes.get("history_run_raised", 0) + 1
        notes.setdefault("history_run_raised_example", f"{type(e).__name__}: {str(e)[:120]} :: {case['steps']}")
        return None
    if count:
        muts = tuple(st[1]["m"] for st in case["steps"] if st[0] == "mut")
        reads = tuple(sorted({st[1] for st in case["steps"] if st[0] == "read"}))
        ctx.count(("history", case.get("base"), case["optimize"], muts[:2], reads[:2], any(st[0] in ("fork", "dependent", "optflip") for st in case["steps"])))
    return fails


SHAPE_FREE = ("setitem_mask", "setitem_mask_darr0", "np_out", "da_out")


def rand_mutation(rng, shape, unknown=False, shape_free=False):
    if unknown:
        return {"m": "compute_chunk_sizes"}
    m = rng.choice(SHAPE_FREE if shape_free else MUTS[:-1])
    mut = {"m": m}
    if m.startswith("setitem_mask"):
        mut.update(thr=rng.randint(2, 18), value=rng.choice((-1, 0, 99)))
    elif m.startswith("setitem_slice"):
        idx = []
        for n in shape:
            r = rng.random()
            if r < 0.25:
                idx.append(["s", None, None, None])
            elif r < 0.4 and m == "setitem_slice":
                idx.append(rng.randrange(n))
            else:
                lo = rng.randrange(n)
                idx.append(["s", lo, rng.randint(lo + 1, n), rng.choice((None, 1, 2))])
        if all(not isinstance(e, list) for e in idx):
            idx[-1] = ["s", None, None, None]
        if m != "setitem_slice" and not isinstance(idx[-1], list):
            idx[-1] = ["s", None, None, None]
        mut.update(index=idx, value=rng.choice((7, -3, 0)))
    elif m == "setitem_intlist":
        n = shape[0]
        mut.update(index=[sorted(rng.sample(range(n), rng.randint(1, min(n, 3))))], value=rng.choice((7, -3)))
    elif m in ("np_out", "da_out"):
        mut.update(fn=rng.choice(("add", "multiply", "subtract", "negative", "maximum")), c=rng.randint(1, 5))
    elif m in ("out_other", "out_where"):
        mut.update(c=rng.randint(2, 5))
    elif m == "cumsum_out":
        mut.update(axis=rng.randrange(len(shape)))
    return mut


def _hist_case(rng, steps, base="plus1", optimize=True, shape=None, chunks=None, **extra):
    shape = shape or [4, 6]
    if chunks is None:
        chunks = []
        for n in shape:
            c = rng.randint(1, n)
            chunks.append([c] * (n // c) + ([n % c] if n % c else []))
    case = {"kind": "history", "shape": shape, "chunks": chunks, "base": base, "steps": steps, "optimize": optimize, "oseed": rng.randrange(10**6)}
    case.update(extra)
    return case


def history_grid(rng):
    """every early read x every in-place update (one of each pair per run is drawn for base / optimize), plus the
    unknown-chunk-size path for every early read, double updates, forks, dependents, optimize flips"""
    out = []
    reads = (None,) + READS
    i = 0
    for m in MUTS[:-1]:
        for rd in reads:
            i += 1
            mut = rand_mutation(rng, [4, 6])
            while mut["m"] != m:
                mut = rand_mutation(rng, [4, 6])
            steps = ([["read", rd]] if rd else []) + [["mut", mut]]
            out.append(_hist_case(rng, steps, base=BASES[(i + rng.randrange(2)) % len(BASES)], optimize=bool((i // 2 + rng.randrange(2)) % 2),
                                  shape=[4, 6], grid=f"{rd}/{m}"))
    for rd in reads:
        for opt in (True, False):
            steps = [["select", rng.choice((2, 3))]] + ([["read", rd]] if rd else []) + [["mut", {"m": "compute_chunk_sizes"}]]
            out.append(_hist_case(rng, steps, base=rng.choice(("src", "plus1")), optimize=opt, shape=[rng.randint(6, 11)], grid=f"{rd}/compute_chunk_sizes"))
    for rd in ("okeys", "dkeys", "records", "graph"):
        m1, m2 = rand_mutation(rng, [4, 6]), rand_mutation(rng, [4, 6])
        out.append(_hist_case(rng, [["read", rd], ["mut", m1], ["read", rng.choice(READS)], ["mut", m2]], optimize=bool(rng.randrange(2)), grid=f"{rd}/double"))
        out.append(_hist_case(rng, [["read", rd], ["fork"], ["mut", m1]], optimize=bool(rng.randrange(2)), grid=f"{rd}/fork"))
        out.append(_hist_case(rng, [["dependent", rng.choice(("add1", "sum0", "rev")), rd], ["read", rd], ["mut", m2]], optimize=bool(rng.randrange(2)), grid=f"{rd}/dependent"))
        out.append(_hist_case(rng, [["read", rd], ["optflip"], ["mut", m1], ["read", "graph"], ["optflip"]], optimize=bool(rng.randrange(2)), grid=f"{rd}/optflip"))
    return out


def random_history(rng):
    nd = rng.choice((1, 2, 2, 2))
    shape = [rng.randint(3, 7) for _ in range(nd)]
    steps = []
    unknown = selected = False
    if nd == 1 and rng.random() < 0.5:
        steps.append(["select", rng.choice((2, 3))])
        unknown = selected = True
    for _ in range(rng.randint(1, 3)):
        for _ in range(rng.choice((0, 1, 1, 2))):
            r = rng.random()
            if r < 0.7:
                steps.append(["read", rng.choice(READS)])
            elif r < 0.8 and not unknown:
                steps.append(["dependent", rng.choice(("add1", "sum0", "rev"))] + ([rng.choice(READS)] if rng.random() < 0.5 else []))
            elif r < 0.9:
                steps.append(["fork"])
            else:
                steps.append(["optflip"])
        steps.append(["mut", rand_mutation(rng, shape, unknown, selected)])
        unknown = False
    return _hist_case(rng, steps, base=rng.choice(BASES[:4] if nd == 1 else BASES), optimize=rng.random() < 0.5, shape=shape)


def shrink_history(case, still, max_iter=80):
    cur = case
    it = 0
    progress = True
    while progress and it < max_iter:
        progress = False
        cands = []
        st = cur["steps"]
        for i in range(len(st)):
            cands.append(dict(cur, steps=st[:i] + st[i + 1:]))
        if cur.get("base") != "src":
            cands.append(dict(cur, base="src"))
            cands.append(dict(cur, base="plus1"))
        if any(len(c) > 1 for c in cur["chunks"]):
            cands.append(dict(cur, chunks=[[sum(c)] for c in cur["chunks"]]))
        for v in cands:
            it += 1
            if it > max_iter:
                break
            if not any(s[0] == "mut" for s in v["steps"]):
                continue
            try:
                ok = still(v)
            except Exception:
                ok = False
            if ok:
                cur = v
                progress = True
                break
    return cur
