"""C07 extension — names and OPTIMIZED GRAPH KEYS after a history under another configuration.

C07: building the same program from equal inputs yields the same collection name and the same optimized graph
keys, in the same process and in a fresh one.  dask_array keeps process-wide state keyed by NAME: the singleton
registries of expression nodes (with whatever they cached: `.chunks`, lowered forms) and `_LOWER_CACHE`.  A node
whose lowering / layout reads an option LAZILY (after construction) while its name does not record that option
makes the second build depend on what was built — and materialized — earlier under another configuration.

A case (plain JSON, replays from the dict alone):

    clean registries
    under `earlier` config X:  build the program (optionally with one more op on top: a DIFFERENT program sharing
                               the subtree), materialize it (graph / compute / keys / persist / lowered / nothing),
                               keep it alive (or drop it and collect)
    under `config` Y:          build the program again  ->  OBSERVED  (names of all variables, keys, chunks, dtype,
                               optimized graph keys, values)
    oracle 1: clean registries, build under Y            (same process, nothing else alive)
    oracle 2: a FRESH interpreter building under Y       (C07's child process)

The options are enumerated from the SOURCE on every run (harness/translate/configreads.py: every `config.get` key
reachable from `chunks` / `_lower` / `_simplify_*` / `_layer`), value domains from c04_drift.DOMAIN (generic values for a
new key).  Programs are chosen to be SENSITIVE to the drifting option: tree reductions over many blocks (every
reduction family: sum / max / min / mean / var / std / prod / any / all / nansum / nanmax / argmax / argmin, topk,
bincount, tensordot / matmul / einsum contractions) for `split_every`; many-block rechunks for `array.rechunk.*`;
`chunks="auto"` sources, `rechunk("auto")` for `array.chunk-size*`; aligned multi-operand nodes over different
chunkings for `array.unify-chunks-*`; everything for `array.optimize-graph`.

Known family on the unchanged tree (`pickle:other-config:lazy-chunks-unresolved`): `.chunks` of a `chunks="auto"`
source / an aligned node over differently chunked operands are resolved lazily against the configuration of whoever asks
first and cached on the singleton node, so a rebuild under another unify / chunk-size setting inherits the earlier
layout (same name, other chunks and keys; below a contraction only the optimized graph shows it).  Differences found while
ONLY unify / chunk-size options drifted, on a program with such a node, names agreeing, are reported under that signature;
everything else under `cfg-history:<fields>:<drifted options>`.
"""
from __future__ import annotations

import gc
import json
import warnings

import numpy as np

from harness import gen, programs
from harness.props_ext import c04_drift as D

SIG_LAZY_CHUNKS = "pickle:other-config:lazy-chunks-unresolved"  # known finding of C07 (same root cause)
LAYOUT_KEYS = ("array.unify-chunks-policy", "array.unify-chunks-limit", "array.chunk-size", "array.chunk-size-tolerance")
MATS = ("graph", "compute", "keys", "persist", "lowered", "none")
REDUCTIONS = ("sum", "max", "min", "mean", "var", "std", "prod", "any", "all", "nansum", "nanmax", "argmax", "argmin")
FIELDS = ("names", "dask_keys", "chunks", "dtype", "graph_keys", "n_graph_keys", "values")


# ------------------------------------------------------------------------------------ language (c04_drift's + a few ops)

def apply_step(step, env, m, da_mode):
    op = step["op"]
    A = [env[a] for a in step.get("args", [])]
    if op == "topk":
        return m.topk(A[0], step["k"], axis=step["axis"]) if da_mode else np.sort(A[0], axis=step["axis"])[..., ::-1][..., : step["k"]]
    if op == "bincount":
        return m.bincount(A[0] % step["mod"], minlength=step["mod"])
    if op == "einsum":
        return m.einsum(step["sub"], *A)
    return D.apply_step(step, env, m, da_mode)


def run_np(prog):
    env = {}
    with np.errstate(all="ignore"):
        for st in prog:
            env[st["out"]] = apply_step(st, env, np, False)
    return env


def run_da(prog):
    import dask_array as da

    env = {}
    for st in prog:
        env[st["out"]] = apply_step(st, env, da, True)
    return env


# ------------------------------------------------------------------------------------ programs sensitive to an option

def _src(g, shape, chunks):
    return g.src(shape, chunks)


def prog_reduce(rng, fn=None):
    """a tree reduction over many blocks whose fan-in comes from the configuration (split_every not passed)"""
    g = D._G(rng)
    nb = rng.choice([5, 8, 9, 12, 17, 20, 24])
    w = rng.choice([1, 1, 2])
    nd = rng.choice([1, 2, 2])
    shape = [nb * w] + ([rng.randint(2, 3)] if nd == 2 else [])
    chunks = [[w] * nb] + ([[shape[1]]] if nd == 2 else [])
    if nd == 2 and rng.random() < 0.3:
        chunks[1] = [1] * shape[1]
    v = _src(g, shape, chunks)
    if rng.random() < 0.4:
        v = g.add({"op": rng.choice(["affine", "sq", "neg"]), "args": [v]})
    fn = fn or rng.choice(REDUCTIONS)
    if fn == "topk":
        g.add({"op": "topk", "args": [v], "k": rng.randint(1, 2), "axis": 0} if nd == 1 else {"op": "topk", "args": [g.add({"op": "transpose", "args": [v], "axes": [1, 0]})], "k": 2, "axis": -1})
    elif fn == "bincount":
        if nd == 2:
            v = g.add({"op": "getitem", "args": [v], "index": [["s", None, None, None], 0]})
        v = g.add({"op": "abs", "args": [v]})
        g.add({"op": "bincount", "args": [v], "mod": rng.randint(2, 5)})
    elif fn in ("tensordot", "einsum"):
        # a contraction over the many-block axis: the tree sum above the blockwise product takes its fan-in lazily or not
        k = rng.randint(1, 2)
        other = _src(g, [shape[0], k], [chunks[0], [1] * k])
        if nd == 1:
            g.add({"op": "tensordot", "args": [v, other], "axes": 1} if fn == "tensordot" else {"op": "einsum", "args": [v, other], "sub": "i,ij->j"})
        else:
            t = g.add({"op": "transpose", "args": [v], "axes": [1, 0]})
            g.add({"op": "tensordot", "args": [t, other], "axes": 1} if fn == "tensordot" else {"op": "einsum", "args": [t, other], "sub": "ki,ij->kj"})
    else:
        axis = 0 if (nd == 1 or fn.startswith("arg") or rng.random() < 0.7) else rng.choice([None, [0, 1]])
        keep = rng.random() < 0.3
        if fn.startswith("arg") and nd == 2:
            keep = False
        g.add({"op": "reduce", "fn": fn, "args": [v], "axis": axis, "keepdims": keep, "split_every": None})
    if rng.random() < 0.3:
        g.add({"op": rng.choice(["affine", "neg"]), "args": [g.prog[-1]["out"]]})
    return g.prog


def prog_rechunk(rng):
    """a rechunk between two many-block layouts (plan_rechunk: threshold / degree-limit / chunk-size; method).  Mostly
    thin -> fat above an OPAQUE map_blocks: a rechunk above a bare source or above elementwise ops sinks into the reader
    and no rechunk is planned at all"""
    g = D._G(rng)
    if rng.random() < 0.5:
        n = rng.choice([12, 16, 24])
        v = _src(g, [n], [[1] * n if rng.random() < 0.7 else list(gen.rand_chunks(rng, n))])
        new = rng.choice([[[n]], [[n // 2] * 2], [[n // 4] * 4], [list(gen.rand_chunks(rng, n))]])
    else:
        a, b = rng.choice([6, 8, 12]), rng.choice([6, 8])
        v = _src(g, [a, b], [[1] * a, [b]])
        new = rng.choice([[[a], [1] * b], [[a // 2] * 2, [2] * (b // 2)], [[a], [b]], [list(gen.rand_chunks(rng, a)), list(gen.rand_chunks(rng, b))]])
    r = rng.random()
    if r < 0.75:
        v = g.add({"op": "map_blocks", "args": [v], "fn": rng.choice(["affine", "sq", "neg"])})
    elif r < 0.9:
        v = g.add({"op": "affine", "args": [v]})
    g.add({"op": "rechunk", "args": [v], "chunks": new})
    if rng.random() < 0.4:
        g.add({"op": rng.choice(["affine", "neg", "sq"]), "args": [g.prog[-1]["out"]]})
    return g.prog


def sensitive_program(rng, key):
    if key == "split_every":
        return prog_reduce(rng)
    if key.startswith("array.rechunk."):
        return prog_rechunk(rng) if rng.random() < 0.8 else D.gen_prog(rng, "rechunk_auto")[0]
    if key in ("array.chunk-size", "array.chunk-size-tolerance"):
        return D.gen_prog(rng, rng.choice(["auto", "rechunk_auto"]))[0] if rng.random() < 0.7 else prog_rechunk(rng)
    if key in D.UNIFY_KEYS:
        return D.gen_prog(rng, rng.choice(["elemwise", "elemwise", "where3", "blockwise2", "stack", "concatenate", "tensordot", "nested"]))[0]
    if key == "array.optimize-graph":
        r = rng.random()
        if r < 0.35:
            return prog_reduce(rng)
        if r < 0.6:
            return prog_rechunk(rng)
        return D.gen_prog(rng)[0]
    # an option this module does not know (new in the source): everything
    return rng.choice([prog_reduce, prog_rechunk, lambda r: D.gen_prog(r)[0]])(rng)


def graph_fingerprint(prog, cfg):
    """the optimized graph keys of the program built under cfg from clean registries (None when it does not build)"""
    import dask

    D.clear_state()
    try:
        with warnings.catch_warnings(), dask.config.set(cfg or {}):
            warnings.simplefilter("ignore")
            x = run_da(prog)[prog[-1]["out"]]
            return hash(tuple(sorted(map(str, x.__dask_graph__().keys()))))
    except Exception:
        return None


def point(key, v):
    return {} if v is None or (key == "array.optimize-graph" and v is True) else {key: v}


def gen_cases(rng, n_random, rotate=0):
    """Systematic part: every lazily read option x (a non-default value earlier -> the default now; the default earlier ->
    a non-default value now; two non-default values) on a program sensitive to it; every reduction family under
    split_every 2 -> default; materialization kinds and alive / dropped rotate.  Then random cases."""
    opts = D.lazy_options()
    cases = []

    def add(key, a, b, prog=None, mat=None, alive=True, tail=None):
        if prog is None and (key.startswith("array.rechunk.") or key.startswith("array.chunk-size")):
            # input selection on the real code: prefer a program whose optimized graph really differs between the two
            # settings when each is built from clean registries (else the history could not show)
            for _ in range(4):
                prog = sensitive_program(rng, key)
                if graph_fingerprint(prog, point(key, a)) != graph_fingerprint(prog, point(key, b)):
                    break
        prog = prog or sensitive_program(rng, key)
        try:
            run_np(prog)
        except Exception:
            return
        cases.append({"kind": "cfg-history", "drift": key, "program": prog, "root": prog[-1]["out"], "earlier": point(key, a), "config": point(key, b),
                      "mat": mat or MATS[(len(cases) + rotate) % len(MATS)], "alive": alive, "earlier_tail": tail,
                      "twice": (len(cases) + rotate) % 3 == 0})

    for i, (key, vals) in enumerate(sorted(opts.items())):
        nd = [v for v in vals if point(key, v)]  # the non-default values
        if not nd:
            continue
        v1 = nd[(rotate + i) % len(nd)]
        v2 = nd[(rotate + i + 1) % len(nd)]
        add(key, v1, None, mat="graph")
        add(key, None, v1, mat="compute")
        add(key, v1, None, alive=False)
        if v2 != v1:
            add(key, v1, v2)
        add(key, v2, None, tail="affine")
    fams = list(REDUCTIONS) + ["topk", "bincount", "tensordot", "einsum"]
    for j, fn in enumerate(fams):
        se = [2, 3][(j + rotate) % 2]
        if (j + rotate) % 3 == 0:
            add("split_every", None, se, prog=prog_reduce(rng, fn))
        else:
            add("split_every", se, None, prog=prog_reduce(rng, fn), mat=("graph", "compute", "keys")[(j + rotate) % 3])
    keys = sorted(opts)
    for _ in range(n_random):
        key = rng.choice(keys)
        vals = opts[key]
        a, b = rng.sample(vals, 2) if len(vals) >= 2 else (vals[0], None)
        if rng.random() < 0.4:
            b = None
        if point(key, a) == point(key, b):
            continue
        add(key, a, b, mat=rng.choice(MATS), alive=rng.random() < 0.8, tail=rng.choice([None, None, "affine", "cut"]))
        if rng.random() < 0.3 and cases:
            # a second option set to a non-default value on both sides
            k2 = rng.choice(keys)
            if k2 != key:
                extra = point(k2, rng.choice(opts[k2]))
                cases[-1]["earlier"] = dict(extra, **cases[-1]["earlier"])
                cases[-1]["config"] = dict(extra, **cases[-1]["config"])
    return cases


# ------------------------------------------------------------------------------------ running a case

def observe(env, root):
    """what C07 says must be equal: names, keys, chunks, dtype, optimized graph keys, values"""
    from harness.props import C07

    o = C07.observe(env[root], compute=True)
    out = {k: o.get(k) for k in ("dask_keys", "chunks", "dtype", "graph_keys", "n_graph_keys", "values", "graph_names")}
    out["names"] = {v: x.name for v, x in env.items()}
    return json.loads(json.dumps(out, default=str))


def materialize(x, how):
    if how == "graph":
        x.__dask_graph__()
    elif how == "compute":
        x.compute(scheduler="sync")
    elif how == "keys":
        x.__dask_keys__()
        x.chunks
    elif how == "persist":
        return x.persist(scheduler="sync")
    elif how == "lowered":
        x._lowered_expr
    return None


def build_under(prog, cfg):
    import dask

    with dask.config.set(cfg or {}), dask.config.set(scheduler="sync"):
        env = run_da(prog)
        return env, observe(env, prog[-1]["out"])


def run_in_process(case):
    """(observed after the history, oracle from clean registries) or raises"""
    import dask

    prog = case["program"]
    D.clear_state()
    with warnings.catch_warnings():
        warnings.simplefilter("ignore")
        early = list(prog)
        if case.get("earlier_tail") == "cut":
            # the earlier program is the SMALLER one: the program without its last step (when that leaves the sensitive node)
            if len(prog) >= 3 and len(prog[-1].get("args", [])) == 1 and prog[-1]["op"] in programs.UNARY:
                early = early[:-1]
        elif case.get("earlier_tail"):
            early = early + [{"op": case["earlier_tail"], "args": [prog[-1]["out"]], "out": "w1"}]
        with dask.config.set(case.get("earlier") or {}), dask.config.set(scheduler="sync"):
            envE = run_da(early)
            keep = materialize(envE[early[-1]["out"]], case.get("mat", "graph"))
        if not case.get("alive", True):
            del envE, keep
            envE = keep = None
            gc.collect()
        envA, oA = build_under(prog, case.get("config"))
        # two consecutive builds after the history must agree as well (the second sees the first one's caches)
        envB, oB = build_under(prog, case.get("config")) if case.get("twice") else (None, oA)
        del envE, keep, envA, envB
        D.clear_state()
        envF, oF = build_under(prog, case.get("config"))
        del envF
    return oA, oB, oF


def diff(a, b):
    return {f: [a.get(f), b.get(f)] for f in FIELDS if a.get(f) != b.get(f)}


def drifted(case):
    a, b = case.get("earlier") or {}, case.get("config") or {}
    return sorted(k for k in set(a) | set(b) if a.get(k) != b.get(k))


def has_lazy_layout(prog):
    """a node whose `.chunks` are resolved lazily: a chunks='auto' / byte-string source, rechunk('auto'), or an aligned node
    over two or more operands"""
    return any(st["op"] in ("src_auto", "arange_auto", "rechunk_auto") or len(st.get("args", [])) >= 2 for st in prog)


def classify(case, d):
    dk = drifted(case)
    # the known family: only layout options drifted, the program has a lazily laid-out node (possibly an INNER one: the aligned
    # product below a contraction — then the root's chunks agree and only the optimized graph differs), names agree
    if dk and all(k in LAYOUT_KEYS for k in dk) and has_lazy_layout(case["program"]) and "names" not in d:
        return SIG_LAZY_CHUNKS
    return "cfg-history:" + ",".join(sorted(f for f in d if f != "n_graph_keys") or ["n_graph_keys"]) + ":" + ",".join(dk)


def report(ctx, case, d, oracle, seen):
    sig = classify(case, d)
    if (sig, oracle) in seen or sig in {s for s, _ in seen}:
        return
    seen.add((sig, oracle))
    small = {k: v for k, v in d.items()}
    for f in ("names",):
        if f in small:
            a, b = small[f]
            small[f] = {v: [a.get(v), b.get(v)] for v in a if a.get(v) != b.get(v)}
    what = (f"built and materialized ({case.get('mat')}) under {case.get('earlier') or 'the default configuration'}"
            f"{' (without its last step)' if case.get('earlier_tail') == 'cut' else ' (with one more op on top)' if case.get('earlier_tail') else ''}, "
            f"{'kept alive' if case.get('alive', True) else 'dropped'}; "
            f"the same program rebuilt under {case.get('config') or 'the default configuration'} differs from {oracle} "
            f"building it under that same configuration in: {', '.join(sorted(d))}"
            + (f" ({d['n_graph_keys'][0]} graph keys here, {d['n_graph_keys'][1]} there)" if "n_graph_keys" in d else ""))
    if sig == SIG_LAZY_CHUNKS:
        what = "[cfg-history:" + ",".join(sorted(d)) + "] chunks resolved lazily under the EARLIER configuration are inherited through the singleton node: " + what
    ctx.fail(sig, dict(case, oracle=oracle, differences=small), what)


def check_case(ctx, case, seen):
    """in-process part.  Returns the observation to be compared with the fresh process (None when not usable)."""
    try:
        oA, oB, oF = run_in_process(case)
    except NotImplementedError:
        return None
    except Exception as e:  # noqa: BLE001
        ctx.notes["cfg_history_build_exc"] = ctx.notes.get("cfg_history_build_exc", 0) + 1
        ctx.notes.setdefault("cfg_history_build_exc_sample", f"{type(e).__name__}: {str(e)[:120]} | {json.dumps(case)[:300]}")
        return None
    ctx.count(("cfg-history", case.get("drift"), case.get("mat"), bool(case.get("alive", True)), bool(case.get("earlier_tail")),
               bool(case.get("earlier")), bool(case.get("config")), case["program"][-1]["op"]))
    ctx.traces += 1
    d = diff(oA, oF)
    if d:
        report(ctx, case, d, "clean registries", seen)
    else:
        d2 = diff(oA, oB)
        if d2:
            report(ctx, case, d2, "a second build right after it (same process)", seen)
    return oA


def compare_fresh(ctx, case, oA, built, hashseed, seen):
    ctx.traces += 1
    ctx.count(("cfg-history-fresh", case.get("drift"), hashseed))
    d = diff(oA, built)
    if d:
        report(ctx, case, d, f"a fresh process (PYTHONHASHSEED={hashseed})", seen)


def child_build(item):
    """runs in C07's child process: the program built under the case's configuration, nothing else ever built"""
    with warnings.catch_warnings():
        warnings.simplefilter("ignore")
        env, o = build_under(item["prog"], item.get("config"))
    return o
