"""C02 — phase forms compared REWRITE-FREE, over directed chains that the first rounds did not reach.

Why a second evaluator: `harness.props.C02.compute_expr` computes a form with `new_collection(e).compute()` under
`array.optimize-graph=False`.  That path lowers `e` and then hands it to `dask.base.compute`, whose generic
`expr.optimize()` runs `simplify()` over the lowered tree again — so the "raw" form (and the `before` of a fired
rewrite) is itself rewritten by the very pushdown rules under test before it is computed, and a rule that is wrong the
same way every time (e.g. a permutation renumbered wrongly when an integer index is pushed below a transpose) gives
four equal wrong forms.  Here every form is evaluated by `rawfree.raw_eval`: `lower_completely()` only, the graph run
directly (no simplify, no fuse, no process-wide lowering cache).

Oracle: the raw form's rewrite-free array (itself compared with NumPy; a difference there is a construction matter —
C01 — and only noted) must be the array of the simplified, lowered and fused forms (values, shape, dtype).  On a
difference the fired rewrites are evaluated pairwise (rewrite-free) to name the rule in the case.

Streams (generators in harness/programs.py, `T6_PATTERNS`): rank-4/5 sources under axis permutations spelled as
transpose / moveaxis / rollaxis / swapaxes (cycles preferred) then integer / mixed indices; creation functions with and
without name= / dtype= and every chunks form then every index kind; ufunc(out=[, where=]) then slices, integers and
length-changing takes; and a sample of the main random stream.  The permutation chains additionally go through
`C02.check_program` (per-rewrite comparison, fusion blocks, model correspondence of the rank-4/5 rewrites).
"""
from __future__ import annotations

import random
import warnings

import numpy as np

from harness import classify, progcheck as PC, programs as P, trace as T
from harness.props_ext.rawfree import raw_eval

KNOWN = ("swv-layout-drift", "take-through-broadcast", "slice-through-generic-blockwise", "swv-nested-wrong-values", "broadcast-axis-zero-width-chunk")


def _same(a, b):
    return a.shape == b.shape and a.dtype == b.dtype and np.array_equal(a, b)


def _culprit(recs):
    """first fired rewrite whose two sides denote different arrays (rewrite-free), as (rule, before class, after class)"""
    seen = set()
    for r in recs:
        key = (r["before"]._name, r["after"]._name)
        if key in seen:
            continue
        seen.add(key)
        try:
            b = raw_eval(r["before"])
        except Exception:  # noqa: BLE001  (a partially lowered node may not run alone)
            continue
        try:
            a = raw_eval(r["after"])
        except Exception as ex:  # noqa: BLE001
            return [r["rule"], type(r["before"]).__name__, type(r["after"]).__name__, "after raises " + type(ex).__name__]
        if not _same(a, b):
            return [r["rule"], type(r["before"]).__name__, type(r["after"]).__name__, f"{list(b.shape)} -> {list(a.shape)}"]
    return None


def check_rawfree(ctx, prog, want):
    env, exc = PC.build(prog)
    if exc is not None:
        return
    raw = env[prog[-1]["out"]].expr
    try:
        base = raw_eval(raw)
    except Exception:  # noqa: BLE001  (not a computable program: nothing to preserve)
        ctx.notes["rawfree.raw_not_computable"] = ctx.notes.get("rawfree.raw_not_computable", 0) + 1
        return
    if want is not None and not (base.shape == want.shape and np.array_equal(base, want)):
        ctx.notes["rawfree.raw_differs_from_numpy"] = ctx.notes.get("rawfree.raw_differs_from_numpy", 0) + 1
    T.clear_caches()
    try:
        with T.trace_objects() as recs:
            with warnings.catch_warnings():
                warnings.simplefilter("ignore")
                simp = raw.simplify()
                low = simp.lower_completely()
                fused = low.fuse()
    except Exception as e:  # noqa: BLE001
        sig = classify.classify(prog, ("exc", e))
        ctx.fail(sig if sig in KNOWN else "optimize-raises-on-computable:" + type(e).__name__,
                 {"program": prog, "rawfree": True, "phase": "optimize", "outcome": repr(e)[:300]},
                 "simplify/lower/fuse raises on a program whose raw form computes")
        return
    ctx.count(("rawfree", tuple(sorted({r["rule"] for r in recs}))))
    for nm, e in (("simplified", simp), ("lowered", low), ("fused", fused)):
        try:
            v = raw_eval(e)
        except Exception as ex:  # noqa: BLE001
            sig = classify.classify(prog, ("exc", ex))
            ctx.fail(sig if sig in KNOWN else f"phase-raises:{nm}",
                     {"program": prog, "rawfree": True, "phase": nm, "outcome": repr(ex)[:300], "rewrite": _culprit(recs)},
                     f"{nm} form raises when computed although the raw form computes")
            return
        ctx.count(("rawfree-phase", nm, type(e).__name__))
        if not _same(v, base):
            sig = classify.classify(prog, ("value", nm))
            ctx.fail(sig if sig in KNOWN else f"phase-differs:{nm}",
                     {"program": prog, "rawfree": True, "phase": nm, "got_shape": list(v.shape), "want_shape": list(base.shape),
                      "got_dtype": str(v.dtype), "want_dtype": str(base.dtype), "rewrite": _culprit(recs)},
                     f"{nm} form computes another array (values/shape/dtype) than the raw form, both evaluated rewrite-free")
            return


def run(ctx, replay=None):
    from harness.props import C02

    if replay is not None:
        prog = replay["case"]["program"]
        check_rawfree(ctx, prog, P.run_np(prog)[prog[-1]["out"]])
        return
    # a child generator seeded from ctx.rng whose state is then restored: the streams that run after this one draw what
    # they drew before this module existed
    st = ctx.rng.getstate()
    rng = random.Random(ctx.rng.getrandbits(64))
    ctx.rng.setstate(st)
    per = ctx.scale(4, 40)  # programs per pattern
    for fam, (kw, pats) in P.T6_PATTERNS.items():
        for k, (pat, g) in enumerate(P.directed_programs_t6(rng, per * len(pats) * (2 if fam == "perm" else 1), pats, **kw)):
            ctx.count(("directed-t6", fam, pat))
            want = g.env[g.prog[-1]["out"]]
            check_rawfree(ctx, g.prog, want)
            if fam == "perm" and (k + k // len(pats)) % 2 == 0:  # every second one, alternating over the patterns
                C02.check_program(ctx, g.prog, want)
    # the main random stream, rewrite-free
    for _ in range(ctx.scale(80, 1500)):
        prog, g = P.gen_program(rng, depth=rng.randint(2, ctx.scale(6, 9)), avoid=("swv-consumer",), zero_axes=0.0)
        check_rawfree(ctx, prog, g.env[prog[-1]["out"]])
    ctx.assumptions.append(
        "rewrite-free phase comparison (harness/props_ext/c02_rawfree.py): forms are evaluated by lower_completely + direct graph "
        "execution; C02.compute_expr (x.compute under array.optimize-graph=False) re-simplifies every form through dask.base.compute"
    )
