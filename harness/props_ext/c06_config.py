"""C06 extension: the CONFIGURATION dimension.

A name must pin the array whatever the configuration history of the process.  Every option the package reads
lazily (enumerated from the SOURCE on every run with harness/translate/configreads.py, as c04_drift does; value
domains shared with it) is crossed with a catalogue of calls whose planning consults the configuration
(sources / creation routines with chunks="auto" or byte-size specs, every symbolic spelling of rechunk,
reshape, operands with different chunkings that must be unified, tree reductions, overlap, fancy indexing,
...) plus a random sample of the near-duplicate catalogue (c06_pairs_catalog).  For one (call, option):

  1. the call is built ALONE (empty registries) under every value of the option: name, chunks, dtype;
  2. (whenever step 1 shows one name with two layouts, and for a random part of the rest) a CHAIN in one set of
     registries: built under value A and kept alive (layout touched, sometimes computed), built again under
     value B, C, ... with the earlier ones alive, then everything dropped + gc.collect() and built once more
     under the last value; some of these are computed and compared with the value the call has alone under
     the configuration then in force.

All observations of one case must form a FUNCTION name -> (chunks, dtype): a call whose name does not change
with the option must advertise the same blocks under every value, alive or collected.  The culprit reported
in the signature is the DEEPEST expression class whose name is shared while its layout differs.
A failure replays from the case dict alone (call, option, values).
"""
from __future__ import annotations

import collections
import gc
import math
import warnings

import numpy as np

# ------------------------------------------------------------------------------ data


def D(shape, k=0, dtype="f8"):
    n = int(np.prod(shape))
    return ((np.arange(n, dtype="int64") * 7 + 3 * k) % 23 - 5).astype(dtype).reshape(shape)


def f_blk(a, b):
    return a + 2 * b


def f_ov(b):
    return b + np.roll(b, 1, axis=0)


def _calls():
    """name -> build(da) (closures over deterministic data); the names are the replay keys"""
    c = collections.OrderedDict()
    # ---- sources / creation with symbolic chunk specs
    c["from_array:auto"] = lambda da: da.from_array(D((40,)), chunks="auto")
    c["from_array:auto-2d"] = lambda da: da.from_array(D((8, 10)), chunks="auto")
    c["from_array:axis-auto"] = lambda da: da.from_array(D((8, 10)), chunks=(-1, "auto"))
    c["from_array:dict-auto"] = lambda da: da.from_array(D((8, 10)), chunks={0: "auto", 1: 5})
    c["from_array:bytes"] = lambda da: da.from_array(D((40,)), chunks="64B")
    c["from_array:auto+1"] = lambda da: da.from_array(D((40,)), chunks="auto") + 1
    c["asarray:auto"] = lambda da: da.asarray(D((40,)), chunks="auto")
    c["arange:auto"] = lambda da: da.arange(40, chunks="auto")
    c["ones:auto"] = lambda da: da.ones((8, 10), chunks="auto")
    c["zeros:axis-auto"] = lambda da: da.zeros((8, 10), chunks=(2, "auto"))
    c["full:auto"] = lambda da: da.full((40,), 2.5, chunks="auto")
    c["linspace:auto"] = lambda da: da.linspace(0, 1, 40, chunks="auto")
    c["eye:auto"] = lambda da: da.eye(12, chunks="auto")
    c["ones_like:auto"] = lambda da: da.ones_like(da.from_array(D((40,)), chunks=5), chunks="auto")
    c["randomstate:auto"] = lambda da: da.random.RandomState(3).normal(size=(40,), chunks="auto")
    c["default_rng:auto"] = lambda da: da.random.default_rng(3).normal(size=(8, 10), chunks="auto")
    c["indices:auto"] = lambda da: da.indices((6, 8), chunks="auto")
    c["fromfunction:auto"] = lambda da: da.fromfunction(_ff, shape=(6, 8), chunks="auto", dtype="f8")
    c["broadcast_to:auto"] = lambda da: da.broadcast_to(da.from_array(D((1, 10)), chunks=(1, 5)), (8, 10), chunks="auto")
    # ---- rechunk, every symbolic spelling
    x2 = lambda da: da.from_array(D((8, 10)), chunks=(2, 5))
    x1 = lambda da: da.from_array(D((40,)), chunks=4)
    c["rechunk:auto"] = lambda da: x2(da).rechunk("auto")
    c["rechunk:auto-1d"] = lambda da: x1(da).rechunk("auto")
    c["rechunk:dict-auto"] = lambda da: x2(da).rechunk({0: "auto", 1: "auto"})
    c["rechunk:dict-one-axis-auto"] = lambda da: x2(da).rechunk({1: "auto"})
    c["rechunk:tuple-auto"] = lambda da: x2(da).rechunk((-1, "auto"))
    c["rechunk:tuple-int-auto"] = lambda da: x2(da).rechunk((4, "auto"))
    c["rechunk:bytes"] = lambda da: x2(da).rechunk("64B")
    c["rechunk:tuple-bytes"] = lambda da: x2(da).rechunk(("64B", -1))
    c["rechunk:auto-limit"] = lambda da: x2(da).rechunk("auto", block_size_limit=64)
    c["rechunk:auto-balance"] = lambda da: x1(da).rechunk("auto", balance=True)
    c["rechunk:auto-threshold"] = lambda da: x2(da).rechunk("auto", threshold=1)
    c["rechunk:auto-method"] = lambda da: x2(da).rechunk("auto", method="tasks")
    c["rechunk:default"] = lambda da: x2(da).rechunk()
    c["rechunk:limit-only"] = lambda da: x2(da).rechunk(block_size_limit=64)
    c["rechunk:auto-after-rechunk"] = lambda da: x2(da).rechunk((4, 2)).rechunk("auto")
    c["rechunk:int"] = lambda da: x2(da).rechunk((4, 2))
    c["rechunk:int-balance"] = lambda da: x1(da).rechunk(7, balance=True)
    c["rechunk:auto+1"] = lambda da: x2(da).rechunk("auto") + 1
    c["rechunk:auto.sum"] = lambda da: x2(da).rechunk("auto").sum(axis=0)
    c["rechunk:auto.T"] = lambda da: x2(da).rechunk((-1, "auto")).T
    c["rechunk:auto-of-expr"] = lambda da: (x2(da) * 2)[1:].rechunk("auto")
    c["da.rechunk:auto"] = lambda da: da.rechunk(x2(da), "auto")
    # ---- reshape family
    c["reshape:flat"] = lambda da: x2(da).reshape(80)
    c["reshape:3d"] = lambda da: x2(da).reshape((4, 2, 10))
    c["reshape:no-merge"] = lambda da: x2(da).reshape((4, 20), merge_chunks=False)
    c["reshape:limit"] = lambda da: x2(da).reshape((4, 20), limit=64)
    c["ravel"] = lambda da: x2(da).ravel()
    c["T.reshape"] = lambda da: x2(da).T.reshape(80)
    # ---- operands with different chunkings (unified when the layout is asked for)
    a1 = lambda da: da.from_array(D((12,)), chunks=6)
    b1 = lambda da: da.from_array(D((12,), 1), chunks=2)
    c1 = lambda da: da.from_array(D((12,), 2), chunks=4)
    a2 = lambda da: da.from_array(D((8, 12)), chunks=(4, 6))
    b2 = lambda da: da.from_array(D((8, 12), 1), chunks=(2, 4))
    c["unify:add"] = lambda da: a1(da) + b1(da)
    c["unify:add-3"] = lambda da: a1(da) + b1(da) * c1(da)
    c["unify:maximum-2d"] = lambda da: da.maximum(a2(da), b2(da))
    c["unify:where"] = lambda da: da.where(a1(da) > 0, b1(da), c1(da))
    c["unify:broadcast"] = lambda da: a2(da) + b1(da)
    c["unify:blockwise"] = lambda da: da.blockwise(f_blk, "i", a1(da), "i", b1(da), "i", dtype="f8")
    c["unify:stack"] = lambda da: da.stack([a1(da), b1(da)])
    c["unify:concatenate"] = lambda da: da.concatenate([a2(da), b2(da)], axis=0)
    c["unify:tensordot"] = lambda da: da.tensordot(a2(da), b2(da).T, axes=1)
    c["unify:matmul"] = lambda da: a2(da) @ b2(da).T
    c["unify:einsum"] = lambda da: da.einsum("ij,ij->i", a2(da), b2(da))
    c["unify:unify_chunks"] = lambda da: da.unify_chunks(a1(da), "i", b1(da), "i")[1][1]
    c["unify:add.sum"] = lambda da: (a1(da) + b1(da)).sum()
    c["unify:add[::2]"] = lambda da: (a1(da) + b1(da))[::2]
    c["unify:add.rechunk-auto"] = lambda da: (a1(da) + b1(da)).rechunk("auto")
    # ---- tree reductions (fan-in from the configuration), scans
    m = lambda da: da.from_array(D((32,)), chunks=2)
    m2 = lambda da: da.from_array(D((8, 12)), chunks=(1, 3))
    c["reduce:sum"] = lambda da: m(da).sum()
    c["reduce:mean-axis"] = lambda da: m2(da).mean(axis=0)
    c["reduce:var"] = lambda da: m2(da).var()
    c["reduce:argmax"] = lambda da: m(da).argmax()
    c["reduce:argmin-axis"] = lambda da: m2(da).argmin(axis=1)
    c["reduce:topk"] = lambda da: da.topk(m(da), 3)
    c["reduce:cumsum"] = lambda da: m(da).cumsum()
    c["reduce:cumsum-blelloch"] = lambda da: da.cumsum(m(da), axis=0, method="blelloch")
    c["reduce:custom"] = lambda da: da.reduction(m(da), np.sum, np.sum, dtype="f8")
    c["reduce:explicit-split"] = lambda da: m(da).sum(split_every=4)
    c["reduce:nanmax-keepdims"] = lambda da: da.nanmax(m2(da), axis=1, keepdims=True)
    c["reduce:bincount"] = lambda da: da.bincount(da.from_array(np.abs(D((32,), 0, "i8")) % 5, chunks=4))
    # ---- overlap / windows / indexing / misc planners
    c["map_overlap"] = lambda da: da.map_overlap(f_ov, x2(da), depth={0: 1, 1: 0}, boundary="reflect", dtype="f8")
    c["sliding_window_view"] = lambda da: da.sliding_window_view(x2(da), 3, axis=0)
    c["sliding_window:sum"] = lambda da: da.sliding_window_view(x1(da), 5).sum(axis=-1)
    c["coarsen"] = lambda da: da.coarsen(np.sum, x2(da), {0: 2})
    c["take:fancy"] = lambda da: x2(da)[[7, 0, 3, 3, 1]]
    c["take:fancy-axis1"] = lambda da: da.take(x2(da), [9, 0, 4, 4], axis=1)
    c["getitem:slice"] = lambda da: x2(da)[1:7:2, ::3]
    c["tile"] = lambda da: da.tile(x1(da), 2)
    c["repeat"] = lambda da: da.repeat(x1(da), 2)
    c["pad"] = lambda da: da.pad(x2(da), 2, mode="edge")
    c["roll"] = lambda da: da.roll(x2(da), 3, axis=1)
    c["percentile"] = lambda da: da.percentile(x1(da), [25, 75])
    c["histogram"] = lambda da: da.histogram(x1(da), bins=4, range=(-5, 18))[0]
    c["transpose"] = lambda da: x2(da).T
    c["astype"] = lambda da: x2(da).astype("f4")
    c["outer"] = lambda da: da.outer(a1(da), b1(da))
    c["map_blocks"] = lambda da: x2(da).map_blocks(np.negative)
    c["apply_gufunc:rechunk"] = lambda da: da.apply_gufunc(_gu_mean, "(i)->()", x2(da), output_dtypes="f8", allow_rechunk=True)
    c["shuffle"] = lambda da: da.shuffle(x2(da), [[0, 3, 5], [1, 2, 4, 6, 7]], axis=0)
    c["fft"] = lambda da: da.fft.fft(x2(da).rechunk((2, 10)), axis=1)
    c["qr"] = lambda da: da.linalg.qr(da.from_array(D((12, 3)), chunks=(4, 3)))[1]
    return c


def _ff(i, j):
    return i * 10.0 + j


def _gu_mean(x):
    return np.mean(x, axis=-1)


_CALLS = None


def calls():
    global _CALLS
    if _CALLS is None:
        _CALLS = _calls()
    return _CALLS


def get_call(name):
    """build function for a call name; names 'pairs:<family>' take the base call of a c06_pairs family"""
    if name.startswith("pairs:"):
        from harness.props_ext import c06_pairs

        fam = c06_pairs.family_by_name(name[6:])
        if fam is None or callable(fam.base):
            return None
        spec = dict(fam.base)
        return lambda da, fam=fam, spec=spec: c06_pairs.build(fam, spec)
    return calls().get(name)


# ------------------------------------------------------------------------------ observation helpers

def canon_chunks(chunks):
    return tuple(tuple("nan" if (isinstance(c, float) and math.isnan(c)) else int(c) for c in dim) for dim in chunks)


def meta_of_expr(e):
    try:
        return (canon_chunks(e.chunks), str(np.dtype(e.dtype)))
    except Exception as ex:
        return ("unavailable", type(ex).__name__)


def observe(x):
    """(name, chunks, dtype) of a collection + the same for every node of its expression, under the configuration in force"""
    name = x.name
    meta = meta_of_expr(x.expr)
    tree = {}
    try:
        for node in x.expr.walk():
            try:
                deps = [d._name for d in node.dependencies()]
            except Exception:
                deps = []
            tree.setdefault(node._name, (type(node).__name__, meta_of_expr(node), deps))
    except Exception:
        pass
    return {"name": name, "meta": meta, "tree": tree}


def origin_of(oa, ob):
    """deepest class whose name is shared by the two observed trees while its layout differs"""
    ta, tb = oa["tree"], ob["tree"]
    bad = {n for n in ta if n in tb and ta[n][1] != tb[n][1]}
    if not bad:
        return None
    for n in bad:
        if not any(d in bad for d in ta[n][2]):
            return ta[n][0], n
    n = sorted(bad)[0]
    return ta[n][0], n


def compute(x):
    import dask

    with dask.config.set(scheduler="sync"), warnings.catch_warnings(), np.errstate(all="ignore"):
        warnings.simplefilter("ignore")
        r = x.compute()
    return r if isinstance(r, np.ma.MaskedArray) else np.asarray(r)


def close(a, b):
    a, b = np.asarray(a), np.asarray(b)
    if a.shape != b.shape:
        return False
    if a.dtype.kind in "fc" or b.dtype.kind in "fc":
        try:
            with np.errstate(all="ignore"):
                return bool(np.allclose(a, b, rtol=1e-9, atol=1e-9, equal_nan=True))
        except Exception:
            return False
    if a.dtype.kind == "O" or b.dtype.kind == "O":
        return a.tolist() == b.tolist()
    return bool(np.array_equal(a, b))


def blocks_match(x, value):
    """the advertised chunks must be the extents of the computed blocks (brute force over the blocks)"""
    try:
        ch = canon_chunks(x.chunks)
    except Exception:
        return True
    if any("nan" in d for d in ch) or len(ch) != np.ndim(value):
        return True
    if tuple(sum(d) for d in ch) != np.shape(value):
        return False
    return True


# ------------------------------------------------------------------------------ one case

class Case:
    def __init__(self, ctx, reg, call, option, values, stats):
        self.ctx, self.reg, self.call, self.option, self.values, self.stats = ctx, reg, call, option, list(values), stats
        self.build = get_call(call)
        self.obs = []  # (label, value, observation)
        self.failed = False

    def case(self, **kw):
        c = {"config_stream": True, "call": self.call, "option": self.option, "values": self.values}
        c.update(kw)
        return c

    def make(self):
        import dask_array as da

        with warnings.catch_warnings(), np.errstate(all="ignore"):
            warnings.simplefilter("ignore")
            return self.build(da)

    def alone(self, v, want_value=False):
        import dask

        def go():
            with dask.config.set({self.option: v}):
                x = self.make()
                o = observe(x)
                val = compute(x) if want_value else None
                return o, val

        return self.reg.isolated(go)

    def add(self, label, v, o):
        self.obs.append((label, v, o))

    def conflict(self):
        """all observations so far: one name, one layout; returns the first conflicting pair"""
        by = {}
        for label, v, o in self.obs:
            old = by.get(o["name"])
            if old is None:
                by[o["name"]] = (label, v, o)
                continue
            if old[2]["meta"] != o["meta"]:
                return old, (label, v, o)
        return None

    def report(self, A, B):
        la, va, oa = A
        lb, vb, ob = B
        org = origin_of(oa, ob) or (oa["tree"].get(oa["name"], ("?",))[0], oa["name"])
        cls, nm = org
        self.failed = True
        self.ctx.fail(
            f"config:one-name-two-layouts:{cls}:{self.option}",
            self.case(name=oa["name"], observation_a={"when": la, "value": va, "chunks_dtype": oa["meta"]}, observation_b={"when": lb, "value": vb, "chunks_dtype": ob["meta"]},
                      culprit={"class": cls, "name": nm, "layout_a": oa["tree"].get(nm, (None, None))[1], "layout_b": ob["tree"].get(nm, (None, None))[1]},
                      timeline=[{"when": l, "value": v, "name": o["name"], "chunks_dtype": o["meta"]} for l, v, o in self.obs]),
            f"{self.call}: the same call under {self.option}={va!r} ({la}) and ={vb!r} ({lb}) carries ONE name {oa['name']!r} but advertises different chunks / dtype; "
            f"the deepest node with a shared name and two layouts is a {cls}",
        )

    def run(self, force_chain=False, chain_prob=0.1, do_compute=True):
        import dask

        ctx, rng = self.ctx, self.ctx.rng
        if self.build is None:
            return
        # 1. alone under every value
        for v in self.values:
            try:
                o, _ = self.alone(v)
            except Exception as e:
                self.stats["build-refused"] += 1
                self.stats[f"refused:{self.call}:{self.option}"] += 1
                return
            self.add("built alone from empty registries", v, o)
        ctx.count(("config", self.call, self.option))
        names = {o["name"] for _, _, o in self.obs}
        metas = {o["meta"] for _, _, o in self.obs}
        bad = self.conflict()
        ok = bad is None
        sensitive = len(names) > 1 or len(metas) > 1
        if sensitive:
            self.stats["option-matters"] += 1
            self.stats[f"matters:{self.option}:{'name-changes' if len(names) > 1 else 'NAME-KEPT'}"] += 1
        else:
            self.stats["option-irrelevant"] += 1
        if ok and not (force_chain or rng.random() < (3 * chain_prob if sensitive else chain_prob)):
            return
        # 2. the chain in ONE set of registries (also run after a violation: the timeline goes into the case)
        first_failure = not ok
        order = list(self.values)
        if not force_chain:
            rng.shuffle(order)
        self.stats["chains"] += 1

        def chain():
            alive = []
            for k, v in enumerate(order):
                with dask.config.set({self.option: v}):
                    x = self.make()
                    o = observe(x)
                    self.add(f"built #{k + 1} with the earlier ones alive", v, o)
                    alive.append(x)
                    if do_compute and k == 0 and len(order) > 1:
                        try:
                            compute(x)  # the first member is computed under ITS configuration: lowering cache, cached layouts
                        except Exception:
                            self.stats["compute-raised"] += 1
                    if do_compute and k == len(order) - 1 and not first_failure:
                        self.value_check(x, v, "built with earlier builds (other option values) alive")
            del x
            alive.clear()
            gc.collect()
            v = order[-1]
            with dask.config.set({self.option: v}):
                x = self.make()
                o = observe(x)
                self.add("built again after the earlier ones were dropped and collected", v, o)
                if do_compute and not first_failure:
                    self.value_check(x, v, "built after earlier builds (other option values) were collected")

        try:
            self.reg.isolated(chain)
        except Exception as e:
            self.stats["chain-raised"] += 1
            self.stats[f"chain-raised:{self.call}:{type(e).__name__}"] += 1
        bad = bad or self.conflict()
        if bad is not None:
            self.report(*bad)

    def value_check(self, x, v, how):
        if self.failed:
            return
        self.ctx.count(("config-compute", self.call, self.option))
        try:
            got = compute(x)
        except Exception as e:
            self.stats["compute-raised"] += 1
            return
        try:
            o, want = self.alone(v, want_value=True)
        except Exception:
            self.stats["alone-compute-raised"] += 1
            return
        if "random" in self.call or "rng" in self.call or self.call.startswith("pairs:random"):
            okv = np.shape(got) == np.shape(want)
        else:
            okv = close(got, want)
        if okv and blocks_match(x, got):
            return
        self.failed = True
        cls = type(x.expr).__name__
        self.ctx.fail(f"config:value-depends-on-config-history:{cls}:{self.option}",
                      self.case(how=how, value=v, name=x.name, got={"shape": list(np.shape(got)), "head": np.asarray(got).ravel()[:12].tolist()},
                                alone={"shape": list(np.shape(want)), "head": np.asarray(want).ravel()[:12].tolist()}, chunks=canon_chunks(x.chunks)),
                      f"{self.call}: {how}, computed under {self.option}={v!r}, gives another array than the same call built alone under that value")


# ------------------------------------------------------------------------------ driver

def options():
    from harness.props_ext import c04_drift

    return c04_drift.lazy_options()


class ReadRecorder:
    """Records the keys asked of `dask.config.get` (the package and dask reach it as `config.get` / `dask.config.get`,
    i.e. through the module attribute, at call time)."""

    def __init__(self):
        self.keys = set()

    def __enter__(self):
        import dask

        self._orig = dask.config.get
        orig, keys = self._orig, self.keys

        def get(key, *a, **k):
            try:
                keys.add(key)
            except Exception:
                pass
            return orig(key, *a, **k)

        dask.config.get = get
        return self

    def __exit__(self, *exc):
        import dask

        dask.config.get = self._orig


def probe(reg, build, opts):
    """Which options may matter for a call: the keys read while it is built and its layout observed (default
    configuration), and whether its (name, layout) moves under two composite configurations (all options low / high)."""
    import dask
    import dask_array as da

    def go(cfg):
        def inner():
            with dask.config.set(cfg), warnings.catch_warnings(), np.errstate(all="ignore"):
                warnings.simplefilter("ignore")
                x = build(da)
                return (x.name, meta_of_expr(x.expr))

        return reg.isolated(inner)

    with ReadRecorder() as rec:
        base = go({})
    read = {k for k in rec.keys if k in opts}
    low = {o: v[1 % len(v)] for o, v in opts.items()}
    high = {o: v[-1] for o, v in opts.items()}
    moved = False
    for cfg in (low, high):
        try:
            if go(cfg) != base:
                moved = True
        except Exception:
            moved = True
    return read, moved


def run(ctx, reg, budget_s=None):
    with warnings.catch_warnings(), np.errstate(all="ignore"):
        warnings.simplefilter("ignore")
        return _run(ctx, reg, budget_s)


def _run(ctx, reg, budget_s=None):
    rng = ctx.rng
    stats = collections.Counter()
    t0 = ctx.elapsed()
    budget = budget_s if budget_s is not None else ctx.scale(8, 120)
    opts = options()
    names = list(calls())
    # a random sample of the near-duplicate catalogue joins the dedicated calls
    try:
        from harness.props_ext import c06_pairs

        extra = [f.name for f in c06_pairs.families() if not callable(f.base) and not f.one_sig]
        rng.shuffle(extra)
        names += ["pairs:" + n for n in extra[: ctx.scale(8, 80)]]
    except Exception:
        stats["pairs-catalogue-unavailable"] += 1
    ctx.notes["config_options"] = {k: list(v) for k, v in opts.items()}
    # 1. which (call, option) pairs can matter at all
    grid = []
    reads_seen = collections.Counter()
    for call in names:
        build = get_call(call)
        if build is None:
            continue
        try:
            read, moved = probe(reg, build, opts)
        except Exception as e:
            stats["probe-refused"] += 1
            stats[f"probe-refused:{call}:{type(e).__name__}"] += 1
            continue
        stats["calls-probed"] += 1
        for o in read:
            reads_seen[o] += 1
        if moved and not read:
            stats["moves-without-a-recorded-read"] += 1
            read = set(opts)
        if ctx.tier != "quick":
            read = set(opts)  # thorough: the full grid, whatever the recorder saw
        if read:
            stats["calls-reading-options"] += 1
        for o in sorted(read):
            grid.append((call, o))
    ctx.notes["config_reads_by_option"] = dict(reads_seen)
    stats["seconds-probe"] = round(ctx.elapsed() - t0, 1)
    # 2. every such pair, every value of the option.  The dedicated catalogue is ALWAYS complete (no time box: the set of
    #    signatures a tree produces must not depend on the load of the machine); only the sample of the near-duplicate
    #    catalogue is time-boxed.
    core_grid = [g for g in grid if not g[0].startswith("pairs:")]
    extra_grid = [g for g in grid if g[0].startswith("pairs:")]
    rng.shuffle(core_grid)
    rng.shuffle(extra_grid)
    grid = core_grid + extra_grid
    seen_sig = set()
    compute_every = ctx.scale(4, 1)
    for k, (call, opt) in enumerate(grid):
        if k >= len(core_grid) and ctx.elapsed() - t0 > budget:
            stats["sampled-cases-not-run(time)"] += 1
            continue
        vals = list(opts[opt])
        rng.shuffle(vals)
        c = Case(ctx, reg, call, opt, vals, stats)
        before = len(ctx.failures)
        c.run(do_compute=(k % compute_every == 0))
        stats["cases"] += 1
        if c.failed:
            # one report per (culprit class, option) and run
            new = ctx.failures[before:]
            del ctx.failures[before:]
            for f in new:
                if f["sig"] not in seen_sig:
                    seen_sig.add(f["sig"])
                    ctx.failures.append(f)
                else:
                    stats["further-cases-with-a-reported-signature"] += 1
        del c
    gc.collect()
    stats["seconds"] = round(ctx.elapsed() - t0, 1)
    ctx.notes["config"] = {k: v for k, v in stats.items() if ":" not in k}
    ctx.notes["config_detail"] = {k: v for k, v in stats.items() if ":" in k}
    ctx.notes["config_calls"] = len(names)
    if grid:
        ctx.sample({"kind": "config-case", "call": grid[0][0], "option": grid[0][1], "values": list(opts[grid[0][1]])})


def replay(ctx, reg, case):
    stats = collections.Counter()
    c = Case(ctx, reg, case["call"], case["option"], case["values"], stats)
    if c.build is None:
        ctx.notes["replay"] = f"unknown call {case['call']}"
        return
    c.run(force_chain=True)
    ctx.notes["config"] = dict(stats)
