"""C02 (also C19): a basic slice pushed through `map_overlap` — `MapOverlap._accept_slice` (dask_array/_overlap.py).

On an overlap axis the rule EXPANDS the requested slice by the depth, pushes the expanded slice to the input and
leaves a trim slice on top; on the other axes the slice is pushed as it is.  It declines for None / integers, several
arrays, non-unit steps, functions that are told their position (`block_id` / `block_info`), `allow_rechunk=False`,
slices shorter than the depth and, for boundary 'periodic', when the EXPANDED slice touches an end of the axis.
Model: lean/DaskArrayModel/Model/OverlapSlice.lean (`acceptAxis`, `accept`, `padB`, `stencil`); driver family
`ovs.*` (Drv/OverlapSlice.lean); theorems Props/C02Overlap.lean.

(1) correspondence `ovs.accept` / `ovs.axis`: the REAL `MapOverlap._accept_slice` called directly on nodes built through
    the public API (`da.map_overlap` on `da.from_array`, 1-d / 2-d / a few 3-d; depth as scalar / tuple / dict / `(l, r)`;
    boundary every kind, numbers, None, per-axis dict / tuple; plain and position-aware functions, two input arrays,
    allow_rechunk on/off) and on slice nodes as the optimizer sees them (`y[index].expr`, a `SliceSlicesIntegers`
    whose stored `.index` is what is sent to the model) plus directly constructed `SliceSlicesIntegers` nodes carrying the
    forms `Array.__getitem__` would have normalised away (negative / out-of-range bounds, explicit step 1, None, short
    tuples).  Canonical output: decline, or the input slices and the trim slices.  The trim is read verbatim from the
    returned node; the input slice is read structurally from the new node's input (`SliceSlicesIntegers` over the
    ORIGINAL input expression) and, where `__getitem__` normalised it to an equivalent slice, compared BEHAVIOURALLY
    (the source is position-encoding: `arange(prod(shape)).reshape(shape)`, so the computed input of the new node
    tells which positions it selects); the structural reader is cross-checked against that evaluation on every case.
(2) correspondence `ovs.eval`: the model's `padB` / `stencil` semantics against the rewrite-free evaluation
    (`rawfree.raw_eval`) of the un-optimized `map_overlap(wsum, depth, boundary)[idx]`, every boundary kind.
(3) search, oracle NumPy (`np.pad` + weighted moving sum), independent of the model: optimized `compute()` vs
    rewrite-free evaluation vs NumPy for a halo-reading block function, slices concentrated within `depth` of both
    ends (where the periodic guard matters), ~40 % periodic; ~10 % of the cases use a block function that also reads its
    `block_id` (oracle: block numbers of the chunks the un-sliced map_overlap advertises) — the rule must decline there.
"""
from __future__ import annotations

import inspect
import warnings

import numpy as np

from harness.core import err_name, f_list, f_slice, p_slice
from harness.props_ext.rawfree import raw_eval

FAM_ACCEPT = "ovs.accept"
FAM_AXIS = "ovs.axis"
FAM_EVAL = "ovs.eval"
KINDS = ("none", "periodic", "reflect", "nearest")
NP_MODE = {"periodic": "wrap", "reflect": "symmetric", "nearest": "edge", "none": "edge", "constant": "constant"}


# --------------------------------------------------------------------------- small helpers

def irregular(rng, n, sizes=(1, 1, 2, 2, 3, 4, 5, 6)):
    out, left = [], n
    while left > 0:
        c = min(rng.choice(sizes), left)
        out.append(c)
        left -= c
    return tuple(out) or (0,)


def coarse_chunks(rng, n, least):
    """chunks all >= least (for allow_rechunk=False)"""
    least = max(1, least)
    if n < 2 * least or rng.random() < 0.3:
        return (n,)
    k = rng.randint(1, n // least)
    base = n // k
    out = [base] * k
    out[-1] += n - base * k
    return tuple(out)


def kind_of(v):
    """what `_accept_slice` can tell of a stored boundary value: `== "periodic"`, `== "none"`; the model's token"""
    return v if isinstance(v, str) and v in KINDS else "constant"


def lr(d):
    return (int(d[0]), int(d[1])) if isinstance(d, tuple) else (int(d), int(d))


def posaware(func):
    try:
        params = inspect.signature(func).parameters
    except (TypeError, ValueError):
        return False
    return "block_id" in params or "block_info" in params


def f_item(i):
    if i is None:
        return "N"
    if isinstance(i, slice):
        return f_slice(i)
    return str(int(i))


def f_index(index):
    index = tuple(index)
    return "_" if not index else ",".join(f_item(i) for i in index)


def f_slices(sl):
    sl = list(sl)
    return "_" if not sl else ",".join(f_slice(s) for s in sl)


def positions(s, n):
    return list(range(*s.indices(n)))


# --------------------------------------------------------------------------- (1) node / index generators

def plain(b):
    return b


def scaled(b, scale=1):
    return b * scale


def with_block_id(b, block_id=None):
    return b


def with_block_info(b, block_info=None):
    return b


def two(a, b):
    return a + b


FUNCS = {"plain": plain, "lambda": lambda b: b, "scaled": scaled, "block_id": with_block_id, "block_info": with_block_info}


def gen_node_spec(rng):
    nd = rng.choice([1, 1, 1, 1, 1, 2, 2, 2, 2, 3])
    hi = 24 if nd < 3 else 7
    shape = [rng.choice([1, 2, 3]) if rng.random() < 0.12 else rng.randint(4, hi) for _ in range(nd)]
    allow = rng.random() < 0.9
    # per-axis depth (l, r) and boundary
    axes_d, axes_b = [], []
    style_b = rng.choice(["one", "one", "mixed"])
    one_b = rng.choice(["none", "periodic", "periodic", "reflect", "nearest", "const", "None"])
    for n in shape:
        cap = min(5, n) if rng.random() < (0.95 if n > 3 else 0.4) else 5  # sometimes deeper than the axis is long
        r = rng.random()
        if r < 0.2:
            d = (0, 0)
        elif r < 0.8:
            v = rng.randint(1, max(1, cap))
            d = (v, v)
        else:
            d = (rng.randint(0, cap), rng.randint(0, cap))
        b = one_b if style_b == "one" else rng.choice(["none", "periodic", "reflect", "nearest", "const", "None"])
        if d[0] != d[1] and rng.random() < 0.93:
            b = rng.choice(["none", "None"]) if style_b == "mixed" else b
        axes_d.append(d)
        axes_b.append(b)
    if style_b == "one" and any(d[0] != d[1] for d in axes_d) and rng.random() < 0.9:
        one_b = rng.choice(["none", "None"])
        axes_b = [one_b] * nd
    bval = {"const": rng.choice([0, 3, -2, 1.5]), "None": None}
    tob = lambda b: bval.get(b, b)
    sym = all(d[0] == d[1] for d in axes_d)
    one = lambda d: d[0] if d[0] == d[1] else tuple(d)
    # depth spelling
    r = rng.random()
    if sym and len({d for d in axes_d}) == 1 and r < 0.5:
        depth = axes_d[0][0]
    elif r < 0.4:
        depth = tuple(one(d) for d in axes_d)
    else:
        depth = {k: one(d) for k, d in enumerate(axes_d) if not (d == (0, 0) and rng.random() < 0.5)}
        if not depth:
            depth = {0: one(axes_d[0])}
    # boundary spelling
    r = rng.random()
    if style_b == "one" and r < 0.6:
        boundary = tob(one_b)
    elif r < 0.5:
        boundary = tuple(tob(b) for b in axes_b)
    else:
        boundary = {k: tob(b) for k, b in enumerate(axes_b) if not (b == "none" and rng.random() < 0.4)}
    maxd = [max(d) for d in axes_d]
    if allow:
        chunks = [list(irregular(rng, n)) for n in shape]
    else:
        chunks = [list(coarse_chunks(rng, n, m)) for n, m in zip(shape, maxd)]
    r = rng.random()
    fn = "two" if r < 0.04 else "block_id" if r < 0.08 else "block_info" if r < 0.12 else rng.choice(["plain", "lambda", "lambda", "scaled"])
    return {"shape": shape, "chunks": chunks, "depth": depth, "boundary": boundary, "allow": allow, "fn": fn, "axes_d": axes_d}


def build_node(spec):
    """(node, source array) or None when the public API does not give a MapOverlap node (refusal / map_blocks escape)"""
    import dask_array as da
    from dask_array._overlap import MapOverlap

    shape = tuple(spec["shape"])
    a = np.arange(int(np.prod(shape)), dtype=np.int64).reshape(shape)
    x = da.from_array(a, chunks=tuple(tuple(c) for c in spec["chunks"]))
    kw = {"depth": spec["depth"], "boundary": spec["boundary"], "dtype": "int64"}
    if not spec["allow"] or spec.get("allow_explicit"):
        kw["allow_rechunk"] = spec["allow"]
    if spec["fn"] == "two":
        y = da.map_overlap(two, x, x + 1, **kw)
    else:
        y = da.map_overlap(FUNCS[spec["fn"]], x, **kw)
    if not isinstance(y.expr, MapOverlap):
        return None
    return y, x


def bound_candidates(rng, n, dl, dr):
    d = max(dl, dr, 1)
    c = [None, 0, 1, d - 1, d, d + 1, n // 2, n // 2 + 1, n - d - 1, n - d, n - d + 1, n - 1, n, n + 2, -1, -d, -d - 1, -n, -n - 1,
         dl, dr, n - dr, n - dl, rng.randint(0, n), rng.randint(0, n)]
    return c


def gen_axis_index(rng, n, dl, dr, direct):
    r = rng.random()
    step1 = lambda: 1 if (direct and rng.random() < 0.15) else None
    norm = lambda v: 0 if v is None else (v if v >= 0 else v + n)
    if r < 0.2:
        return slice(None)
    if r < 0.52:  # both bounds at / near / away from the ends, in order
        c = bound_candidates(rng, n, dl, dr)
        a, b = rng.choice(c), rng.choice(c)
        if a is not None and b is not None and norm(a) > norm(b):
            a, b = b, a
        return slice(a, b, step1())
    if r < 0.76:  # a random window (mostly longer than the depth: the rule fires unless the kind is periodic at an end)
        a = rng.randint(0, max(0, n - 1))
        b = rng.randint(a, n)
        if rng.random() < 0.25:
            a = a - n if a > 0 else a
            b = b - n if 0 < b < n else b
        return slice(a, b, step1())
    if r < 0.86:  # unordered: empty and reversed-empty ranges
        c = bound_candidates(rng, n, dl, dr)
        return slice(rng.choice(c), rng.choice(c), step1())
    if r < 0.9 and direct:  # reversed by more than the depth (`__getitem__` would have normalised it to an empty range):
        d = max(dl, dr)     # the expanded range is shorter than the depth, or reversed itself
        a = rng.randint(min(n, d + 1), n)
        b = rng.randint(0, max(0, a - d - 1))
        return slice(a, b, step1())
    if r < 0.94:
        c = bound_candidates(rng, n, dl, dr)
        return slice(rng.choice(c), rng.choice(c), rng.choice([2, -1, 3, -2]))
    if r < 0.97 or not direct:
        return rng.randint(-n, n - 1) if r < 0.97 else slice(None)
    return None


def gen_index(rng, shape, axes_d, direct):
    idx = []
    for n, (dl, dr) in zip(shape, axes_d):
        idx.append(gen_axis_index(rng, n, dl, dr, direct))
    if direct and rng.random() < 0.06:
        idx.insert(rng.randint(0, len(idx)), None)
    if rng.random() < 0.15:
        idx = idx[: rng.randint(0 if direct else 1, len(idx))]
    return tuple(idx)


# --------------------------------------------------------------------------- (1) reading the implementation's answer

class Answer:
    """the implementation's answer on one (node, slice node): decline | error | (structural input slices or None,
    behavioural per-axis positions or None, per-axis lengths, trim tokens or None, extra marker)"""

    def __init__(self):
        self.text = None  # final canonical text when no model answer is needed ("ok decline" / "err X")
        self.struct = None  # list of slices (structural reading) or None
        self.pos = None  # list of per-axis position lists (behavioural) or None
        self.lens = None  # per-axis lengths of the new node's input (behavioural)
        self.trim = None  # list of slices or None (no trim)
        self.marker = ""


def recover_positions(v, shape):
    """per-axis positions selected from the position-encoding source `arange(prod(shape)).reshape(shape)`"""
    v = np.asarray(v)
    if v.ndim != len(shape):
        return None, list(v.shape)
    if v.size == 0:
        return None, list(v.shape)
    coords = np.unravel_index(v, shape)
    pos = []
    for k in range(v.ndim):
        first = tuple(slice(None) if j == k else 0 for j in range(v.ndim))
        pos.append([int(t) for t in coords[k][first]])
    # the selection must be a product of per-axis selections
    src = np.arange(int(np.prod(shape)), dtype=np.int64).reshape(shape)
    if not np.array_equal(src[np.ix_(*pos)], v):
        return None, list(v.shape)
    return pos, list(v.shape)


def read_answer(node, sl):
    from dask_array._overlap import MapOverlap
    from dask_array.slicing import SliceSlicesIntegers

    ans = Answer()
    try:
        with warnings.catch_warnings():
            warnings.simplefilter("ignore")
            res = node._accept_slice(sl)
    except Exception as e:  # noqa: BLE001
        ans.text = err_name(e)
        return ans
    if res is None:
        ans.text = "ok decline"
        return ans
    if isinstance(res, MapOverlap):
        new = res
    elif isinstance(res, SliceSlicesIntegers) and isinstance(res.array, MapOverlap):
        new = res.array
        ans.trim = list(res.index)
        if res.allow_getitem_optimization != sl.allow_getitem_optimization:
            ans.marker += " !getitem-flag"
    else:
        ans.text = f"ok unexpected-{type(res).__name__}"
        return ans
    # the new node must be the same operation
    same = (new.func is node.func and new.depth == node.depth and new.boundary == node.boundary and new.trim_output == node.trim_output
            and new.allow_rechunk == node.allow_rechunk and new.kwargs == node.kwargs and len(new.arrays) == len(node.arrays))
    if not same:
        ans.marker += " !params"
    orig = node.arrays[0]
    inp = new.arrays[0]
    nd = orig.ndim
    if inp._name == orig._name:
        ans.struct = [slice(None)] * nd
    elif isinstance(inp, SliceSlicesIntegers) and inp.array._name == orig._name and all(isinstance(i, slice) for i in inp.index):
        ans.struct = list(inp.index) + [slice(None)] * (nd - len(inp.index))
    try:
        v = raw_eval(inp)
        ans.pos, ans.lens = recover_positions(v, tuple(int(s) for s in orig.shape))
    except Exception as e:  # noqa: BLE001
        ans.marker += " !input-" + type(e).__name__
    if ans.struct is not None and ans.pos is not None:
        want = [positions(s, int(n)) for s, n in zip(ans.struct, orig.shape)]
        if want != ans.pos:
            raise RuntimeError(f"c02_overlap: harness reader: structural index {ans.struct} of the pushed input selects {want}, "
                               f"evaluation selects {ans.pos}")
    return ans


def impl_axis_tokens(ans, shape, model_inp):
    """per-axis input tokens in the model's format; (tokens, used_fallback)"""
    nd = len(shape)
    mtoks = model_inp.split(",") if model_inp not in (None, "_") else []
    if len(mtoks) != nd:
        mtoks = [None] * nd
    out, fb = [], False
    for k in range(nd):
        st = f_slice(ans.struct[k]) if ans.struct is not None else None
        if st is not None and (mtoks[k] is None or st == mtoks[k]):
            out.append(st)
            continue
        fb = True
        # positions the implementation selects on this axis: by evaluation; from the structural index only when the
        # evaluation cannot tell (a zero-length axis elsewhere)
        if ans.pos is not None:
            p = ans.pos[k]
        elif ans.struct is not None:
            p = positions(ans.struct[k], shape[k])
        else:
            p = None
        if p is not None:
            if mtoks[k] is not None and positions(p_slice(mtoks[k]), shape[k]) == p:
                out.append(mtoks[k])
            elif not p:
                out.append("0:0:1")
            elif p == list(range(p[0], p[-1] + 1)):
                out.append(f"{p[0]}:{p[-1] + 1}:1")
            else:
                out.append("pos=" + "/".join(map(str, p)))
        elif ans.lens is not None and len(ans.lens) == nd:
            if mtoks[k] is not None and len(positions(p_slice(mtoks[k]), shape[k])) == ans.lens[k]:
                out.append(mtoks[k])
            else:
                out.append(f"shape={ans.lens[k]}")
        else:
            out.append("?")
    return out, fb


def accept_text(ans, shape, model):
    """canonical implementation output for ovs.accept given the model's answer (used only to pick between
    equivalent spellings of the same selection); (text, used_fallback)"""
    if ans.text is not None:
        return ans.text, False
    mt = model.split()
    model_inp = mt[1] if len(mt) == 3 and mt[0] == "ok" else None
    toks, fb = impl_axis_tokens(ans, shape, model_inp)
    trim = "N" if ans.trim is None else f_index(ans.trim)
    return "ok " + (",".join(toks) if toks else "_") + " " + trim + ans.marker, fb


def axis_text(ans, shape, model):
    if ans.text is not None:
        return ans.text, False
    mt = model.split()
    model_inp = mt[1] if len(mt) == 4 and mt[0] == "ok" else None
    toks, fb = impl_axis_tokens(ans, shape, model_inp)
    if ans.trim is None:
        return f"ok {toks[0]} N:N:N 0" + ans.marker, fb
    return f"ok {toks[0]} {f_index(ans.trim)} 1" + ans.marker, fb


def correspond_accept(ctx):
    from dask_array._overlap import MapOverlap
    from dask_array.slicing import SliceSlicesIntegers

    rng = ctx.rng
    n_nodes = ctx.scale(280, 2000)
    per_node = 4
    cases = []  # (family, request, Answer, shape, key)
    skipped = {"construct": 0, "escape": 0, "not-slice-node": 0}
    for _ in range(n_nodes):
        spec = gen_node_spec(rng)
        try:
            with warnings.catch_warnings():
                warnings.simplefilter("ignore")
                built = build_node(spec)
        except Exception:  # noqa: BLE001  (a refusal of the public API: asymmetric depth with a boundary, chunks < depth, ...)
            skipped["construct"] += 1
            continue
        if built is None:
            skipped["escape"] += 1
            continue
        y, _x = built
        node = y.expr
        shape = [int(s) for s in node.shape]
        nd = len(shape)
        dd, bb = node.depth[0], node.boundary[0]
        axes_d = [lr(dd.get(k, 0)) for k in range(nd)]
        kinds = [kind_of(bb.get(k, "none")) for k in range(nd)]
        pa = posaware(node.func)
        head = f"{f_list(shape)} {','.join(f'{l}.{r}' for l, r in axes_d)} {','.join(kinds)} {int(bool(node.allow_rechunk))} {len(node.arrays)} {int(pa)}"
        for _ in range(per_node):
            direct = rng.random() < 0.3
            index = gen_index(rng, shape, axes_d, direct)
            try:
                with warnings.catch_warnings():
                    warnings.simplefilter("ignore")
                    if direct:
                        sl = SliceSlicesIntegers(node, index, True)
                    else:
                        sl = y[index].expr
            except Exception:  # noqa: BLE001
                skipped["construct"] += 1
                continue
            if not (isinstance(sl, SliceSlicesIntegers) and isinstance(sl.array, MapOverlap) and sl.array._name == node._name):
                skipped["not-slice-node"] += 1
                continue
            stored = tuple(sl.index)
            ans = read_answer(node, sl)
            clampl = clampr = False
            for k, i in enumerate(stored[:nd]):
                if isinstance(i, slice) and i != slice(None) and max(axes_d[k]) > 0:
                    a, b, _st = i.indices(shape[k])
                    clampl |= a - axes_d[k][0] <= 0
                    clampr |= b + axes_d[k][1] >= shape[k]
            key = (tuple(sorted(set(kinds))), clampl, clampr, nd, "direct" if direct else "getitem", spec["fn"] if spec["fn"] in ("two", "block_id", "block_info") else "f",
                   bool(node.allow_rechunk))
            cases.append((FAM_ACCEPT, f"{FAM_ACCEPT} {head} {f_index(stored)}", ans, shape, key))
            if nd == 1 and len(node.arrays) == 1 and not pa and len(stored) <= 1 and all(isinstance(i, slice) for i in stored):
                tok = f_slice(stored[0]) if stored else "N:N:N"
                cases.append((FAM_AXIS, f"{FAM_AXIS} {shape[0]} {axes_d[0][0]} {axes_d[0][1]} {kinds[0]} {int(bool(node.allow_rechunk))} {tok}", ans, shape, key))
    # the model's answers, needed to choose between equivalent spellings of one selection
    need = [c[1] for c in cases if c[2].text is None]
    fetched = dict(zip(need, ctx.driver.run(need)))
    models = [fetched.get(c[1], "") for c in cases]
    side = {}
    pairs = {FAM_ACCEPT: [], FAM_AXIS: []}
    nfb = {FAM_ACCEPT: 0, FAM_AXIS: 0}
    fired = 0
    for (fam, req, ans, shape, key), model in zip(cases, models):
        text, fb = (accept_text if fam == FAM_ACCEPT else axis_text)(ans, shape, model)
        if fb:
            nfb[fam] += 1
            ctx.count(("ovs-fallback",))
        side[req] = key
        pairs[fam].append((req, text))
        if fam == FAM_ACCEPT and ans.text is None:
            fired += 1

    def bkey(req, model):
        mt = model.split()
        out = "decline" if mt[1:2] == ["decline"] else ("ok-notrim" if mt[-1] in ("N", "0") else "ok-trim")
        return (out,) + side.get(req, ())

    nd_a = ctx.correspond(FAM_ACCEPT, pairs[FAM_ACCEPT], branch_key=bkey)
    nd_x = ctx.correspond(FAM_AXIS, pairs[FAM_AXIS], branch_key=bkey)
    na, nx = len(pairs[FAM_ACCEPT]), len(pairs[FAM_AXIS])
    info = {"accept_cases": na, "axis_cases": nx, "accept_fired": fired, "accept_disagreements": nd_a, "axis_disagreements": nd_x,
            "fallback_accept": nfb[FAM_ACCEPT], "fallback_axis": nfb[FAM_AXIS], "skipped": skipped}
    ctx.assumptions.append(
        f"ovs.accept: the input slice of the pushed node is read structurally; in {nfb[FAM_ACCEPT]} of {na} cases "
        f"({(100.0 * nfb[FAM_ACCEPT] / max(1, na)):.1f} %) `Array.__getitem__` had normalised it to an equivalent spelling and the "
        "comparison was made on the positions selected from a position-encoding source (behavioural fallback); the structural "
        "reader is cross-checked against that evaluation in every case where both are available"
    )
    return info


# --------------------------------------------------------------------------- the halo-reading block function

def wsum_axis(b, ax, dl, dr):
    """weighted (1 … dl+dr+1) moving sum along `ax`, missing neighbours replaced by the edge entry"""
    n = b.shape[ax]
    if b.size == 0 or dl + dr == 0:
        return b
    pw = [(0, 0)] * b.ndim
    pw[ax] = (dl, dr)
    p = np.pad(b, pw, mode="edge")
    sel = lambda t: tuple(slice(t, t + n) if j == ax else slice(None) for j in range(b.ndim))
    return sum((t + 1) * p[sel(t)] for t in range(dl + dr + 1))


def wsum_fn(axes_d):
    axes = [(k, int(l), int(r)) for k, (l, r) in enumerate(axes_d) if l or r]

    def wsum(b):
        for k, l, r in axes:
            b = wsum_axis(b, k, l, r)
        return b

    return wsum


def wsum_bid_fn(axes_d):
    """the same plus a term that depends on WHERE the block sits (the rule must decline for such a function)"""
    inner = wsum_fn(axes_d)

    def wsum_block_id(b, block_id=None):
        return inner(b) + 1000 * (block_id[0] * 10 + (block_id[1] if len(block_id) > 1 else 0))

    return wsum_block_id


def block_code(chunks):
    """per element `block_id[0] * 10 + block_id[1]` for the advertised chunks"""
    per = [np.concatenate([np.full(int(c), i, dtype=np.int64) for i, c in enumerate(ax)]) if len(ax) else np.zeros(0, dtype=np.int64) for ax in chunks]
    out = per[0] * 10
    if len(per) > 1:
        out = np.add.outer(out, per[1])
    return out


def valid_wsum(p, ax, dl, dr, n):
    sel = lambda t: tuple(slice(t, t + n) if j == ax else slice(None) for j in range(p.ndim))
    return sum((t + 1) * p[sel(t)] for t in range(dl + dr + 1))


def numpy_map_overlap(a, axes_d, axes_b):
    """the definition: extend every overlap axis by its boundary kind (np.pad), weighted moving sum over the valid region"""
    p = a
    for k, ((l, r), b) in enumerate(zip(axes_d, axes_b)):
        if not (l or r):
            continue
        kind = kind_of(b)
        pw = [(0, 0)] * a.ndim
        pw[k] = (l, r)
        kw = {"constant_values": b} if kind == "constant" else {}
        p = np.pad(p, pw, mode=NP_MODE[kind], **kw)
    for k, (l, r) in enumerate(axes_d):
        if l or r:
            p = valid_wsum(p, k, l, r, a.shape[k])
    return p


# --------------------------------------------------------------------------- (2) ovs.eval

def correspond_eval(ctx):
    import dask_array as da

    rng = ctx.rng
    pairs = []
    for _ in range(ctx.scale(220, 2000)):
        n = rng.choice([1, 2, 3]) if rng.random() < 0.15 else rng.randint(4, 20)
        xs = [rng.randint(-9, 9) for _ in range(n)]
        kind = rng.choice(["none", "none", "periodic", "periodic", "reflect", "nearest", "constant"])
        c = rng.randint(-5, 5)
        cap = min(n, 5)
        if kind == "none" and rng.random() < 0.6:
            dl, dr = rng.randint(0, cap), rng.randint(0, cap)
        else:
            dl = dr = rng.randint(0 if rng.random() < 0.05 else 1, cap)
        if rng.random() < 0.12:
            idx = slice(None)
        else:
            cands = bound_candidates(rng, n, dl, dr)
            a, b = rng.choice(cands), rng.choice(cands)
            if rng.random() < 0.7 and a is not None and b is not None and (a if a >= 0 else a + n) > (b if b >= 0 else b + n):
                a, b = b, a
            idx = slice(a, b, None)
        req = f"{FAM_EVAL} {kind} {dl} {dr} {c} {f_slice(idx)} {f_list(xs)}"
        try:
            with warnings.catch_warnings():
                warnings.simplefilter("ignore")
                X = da.from_array(np.array(xs, dtype=np.int64), chunks=(irregular(rng, n),))
                depth = {0: (dl, dr)} if dl != dr else (dl if rng.random() < 0.5 else {0: dl})
                boundary = c if kind == "constant" else kind
                y = da.map_overlap(wsum_fn([(dl, dr)]), X, depth=depth, boundary=boundary, dtype="int64")
                z = y[idx]
                v = np.asarray(raw_eval(z.expr))
            out = "ok " + f_list(int(t) for t in v.ravel())
        except Exception as e:  # noqa: BLE001
            out = err_name(e)
        pairs.append((req, out))

    def bkey(req, model):
        t = req.split()
        n = len(t[6].split(",")) if t[6] != "_" else 0
        s = p_slice(t[5])
        a, b, _ = s.indices(n)
        dl, dr = int(t[2]), int(t[3])
        return (t[1], dl == dr, a - dl <= 0, b + dr >= n, s == slice(None), model == "ok _")

    ctx.correspond(FAM_EVAL, pairs, branch_key=bkey)
    return len(pairs)


# --------------------------------------------------------------------------- (3) search

def source_data(shape):
    n = int(np.prod(shape))
    k = np.arange(n, dtype=np.int64)
    return ((k * k * 31 + k * 17 + 5) % 211 - 100).reshape(shape)


def to_index(case_index):
    return tuple(slice(None) if i is None else slice(i[0], i[1], i[2]) for i in case_index)


def region_of(case):
    left = right = False
    touched = False
    for n, (l, r), i in zip(case["shape"], case["depth"], case["index"]):
        if not (l or r) or i is None:
            continue
        touched = True
        a, b, _ = slice(*i).indices(n)
        left |= a - l <= 0
        right |= b + r >= n
    if not touched:
        return "full"
    return "clamp-both" if left and right else "clamp-left" if left else "clamp-right" if right else "interior"


def check_search_case(ctx, case):
    import dask_array as da
    from dask_array._overlap import MapOverlap

    shape = tuple(case["shape"])
    axes_d = [tuple(d) for d in case["depth"]]
    axes_b = list(case["boundary"])
    index = to_index(case["index"])
    a = source_data(shape)
    kind0 = next((kind_of(b) for (l, r), b in zip(axes_d, axes_b) if l or r), "none")
    fn = case.get("fn", "wsum")
    with warnings.catch_warnings():
        warnings.simplefilter("ignore")

        def build():
            x = da.from_array(a, chunks=tuple(tuple(c) for c in case["chunks"]))
            depth = {k: (l if l == r else (l, r)) for k, (l, r) in enumerate(axes_d)}
            boundary = {k: b for k, b in enumerate(axes_b)}
            func = wsum_bid_fn(axes_d) if fn == "wsum+block_id" else wsum_fn(axes_d)
            y = da.map_overlap(func, x, depth=depth, boundary=boundary, dtype="int64")
            return y, y[index]

        try:
            y, z = build()
            want = numpy_map_overlap(a, axes_d, axes_b)
            if fn == "wsum+block_id":  # blocks of the ADVERTISED chunks of the un-sliced map_overlap
                want = want + 1000 * block_code(y.chunks)
            want = want[index]
            raw = np.asarray(raw_eval(z.expr))
        except Exception as e:  # noqa: BLE001  (the definition itself refuses: not about the rule)
            ctx.count(("search", kind0, "raw-raises", type(e).__name__))
            return None
        if raw.shape != want.shape or not np.array_equal(raw, want):
            ctx.fail("ovs:raw-differs-from-numpy", dict(case, got=raw.tolist(), want=want.tolist()),
                     "the un-optimized map_overlap(wsum)[index] (rewrite-free evaluation) differs from np.pad + moving sum")
        try:
            y, z = build()
            got = np.asarray(z.compute(scheduler="sync"))
        except Exception as e:  # noqa: BLE001
            ctx.fail(f"ovs:optimized-raises:{type(e).__name__}", dict(case, outcome=repr(e)[:300]),
                     "the optimized map_overlap(wsum)[index] raises while the rewrite-free evaluation succeeds")
            return None
        if got.shape != want.shape or not np.array_equal(got, want):
            ctx.fail("ovs:optimized-differs-from-numpy", dict(case, got=got.tolist(), want=want.tolist()),
                     "the optimized map_overlap(wsum)[index] differs from np.pad + moving sum then [index] "
                     "(a slice pushed through map_overlap must still see the halo of the FULL array)")
        # did the pushdown fire?
        fired = "no-node"
        if isinstance(y.expr, MapOverlap) and z.expr._name != y.expr._name:
            try:
                s = z.expr.simplify()
                names = {n._name for n in s.walk() if isinstance(n, MapOverlap)}
                fired = "declined" if y.expr._name in names else "fired"
            except Exception:  # noqa: BLE001
                fired = "simplify-raises"
        key = ("search", kind0 + ("+block_id" if fn == "wsum+block_id" else ""), fired, region_of(case))
        ctx.count(key)
        return key


def gen_search_axis_index(rng, n, dl, dr):
    """slices whose start is within the depth of 0 / whose stop is within the depth of n (where the expansion is clamped
    and the periodic guard decides), interior ones (the rule fires for every kind), short, full and stepped ones"""
    mode = rng.choices(["left", "right", "interior", "both", "short", "full", "step"], [24, 24, 34, 5, 6, 3, 4])[0]
    d = max(dl, dr, 1)
    if mode == "full":
        return None
    if mode == "step":
        return [rng.choice([None, 0, 1, n // 2]), rng.choice([None, n, n - 1]), rng.choice([2, -1])]
    lo, hi = dl + 1, n - dr - 1  # interior: lo <= start <= stop <= hi
    if mode == "interior" and lo >= hi:
        mode = "left"
    if mode == "interior":
        a = rng.randint(lo, hi - 1)
        b = rng.randint(a + 1, hi)
    elif mode == "left":
        a = rng.choice([None, 0, 0]) if rng.random() < 0.2 else rng.randint(0, min(n - 1, dl + 1))
        b = rng.randint(min(n, (a or 0) + 1), n) if rng.random() < 0.5 else rng.randint(min(n, (a or 0) + 1), max(min(n, (a or 0) + 1), hi))
    elif mode == "right":
        b = rng.choice([None, n, n]) if rng.random() < 0.2 else n - rng.randint(0, min(n - 1, dr + 1))
        bb = n if b is None else b
        a = rng.randint(0, max(0, bb - 1)) if rng.random() < 0.5 else rng.randint(min(lo, max(0, bb - 1)), max(0, bb - 1))
    elif mode == "both":
        a = rng.randint(0, min(n - 1, dl))
        b = n - rng.randint(0, min(n - 1 - a, dr))
    else:  # short: at most the depth long, possibly empty / reversed
        a = rng.randint(0, n - 1)
        b = min(n, a + rng.randint(-1, d))
        b = max(b, 0)
    if rng.random() < 0.08:  # negative spellings of the same positions
        a = a - n if (a is not None and a > 0) else a
        b = (b - n) if (b is not None and 0 < b < n) else b
    return [a, b, None]


def gen_search_case(rng):
    nd = rng.choice([1, 1, 1, 2, 2])
    shape = [rng.randint(6, 24)] + ([rng.randint(2, 9)] if nd == 2 else [])
    r = rng.random()
    kind = "periodic" if r < 0.4 else rng.choice(["none", "none", "reflect", "nearest", "constant"])
    both = nd == 2 and rng.random() < 0.45
    axes_d, axes_b = [], []
    for k, n in enumerate(shape):
        if k == 0 or both:
            kk = kind if k == 0 or rng.random() < 0.6 else rng.choice(["none", "periodic", "reflect", "nearest", "constant"])
            cap = min(5, max(1, n // 3)) if rng.random() < 0.8 else min(n, 5)
            if kk == "none" and rng.random() < 0.5:
                d = [rng.randint(0, cap), rng.randint(0, cap)]
                if d == [0, 0]:
                    d = [1, 0]
            else:
                v = rng.randint(1, cap)
                d = [v, v]
            axes_d.append(d)
            axes_b.append(rng.choice([0, 3, -7]) if kk == "constant" else kk)
        else:
            axes_d.append([0, 0])
            axes_b.append("none")
    chunks = [list(irregular(rng, n)) for n in shape]
    index = [gen_search_axis_index(rng, n, d[0], d[1]) for n, d in zip(shape, axes_d)]
    if nd == 2 and rng.random() < 0.4:
        index[1] = None
    if all(i is None for i in index):
        index[0] = [1, shape[0] - 1, None]
    fn = "wsum+block_id" if rng.random() < 0.1 else "wsum"
    return {"ovs": True, "shape": shape, "chunks": chunks, "depth": axes_d, "boundary": axes_b, "index": index, "fn": fn}


def corpus():
    out = []
    for b in ["periodic", "none", "reflect", "nearest", 4]:
        for idx in ([1, 7, None], [13, 19, None], [0, 6, None], [14, 20, None], [2, 18, None], [8, 12, None], [3, 9, None], [9, 9, None]):
            out.append({"ovs": True, "shape": [20], "chunks": [[5, 5, 5, 5]], "depth": [[2, 2]], "boundary": [b], "index": [idx], "fn": "wsum"})
    out.append({"ovs": True, "shape": [20], "chunks": [[3, 4, 6, 7]], "depth": [[3, 0]], "boundary": ["none"], "index": [[2, 9, None]], "fn": "wsum"})
    out.append({"ovs": True, "shape": [20], "chunks": [[3, 4, 6, 7]], "depth": [[1, 4]], "boundary": ["none"], "index": [[5, 17, None]], "fn": "wsum"})
    out.append({"ovs": True, "shape": [12, 6], "chunks": [[4, 4, 4], [3, 3]], "depth": [[2, 2], [1, 1]], "boundary": ["periodic", "periodic"],
                "index": [[3, 9, None], [1, 4, None]], "fn": "wsum"})
    out.append({"ovs": True, "shape": [12, 6], "chunks": [[4, 4, 4], [3, 3]], "depth": [[2, 2], [1, 1]], "boundary": ["periodic", "reflect"],
                "index": [[3, 9, None], [0, 4, None]], "fn": "wsum"})
    out.append({"ovs": True, "shape": [20], "chunks": [[5, 5, 5, 5]], "depth": [[2, 2]], "boundary": ["reflect"], "index": [[7, 16, None]], "fn": "wsum+block_id"})
    out.append({"ovs": True, "shape": [18], "chunks": [[3, 4, 6, 5]], "depth": [[1, 2]], "boundary": ["none"], "index": [[6, 14, None]], "fn": "wsum+block_id"})
    return out


def search(ctx):
    rng = ctx.rng
    tally = {}
    cases = corpus() + [gen_search_case(rng) for _ in range(ctx.scale(280, 3000))]
    for k, case in enumerate(cases):
        key = check_search_case(ctx, case)
        if key is not None:
            name = "/".join(key[1:])
            tally[name] = tally.get(name, 0) + 1
        if k in (3, 60):
            ctx.sample(case)
    return tally


# --------------------------------------------------------------------------- entry

def run(ctx, replay=None):
    if replay is not None:
        check_search_case(ctx, replay["case"])
        return
    info = correspond_accept(ctx)
    info["eval_cases"] = correspond_eval(ctx)
    tally = search(ctx)
    info["search"] = dict(sorted(tally.items()))
    n = sum(tally.values())
    nf = sum(v for k, v in tally.items() if "/fired/" in k)
    info["search_cases"] = n
    info["search_fired"] = nf
    ctx.extra["ovs"] = info
    ctx.assumptions.append(
        f"ovs search: {n} cases (1-d / 2-d, one or two overlap axes, every boundary kind), the slice pushdown through map_overlap fired in "
        f"{nf} of them (simplified tree no longer contains the original MapOverlap node); block function = separable weighted "
        "edge-replicating moving sum (a stencil of the declared depth); the NumPy oracle pads axis by axis in axis order as `overlap` does"
    )
