"""C02 (and C18), slice pushdown through reductions: `_accept_slice_impl` of dask_array/reductions/_reduction.py
(shared by `Reduction._accept_slice` and `PartialReduce._accept_slice`).

Model: lean/DaskArrayModel/Model/ReduceSlice.lean; driver family `rsl.*` (Drv/ReduceSlice.lean); theorems
Props/C02ReduceSlice.lean.

(1) correspondence, model vs the REAL functions on the same generated inputs
      * `rsl.split`: the real `_accept_slice_impl` called on real `Reduction` nodes (sum / max / mean / var / topk / argtopk,
        keepdims both ways, rank 1-4, one or several reduced axes, output_size 1..n) and on the `PartialReduce` nodes of their
        lowered trees, with a real `SliceSlicesIntegers` carrying the RAW index (ints of either sign - non-zero ints on the
        topk axis included -, slices of every sign / step, empty and block-dropping slices, short indices, `None`): declined,
        or (input_index handed to `make_result`, final_index of the `SliceSlicesIntegers` put on top, whether one is put on
        top).  `node._accept_slice(slice_expr)` must build the same expression (same `_name`) as the direct call.
      * `rsl.eval`: the model's denotation of `reduce(x)[index]` and of the pushed form vs the REAL dask computation
        (`x.sum(...)[index]` / `da.topk(x, k, axis)[index]`, optimized) on a fixed scrambled integer input.
(2) search on the real API, oracle = NumPy: programs `elemwise?(reduce(elemwise?(x)))[index][index2?]` with the reductions
    above (also nested reductions and `da.average(weights=)`), computed optimized, rewrite-free (props_ext/rawfree.py) and
    by NumPy; integers data, exact comparison (floats from mean / var / average: allclose).
A failure is reported only when the NumPy oracle fails on the real code; disagreeing correspondence cases are lifted to the
same end-to-end check.
"""
from __future__ import annotations

import numbers
import random
import signal
import threading
import time
import warnings

import numpy as np

from harness.core import f_list, f_slice

FAM = "rsl"
SIG_VALUES = "rsl:pushdown-changes-values"
SIG_RAISES = "rsl:pushdown-raises"
SIG_UNOPT = "rsl:rewrite-free-mismatch"
#: argtopk's input is the `argtopk_preprocess` map_blocks whose blocks are (values, indices) TUPLES: a slice pushed through
#: the Reduction that cuts inside a block ends in `tuple[index]` (TypeError) -- minimal input:
#: `da.argtopk(da.from_array(np.arange(6).reshape(2, 3), chunks=((2,), (1, 2))), 1, axis=0)[:, 2].compute()`
SIG_ARGTOPK = "rsl:argtopk-slice-into-tuple-blocks"  # fixed in e9b96e9 (object-dtype inputs decline); kept as a regression class
SIG_HANG = "rsl:optimized-compute-does-not-terminate"
WATCHDOG_S = 30


class _Timeout(BaseException):
    pass


def _alarm(signum, frame):  # noqa: ARG001
    raise _Timeout()

KINDS = ("sum", "max", "mean", "var", "topk", "argtopk")


# ------------------------------------------------------------------------------------------ generators

def gen_shape(rng, rank=None):
    rank = rank or rng.choice((1, 2, 2, 3, 3, 4))
    return tuple(rng.choice((1, 2, 3, 4, 5, 6, 7)) for _ in range(rank))


def gen_chunks(rng, shape):
    out = []
    for n in shape:
        mode = rng.random()
        if mode < 0.2:
            out.append((n,))
        elif mode < 0.6:
            c = rng.randint(1, max(1, n // 2))
            parts = [c] * (n // c) + ([n % c] if n % c else [])
            out.append(tuple(parts))
        else:
            parts = []
            left = n
            while left > 0:
                c = rng.randint(1, left)
                parts.append(c)
                left -= c
            out.append(tuple(parts))
    return tuple(out)


def gen_slice(rng, n, chunks=None):
    """a slice of any sign / step; block-dropping ones favoured when `chunks` is given"""
    m = rng.random()
    if m < 0.12:
        return slice(None)
    if chunks is not None and m < 0.45 and len(chunks) > 1:
        # drop whole leading / trailing blocks
        cum = np.cumsum((0,) + tuple(chunks)).tolist()
        a = rng.choice(cum[:-1])
        b = rng.choice([c for c in cum if c > a] or [n])
        if rng.random() < 0.5:
            b = min(n, b + rng.randint(-1, 1))
        return slice(a if a or rng.random() < 0.5 else None, b if b != n or rng.random() < 0.5 else None, rng.choice((None, None, 1, 2)))
    lo, hi = -n - 2, n + 2
    start = rng.choice((None, rng.randint(lo, hi)))
    stop = rng.choice((None, rng.randint(lo, hi)))
    step = rng.choice((None, 1, 1, 2, 3, -1, -1, -2, -3))
    return slice(start, stop, step)


def gen_index(rng, oshape, ochunks, raw, red_out_axes=(), allow_none=False):
    """items for a prefix of the output axes (mostly all of them)"""
    nd = len(oshape)
    k = nd if rng.random() < 0.8 else rng.randint(0, nd)
    items = []
    for ax in range(k):
        n = oshape[ax]
        m = rng.random()
        p_int = 0.45 if ax in red_out_axes else 0.3
        if allow_none and m > 0.985:
            items.append(None)
        elif m < p_int and n > 0:
            v = rng.randrange(n)
            if ax in red_out_axes and n > 1 and rng.random() < 0.7:
                v = rng.randrange(1, n)  # non-zero integer on the kept reduced (topk) axis
            if raw and rng.random() < 0.3:
                v -= n
            items.append(v)
        else:
            items.append(gen_slice(rng, n, ochunks[ax] if ochunks else None))
    return tuple(items)


def gen_reduction_spec(rng, shape):
    rank = len(shape)
    kind = rng.choice(KINDS)
    if kind in ("topk", "argtopk"):
        ax = rng.randrange(rank)
        k = rng.randint(1, shape[ax] + 1) * rng.choice((1, 1, -1))
        return {"kind": kind, "axes": [ax], "keepdims": True, "k": k}
    naxes = rng.choice((1, 1, 2, rank))
    naxes = max(1, min(rank, naxes))
    axes = sorted(rng.sample(range(rank), naxes))
    return {"kind": kind, "axes": axes, "keepdims": rng.random() < 0.5, "k": 0}


def data_for(shape):
    n = int(np.prod(shape)) if shape else 1
    return ((np.arange(n, dtype=np.int64) * 7 + 3) % 11).reshape(shape)


def rand_data(rng, shape):
    n = int(np.prod(shape)) if shape else 1
    return np.array([rng.randint(-9, 9) for _ in range(n)], dtype=np.int64).reshape(shape)


def build_red(xd, spec):
    import dask_array as da

    kind, axes, kd = spec["kind"], tuple(spec["axes"]), spec["keepdims"]
    if kind == "topk":
        return da.topk(xd, spec["k"], axis=axes[0])
    if kind == "argtopk":
        return da.argtopk(xd, spec["k"], axis=axes[0])
    if kind == "average":
        import dask_array as da
        w = da.from_array(np.asarray(spec["w"], dtype=np.int64), chunks=xd.chunks[axes[0]])
        return da.average(xd, axis=axes[0], weights=w)
    return getattr(xd, kind)(axis=axes, keepdims=kd)


def np_red(x, spec):
    kind, axes, kd = spec["kind"], tuple(spec["axes"]), spec["keepdims"]
    if kind in ("topk", "argtopk"):
        ax, k = axes[0], spec["k"]
        if kind == "topk":
            s = np.sort(x, axis=ax)
            if k > 0:
                s = np.flip(s, axis=ax)
            return np.take(s, np.arange(min(abs(k), x.shape[ax])), axis=ax)
        return None  # argtopk: ties make the indices ambiguous; checked through take_along_axis (see `same`)
    if kind == "average":
        return np.average(x, axis=axes[0], weights=np.asarray(spec["w"]))
    return getattr(np, kind)(x, axis=axes, keepdims=kd)


# ------------------------------------------------------------------------------------------ (1) correspondence

def fmt_item(v):
    if v is None:
        return "N"
    if isinstance(v, slice):
        return f_slice(v)
    return str(int(v))


def fmt_items(items):
    items = list(items)
    return "_" if not items else ",".join(fmt_item(v) for v in items)


def real_split(node, array, reduced_axes, keepdims, index, rebuild):
    """the REAL `_accept_slice_impl`; canonical output of the protocol"""
    from dask_array.reductions import _reduction as R
    from dask_array.slicing import SliceSlicesIntegers

    se = SliceSlicesIntegers(node, tuple(index), False)
    seen = {}

    def make_result(sliced_input, input_index):
        seen["inp"] = tuple(input_index)
        return rebuild(sliced_input)

    with warnings.catch_warnings():
        warnings.simplefilter("ignore")
        res = R._accept_slice_impl(se, array, set(reduced_axes), keepdims, make_result)
    if res is None:
        return "ok decline", se, None
    if isinstance(res, SliceSlicesIntegers) and "inp" in seen and res.array is not se:
        fin, outer = res.index, 1
    else:
        fin, outer = None, 0
    if fin is None:
        # no SliceSlicesIntegers on top: every item of final_index is slice(None); their number is the output rank
        fin = (slice(None),) * res.ndim
    return f"ok {fmt_items(seen['inp'])} ; {fmt_items(fin)} ; {outer}", se, res


def split_pairs(ctx, rng, store):
    import dask_array as da
    from dask_array.reductions._reduction import PartialReduce, Reduction

    pairs = []
    n_cases = ctx.scale(200, 2600)
    for _ in range(n_cases):
        shape = gen_shape(rng)
        chunks = gen_chunks(rng, shape)
        spec = gen_reduction_spec(rng, shape)
        xd = da.from_array(data_for(shape), chunks=chunks)
        try:
            y = build_red(xd, spec)
        except Exception:  # noqa: BLE001
            continue
        node = y.expr
        if not isinstance(node, Reduction):
            continue
        targets = [("Reduction", node, node.array, tuple(node.axis), bool(node.keepdims), int(node.output_size))]
        if rng.random() < 0.35:
            try:
                low = node.lower_completely() if rng.random() < 0.5 else node._lower()
                pr = [n for n in low.walk() if isinstance(n, PartialReduce)]
                if pr:
                    p = rng.choice(pr)
                    osz = int(node.output_size)
                    targets.append(("PartialReduce", p, p.array, tuple(sorted(p.split_every.keys())), bool(p.keepdims), osz))
            except Exception:  # noqa: BLE001
                pass
        for cls, nd_, arr, axes, kd, osz in targets:
            oshape = tuple(int(v) for v in nd_.shape)
            try:
                ochunks = nd_.chunks
            except Exception:  # noqa: BLE001
                ochunks = None
            ishape = tuple(int(v) for v in arr.shape)
            red_out = [a for a in axes] if kd else []
            for _k in range(3):
                index = gen_index(rng, oshape, ochunks, raw=True, red_out_axes=red_out, allow_none=True)

                def rebuild(sliced_input, nd_=nd_, cls=cls):
                    if cls == "Reduction":
                        return type(nd_)(sliced_input.expr, *nd_.operands[1:])
                    return PartialReduce(sliced_input.expr, *nd_.operands[1:])

                try:
                    out, se, res = real_split(nd_, arr, axes, kd, index, rebuild)
                    if res is not None or out == "ok decline":
                        weights = getattr(nd_, "weights", None) if cls == "Reduction" else None
                        if weights is None:
                            via = nd_._accept_slice(se)
                            if (via is None) != (res is None) or (via is not None and via._name != res._name):
                                out += " [node._accept_slice builds another expression]"
                except Exception as e:  # noqa: BLE001
                    out = "err " + type(e).__name__
                obj = 1 if arr.dtype == object else 0
                req = f"rsl.split {f_list(ishape)} {f_list(axes)} {1 if kd else 0} {osz} {obj} {fmt_items(index)}"
                pairs.append((req, out))
                store[req] = {"shape": list(shape), "chunks": [list(c) for c in chunks], "spec": spec, "cls": cls,
                              "index": [fmt_item(v) for v in index]}
                ctx.count(("rsl.split", cls, spec["kind"], kd, len(axes), min(osz, 3), out.startswith("ok decline"),
                           any(isinstance(v, numbers.Integral) for v in index)))
    return pairs


def eval_pairs(ctx, rng):
    import dask_array as da

    pairs = []
    for _ in range(ctx.scale(60, 500)):
        shape = gen_shape(rng, rng.choice((1, 2, 3, 3)))
        chunks = gen_chunks(rng, shape)
        rank = len(shape)
        if rng.random() < 0.5:
            ax = rng.randrange(rank)
            k = rng.randint(1, shape[ax])
            spec = {"kind": "topk", "axes": [ax], "keepdims": True, "k": k}
            osz = k
        else:
            axes = sorted(rng.sample(range(rank), rng.randint(1, rank)))
            spec = {"kind": "sum", "axes": axes, "keepdims": rng.random() < 0.5, "k": 0}
            osz = 1
        x = data_for(shape)
        xd = da.from_array(x, chunks=chunks)
        y = build_red(xd, spec)
        oshape = tuple(int(v) for v in y.shape)
        index = gen_index(rng, oshape, y.chunks, raw=False, red_out_axes=spec["axes"] if spec["keepdims"] else [])
        case = {"rsl": True, "shape": list(shape), "chunks": [list(c) for c in chunks], "spec": spec,
                "data": x.reshape(-1).tolist(), "pre": False, "post": False, "indices": [[fmt_item(v) for v in index]]}
        watchdog = threading.current_thread() is threading.main_thread()
        if watchdog:
            old = signal.signal(signal.SIGALRM, _alarm)
            signal.alarm(WATCHDOG_S)
        try:
            with warnings.catch_warnings():
                warnings.simplefilter("ignore")
                val = np.asarray(y[index].compute())
        except _Timeout:
            ctx.fail(SIG_HANG, case, f"optimized compute did not finish within {WATCHDOG_S} s")
            break
        except Exception as e:  # noqa: BLE001
            if watchdog:
                signal.alarm(0)
            ctx.notes["rsl.eval_raises"] = ctx.notes.get("rsl.eval_raises", 0) + 1
            ctx.notes.setdefault("rsl.eval_raises_example", repr((shape, chunks, spec, index, repr(e)[:80])))
            n0 = len(ctx.failures)
            check_case(ctx, case)
            if len(ctx.failures) > n0:
                break  # reported end to end; the remaining cases of this family would repeat it
            continue
        finally:
            if watchdog:
                signal.alarm(0)
                signal.signal(signal.SIGALRM, old)
        req = (f"rsl.eval {f_list(shape)} {f_list(spec['axes'])} {1 if spec['keepdims'] else 0} {osz} {spec['kind']} "
               f"{fmt_items(index)}")
        flat = f_list(val.reshape(-1).tolist())
        pairs.append((req, (f"ok {f_list(val.shape)} ; {flat} ; ", flat)))
    return pairs


def correspond_eval(ctx, pairs):
    """`rsl.eval` answers `shape ; original ; pushed|decline`: both forms must equal the real computation"""
    if not pairs:
        return
    outs = ctx.driver.run([r for r, _ in pairs])
    for (req, (head, flat)), model in zip(pairs, outs):
        ctx.traces += 1
        ctx.evaluations += 1
        ok = model.startswith(head) and model[len(head):] in (flat, "decline")
        ctx.distinct.add(("rsl.eval", req.split()[5], model.endswith("decline"), len(req) // 8))
        if not ok and len(ctx.disagreements) < 200:
            ctx.disagree("rsl.eval", req, model, head + flat)
    ctx.notes["corr.rsl.eval"] = ctx.notes.get("corr.rsl.eval", 0) + len(pairs)
    ctx.sample({"family": "rsl.eval", "request": pairs[len(pairs) // 2][0], "response": outs[len(pairs) // 2]})


# ------------------------------------------------------------------------------------------ (2) end-to-end search

def parse_item(t):
    if t == "N":
        return None
    if ":" in t:
        a, b, c = t.split(":")
        cv = lambda s: None if s == "N" else int(s)  # noqa: E731
        return slice(cv(a), cv(b), cv(c))
    return int(t)


def same(got, want, spec, x_pre, idxs):
    got = np.asarray(got)
    if spec["kind"] == "argtopk":
        return True  # handled by the caller through values
    if got.shape != want.shape:
        return False
    if got.dtype.kind == "f" or want.dtype.kind == "f":
        return bool(np.allclose(got, want, rtol=1e-9, atol=1e-12, equal_nan=True))
    return bool(np.array_equal(got, want))


def run_program(case):
    """-> (optimized result | exception, rewrite-free result | exception, numpy result)"""
    import dask_array as da
    from harness.props_ext.rawfree import raw_eval

    x = np.array(case["data"], dtype=np.int64).reshape(case["shape"])
    spec = case["spec"]
    idxs = [tuple(parse_item(t) for t in ix) for ix in case["indices"]]
    xd = da.from_array(x, chunks=tuple(tuple(c) for c in case["chunks"]))
    xn = x
    if case.get("pre"):
        xd, xn = xd * 2 + 1, x * 2 + 1
    yd = build_red(xd, spec)
    if spec["kind"] == "argtopk":
        # unique values make the indices unambiguous
        ax, k = spec["axes"][0], spec["k"]
        order = np.argsort(xn, axis=ax, kind="stable")
        if k > 0:
            order = np.flip(order, axis=ax)
        yn = np.take(order, np.arange(min(abs(k), xn.shape[ax])), axis=ax)
    else:
        yn = np_red(xn, spec)
    if case.get("second"):
        s2 = case["second"]
        yd = build_red(yd, s2)
        yn = np_red(np.asarray(yn), s2)
    if case.get("post"):
        yd, yn = yd - 3, yn - 3
    for ix in idxs:
        yd, yn = yd[ix], yn[ix]
    res = {}
    with warnings.catch_warnings():
        warnings.simplefilter("ignore")
        try:
            res["opt"] = np.asarray(yd.compute())
        except Exception as e:  # noqa: BLE001
            res["opt"] = e
        try:
            res["raw"] = np.asarray(raw_eval(yd.expr))
        except Exception as e:  # noqa: BLE001
            res["raw"] = e
        try:
            from dask_array.reductions._reduction import Reduction

            simp = yd.expr.simplify()
            in_shapes = {tuple(n.array.shape) for n in yd.expr.walk() if isinstance(n, Reduction)}
            pushed = any(tuple(n.array.shape) not in in_shapes for n in simp.walk() if isinstance(n, Reduction))
            res["simplified"] = ("pushed:" if pushed else "kept:") + type(simp).__name__
        except Exception as e:  # noqa: BLE001
            res["simplified"] = "raises " + type(e).__name__
    return res, np.asarray(yn)


def check_case(ctx, case):
    watchdog = threading.current_thread() is threading.main_thread()
    if watchdog:
        old = signal.signal(signal.SIGALRM, _alarm)
        signal.alarm(WATCHDOG_S)
    try:
        res, want = run_program(case)
    except _Timeout:
        ctx.fail(SIG_HANG, case, f"building / optimizing / computing the program did not finish within {WATCHDOG_S} s")
        return "fail"
    except Exception as e:  # noqa: BLE001  (NumPy refuses the program, or it cannot be built)
        if watchdog:
            signal.alarm(0)
        ctx.notes["rsl.skipped"] = ctx.notes.get("rsl.skipped", 0) + 1
        ctx.notes.setdefault("rsl.skipped_example", repr(e)[:160])
        return None
    finally:
        if watchdog:
            signal.alarm(0)
            signal.signal(signal.SIGALRM, old)
    spec = case["spec"]

    def eq(got):
        if got.shape != want.shape:
            return False
        if got.dtype.kind == "f" or want.dtype.kind == "f":
            return bool(np.allclose(got, want, rtol=1e-9, atol=1e-12, equal_nan=True))
        return bool(np.array_equal(got, want))

    opt, raw = res["opt"], res["raw"]
    if isinstance(opt, Exception):
        if isinstance(raw, Exception):
            ctx.notes["rsl.both_raise"] = ctx.notes.get("rsl.both_raise", 0) + 1
            ctx.notes.setdefault("rsl.both_raise_example", repr((case, repr(opt)[:100])))
            return "both-raise"
        sig = SIG_ARGTOPK if spec["kind"] == "argtopk" and isinstance(opt, TypeError) and "tuple indices" in str(opt) else SIG_RAISES
        ctx.fail(sig, case, f"optimized compute raises {type(opt).__name__}: {str(opt)[:120]}; rewrite-free form computes "
                 f"{'the NumPy result' if eq(raw) else 'something else'}")
        return "fail"
    if not eq(opt):
        ctx.fail(SIG_VALUES, case, f"optimized result {opt.tolist()!r:.150} (shape {opt.shape}) != NumPy {want.tolist()!r:.150} "
                 f"(shape {want.shape}); rewrite-free form {'agrees with NumPy' if not isinstance(raw, Exception) and eq(raw) else 'also differs'}")
        return "fail"
    if isinstance(raw, Exception) or not eq(raw):
        ctx.fail(SIG_UNOPT, case, f"rewrite-free evaluation {'raises ' + repr(raw)[:100] if isinstance(raw, Exception) else 'differs from NumPy'}")
        return "fail"
    return res.get("simplified", "?")


def gen_case(rng):
    shape = gen_shape(rng)
    chunks = gen_chunks(rng, shape)
    spec = gen_reduction_spec(rng, shape)
    if rng.random() < 0.08:
        ax = rng.randrange(len(shape))
        spec = {"kind": "average", "axes": [ax], "keepdims": False, "k": 0, "w": [rng.randint(1, 4) for _ in range(shape[ax])]}
    if spec["kind"] == "argtopk":
        n = int(np.prod(shape))
        vals = list(range(n))
        rng.shuffle(vals)
        data = vals
    else:
        data = rand_data(rng, shape).reshape(-1).tolist()
    case = {"rsl": True, "shape": list(shape), "chunks": [list(c) for c in chunks], "spec": spec, "data": data,
            "pre": rng.random() < 0.25, "post": rng.random() < 0.25}
    # output shape / chunks after the reduction(s)
    kd = spec["keepdims"]
    osz = min(abs(spec["k"]), shape[spec["axes"][0]]) if spec["kind"] in ("topk", "argtopk") else 1
    oshape = [osz if a in spec["axes"] else n for a, n in enumerate(shape) if kd or a not in spec["axes"]]
    ochunks = [(osz,) if a in spec["axes"] else chunks[a] for a, n in enumerate(shape) if kd or a not in spec["axes"]]
    red_out = list(spec["axes"]) if kd else []
    if oshape and rng.random() < 0.2 and spec["kind"] != "average":
        rank2 = len(oshape)
        axes2 = sorted(rng.sample(range(rank2), rng.randint(1, min(2, rank2))))
        # a second reduction on top (not over a length-0 axis)
        s2 = {"kind": rng.choice(("sum", "max")), "axes": axes2, "keepdims": rng.random() < 0.5, "k": 0}
        case["second"] = s2
        kd2 = s2["keepdims"]
        red_out = ([a for a in red_out if a not in axes2] + list(axes2)) if kd2 else []
        ochunks = [(1,) if a in axes2 else c for a, c in enumerate(ochunks) if kd2 or a not in axes2]
        oshape = [1 if a in axes2 else n for a, n in enumerate(oshape) if kd2 or a not in axes2]
        if not kd2:
            red_out = []
    idx = gen_index(rng, oshape, ochunks, raw=rng.random() < 0.3, red_out_axes=red_out)
    case["indices"] = [[fmt_item(v) for v in idx]]
    if rng.random() < 0.2:
        sh2 = list(np.empty(oshape)[idx].shape)
        if sh2 and all(n > 0 for n in sh2):
            idx2 = gen_index(rng, sh2, None, raw=True)
            case["indices"].append([fmt_item(v) for v in idx2])
    return case


def search(ctx, rng):
    n = ctx.scale(110, 1500)
    t0 = time.time()
    limit = ctx.scale(6.0, 200.0)
    done = 0
    for _ in range(n):
        if time.time() - t0 > limit:
            break
        case = gen_case(rng)
        r = check_case(ctx, case)
        if r is None:
            continue
        if ctx.failures and (ctx.failures[-1]["sig"] == SIG_HANG or len(ctx.failures) >= 25):
            break  # one non-terminating program is enough (every further one would cost the watchdog time); 25 failures too
        done += 1
        spec = case["spec"]
        ints = sum(1 for ix in case["indices"] for t in ix if ":" not in t and t != "N")
        ctx.count(("rsl.search", spec["kind"], spec["keepdims"], len(spec["axes"]), bool(case.get("second")), min(ints, 2), r))
        if done % 40 == 1:
            ctx.sample({"rsl_program": {k: case[k] for k in ("shape", "chunks", "spec", "indices")}, "simplified_root": r})
    ctx.notes["rsl.search_programs"] = done


def lift(ctx, store, first_dis):
    """every disagreeing `rsl.split` case is run end to end on the real API (normalised index)"""
    n0 = len(ctx.failures)
    for d in ctx.disagreements[first_dis:][:40]:
        if len(ctx.failures) - n0 >= 3:
            break  # enough concrete end-to-end failures for this class (a non-terminating one costs the watchdog time)
        info = store.get(d["request"])
        if not info or info["cls"] != "Reduction" or "N" in info["index"]:
            continue
        shape = info["shape"]
        case = {"rsl": True, "shape": shape, "chunks": info["chunks"], "spec": info["spec"],
                "data": data_for(tuple(shape)).reshape(-1).tolist(), "pre": False, "post": False, "indices": [info["index"]]}
        if info["spec"]["kind"] == "argtopk":
            case["data"] = list(range(int(np.prod(shape))))
        check_case(ctx, case)
        ctx.notes["rsl.lifted"] = ctx.notes.get("rsl.lifted", 0) + 1


#: regression probes: a non-zero integer / a slice on the kept topk axis must be re-applied unchanged
PROBES = [
    # minimal input of the repaired `rsl:argtopk-slice-into-tuple-blocks` (fix e9b96e9)
    {"rsl": True, "shape": [2, 3], "chunks": [[2], [1, 2]], "spec": {"kind": "argtopk", "axes": [0], "keepdims": True, "k": 1},
     "data": [0, 1, 2, 3, 4, 5], "pre": False, "post": False, "indices": [["N:N:N", "2"]]},
    {"rsl": True, "shape": [4, 6], "chunks": [[2, 2], [3, 3]], "spec": {"kind": "topk", "axes": [1], "keepdims": True, "k": 3},
     "data": [((i * 7 + 3) % 23) for i in range(24)], "pre": False, "post": False, "indices": [["2:4:N", "2"]]},
    {"rsl": True, "shape": [4, 6], "chunks": [[2, 2], [3, 3]], "spec": {"kind": "topk", "axes": [1], "keepdims": True, "k": -3},
     "data": [((i * 7 + 3) % 23) for i in range(24)], "pre": False, "post": False, "indices": [["0:2:N", "1:3:N"]]},
    {"rsl": True, "shape": [6, 4, 2], "chunks": [[3, 3], [2, 2], [2]], "spec": {"kind": "argtopk", "axes": [0], "keepdims": True, "k": 2},
     "data": [((i * 29 + 5) % 48) for i in range(48)], "pre": False, "post": False, "indices": [["1", "2:4:N", "0"]]},
    {"rsl": True, "shape": [4, 5, 6], "chunks": [[2, 2], [2, 3], [3, 3]], "spec": {"kind": "sum", "axes": [0, 2], "keepdims": True, "k": 0},
     "data": list(range(120)), "pre": False, "post": False, "indices": [["0", "3:5:N", "N:N:N"]]},
    {"rsl": True, "shape": [4, 5, 6], "chunks": [[2, 2], [2, 3], [3, 3]], "spec": {"kind": "max", "axes": [1], "keepdims": False, "k": 0},
     "data": list(range(120)), "pre": False, "post": False, "indices": [["2:4:N", "4"]]},
]


def run(ctx, replay=None):
    if replay is not None:
        case = replay.get("case", replay) if isinstance(replay, dict) else None
        if isinstance(case, dict) and case.get("rsl"):
            check_case(ctx, case)
        return
    t_start = time.time()
    rng = random.Random(ctx.rng.getrandbits(64))
    rng_search = random.Random(ctx.rng.getrandbits(64))
    have_driver = True
    try:
        probe = ctx.driver.run(["rsl.split 4,5 1 0 1 0 1:3:N"])
        if probe and probe[0].strip() == "bad-op":
            have_driver = False
    except Exception as e:  # noqa: BLE001
        have_driver = False
        ctx.notes["rsl_driver_error"] = repr(e)[:200]
    store = {}
    first_dis = len(ctx.disagreements)
    pairs = split_pairs(ctx, rng, store)
    epairs = eval_pairs(ctx, rng)
    if have_driver:
        ctx.correspond("rsl.split", pairs, lambda req, model: (req.split()[3], model.split(" ; ")[-1][:8], len(req) // 10))
        correspond_eval(ctx, epairs)
        lift(ctx, store, first_dis)
    else:
        ctx.notes["rsl_driver"] = "not available in this build"
    for case in PROBES:
        check_case(ctx, dict(case))
    if not any(f["sig"] == SIG_HANG for f in ctx.failures):
        search(ctx, rng_search)
    ctx.notes["rsl.seconds"] = round(time.time() - t_start, 2)
    ctx.assumptions.append(
        "rsl (slice through reductions): `_accept_slice_impl` is compared with the model on real Reduction / PartialReduce nodes "
        "(sum, max, mean, var, topk, argtopk - whose input has dtype object and declines since e9b96e9 -; rank 1-4; axis lengths 1-7; raw indices incl. negative ints, None, empty / stepped / "
        "negative-step / block-dropping slices, short indices); over-long indices, step 0, out-of-range ints, unknown chunks and "
        "zero-length axes are not generated.  The search computes such programs (optionally with an elemwise below / above, a second "
        "reduction on top, a second index, `average(weights=)`) optimized and rewrite-free against NumPy: exact for integers, "
        "allclose (rtol 1e-9) for mean / var / average."
    )
